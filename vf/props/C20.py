"""C20 - definition builds are deterministic, isolated and leave no residue.

Differential monitor across worker processes + residue predicates:
  * the same data-defined graph programs (vf/gen_graph.py, C01/C02 generator) are
    built in a reference process (PYTHONHASHSEED=0, sequential, NRT) and in
    variant processes: random hash seed + reverse order; interleaved with
    failing builds (exceptions and BaseExceptions raised by the graph function
    before/after it created units, input-check failures, writer failures);
    2-16 threads building concurrently under sys.monitoring yield injection in
    real-time mode; after heavy unrelated use of the library with the garbage
    collector disabled, every program built twice in a row; and a few truly
    fresh processes building a single program each.  The driver compares the
    sha256 of SynthDef.as_bytes() (or the exception class) per program across
    all of them.
  * after every failing build: main._current_synthdef is None, the build lock
    can be acquired, a unit created outside any build belongs to no definition.
"""

import functools
import gc
import hashlib
import json
import random
import threading
import time

from vf.common import derive_seed, h64, split, short_tb

LEVEL = 'exploration'
RULE = ("seeded graph programs (C01 arithmetic/optimiser domain and C02 multichannel / "
        "width-first / variants / big domains) built under 6 kinds of histories and "
        "configurations; a program is non-trivial when it built successfully, has at "
        "least 8 units and was compared in at least 4 configurations; distinct = hash "
        "of the program")
ASSUMPTIONS = [
    "the reference is the build in a process with PYTHONHASHSEED=0 that builds the "
    "programs sequentially; a few programs are additionally built in single-program "
    "fresh processes to validate that reference",
    "vf/gen_graph.py renders the same function from the same program data in every process",
]
MIN_COUNTERS = {
    'quick': {'failing_builds_callee-base': 15, 'shared_argument_cases_with_prepend_list': 25, 'distinct_functions_cut_short_by_a_fault': 10,
              'programs_compared': 250, 'comparisons': 1200, 'failing_builds': 150,
              'residue_checks': 450, 'concurrent_builds': 200,
              'concurrent_serialisations': 100, 'shared_argument_cases': 100,
              'signed_zero_cases': 100, 'shared_object_cases': 100, 'shared_list_cases': 100,
              'routine_steps_during_concurrent_builds': 100,
              'builds_inside_a_routine_during_concurrent_builds': 10},
    'thorough': {'programs_compared': 40000, 'comparisons': 160000,
                 'failing_builds': 30000, 'residue_checks': 60000,
                 'concurrent_builds': 40000, 'concurrent_serialisations': 1500,
                 'shared_argument_cases': 20000, 'signed_zero_cases': 20000,
                 'shared_object_cases': 20000, 'shared_list_cases': 20000,
                 'routine_steps_during_concurrent_builds': 2000,
                 'builds_inside_a_routine_during_concurrent_builds': 100},
}

KINDS = ['c01', 'c01', 'plain', 'mc', 'wf', 'variants', 'c01', 'mc']
FAIL_EXC = ['ValueError', 'KeyError', 'ZeroDivisionError', 'VfError']
FAIL_BASE = ['KeyboardInterrupt', 'SystemExit', 'GeneratorExit', 'VfBaseError']


def plan(tier, seed):
    shards = []
    if tier == 'quick':
        groups, per = 2, 160
        nfresh = 4
    else:
        groups, per = 16, 5000
        nfresh = 32
    for g in range(groups):
        base = dict(group=g, first_case=g * per, n=per, hard_timeout=1500)
        shards.append(dict(name=f'ref{g}', mode='nrt', kind='ref',
                           env={'PYTHONHASHSEED': '0'}, **base))
        shards.append(dict(name=f'rev{g}', mode='nrt', kind='rev',
                           env={'PYTHONHASHSEED': 'random'}, **base))
        shards.append(dict(name=f'fail{g}', mode='nrt', kind='fail',
                           env={'PYTHONHASHSEED': str(1 + g)}, **base))
        shards.append(dict(name=f'thr{g}', mode=['rt', 'nrt'][g % 2], kind='threads',
                           nthreads=[4, 16, 2, 8][g % 4], p_yield=[0.02, 0.1][g % 2],
                           env={'PYTHONHASHSEED': str(100 + g)}, **base))
        shards.append(dict(name=f'heavy{g}', mode=['nrt', 'rt'][g % 2], kind='heavy',
                           env={'PYTHONHASHSEED': 'random'}, **base))
    for k in range(nfresh):
        g = k % groups
        shards.append(dict(name=f'fresh{k}', mode='nrt', kind='fresh', group=g,
                           first_case=g * per + (k * 37) % per, n=1,
                           env={'PYTHONHASHSEED': '0'}, hard_timeout=300))
    return shards


def gen(seed, i):
    from vf import gen_graph as gg
    rng = random.Random(derive_seed(seed, 'C20', 'prog', i))
    kind = KINDS[i % len(KINDS)]
    if i % 97 == 96:
        kind = 'big'
    if kind == 'c01':
        prog = gg.gen_program(rng, name=f'p{i}')
    else:
        prog = gg.gen_program_c02(rng, kind, name=f'p{i}')
    return prog


class VfError(Exception):
    pass


class VfBaseError(BaseException):
    pass


def exc_class(name):
    return {'ValueError': ValueError, 'KeyError': KeyError,
            'ZeroDivisionError': ZeroDivisionError, 'VfError': VfError,
            'KeyboardInterrupt': KeyboardInterrupt, 'SystemExit': SystemExit,
            'GeneratorExit': GeneratorExit, 'VfBaseError': VfBaseError}[name]


def traced(f):
    """A pass-through decorator as users write them (functools.wraps): every
    decorated graph function shares this wrapper's code object."""
    @functools.wraps(f)
    def wrapper(*args, **kwargs):
        return f(*args, **kwargs)
    return wrapper


RESERIALISED = [0]
RESERIALISED_DIFFERS = []


def build_one(gg, ns, prog, decorate=False, describe=False):
    """-> ('ok', sha, nunits) | ('exc', ExceptionClassName)"""
    try:
        if decorate:
            ns2 = dict(ns)
            f = traced(gg.make_func(prog, ns2))
            sd = ns2['SynthDef'](prog['name'], f, **gg.synthdef_kwargs(prog))
        else:
            sd = gg.build(prog, dict(ns))
        if describe:
            from sc3.synth.synthdesc import SynthDesc
            if describe == 'nokeep':     # the reader path that keeps no def
                SynthDesc.new_from(sd, keep_def=False)
            else:
                SynthDesc.new_from(sd)
        b = bytes(sd.as_bytes())
        # the same definition object serialised again through the writer that
        # load() / store() / send() use (as_bytes() keeps its first result): the
        # first serialisation must not have changed the object
        try:
            import io
            st = io.BytesIO()
            sd._write_def_list([sd], st)
            RESERIALISED[0] += 1
            if st.getvalue() != b:
                RESERIALISED_DIFFERS.append(prog.get('name'))
        except AttributeError:
            pass
        return ['ok', hashlib.sha256(b).hexdigest(), len(sd._children)]
    except Exception as e:
        return ['exc', type(e).__name__]


CALLEE_SITES = set()
_FP = []
_FP_LOCK = threading.Lock()


def _failpoint():
    """Fail points in everything the constructor of a definition calls; the two
    frames that own the clean-up (SynthDef.__init__ / _build) are left out: an
    exception raised by a callee is what they promise to clean up after."""
    if not _FP:
        import sys
        from vf.inject import Failpoint, module_codes
        import sc3.synth.synthdef as sdm
        import sc3.synth.ugen as ugm
        mods = [sdm, ugm] + [m for n, m in list(sys.modules.items())
                             if n.startswith(('sc3.synth.ugens.', 'sc3.synth._'))
                             and m is not None]
        _FP.append(Failpoint(module_codes(
            mods, exclude=('SynthDef.__init__', 'SynthDef._build'))))
    return _FP[0]


def failing_build(gg, ns, rng, seed, acc, main, where):
    """Performs one build that must fail, then checks that nothing is left."""
    mode = rng.choice(['func-exc-after', 'func-exc-before', 'func-base-after',
                       'func-base-before', 'invalid', 'writer', 'func-exc-mid',
                       'callee-exc', 'callee-base', 'callee-base'])
    if mode.startswith('callee') and not _FP_LOCK.acquire(False):
        mode = 'func-base-after'        # one fail point user at a time
    try:
        return _failing_build(gg, ns, rng, seed, acc, main, where, mode)
    finally:
        if mode.startswith('callee'):
            _FP_LOCK.release()


def _failing_build(gg, ns, rng, seed, acc, main, where, mode):
    prog = gen(seed, 10 ** 6 + rng.randrange(5000))
    raised = None
    sd_w = None
    try:
        if mode.startswith('func'):
            f = gg.make_func(prog, dict(ns))
            ename = rng.choice(FAIL_BASE if 'base' in mode else FAIL_EXC)
            E = exc_class(ename)
            before = mode.endswith('before')
            mid = mode.endswith('mid')
            SinOsc = ns['SinOsc']

            @functools.wraps(f)
            def w(*a, **k):
                if before:
                    raise E('vf injected')
                if mid:
                    SinOsc.ar(441)
                    SinOsc.kr(3) * 2 + 1
                    raise E('vf injected')
                f(*a, **k)
                raise E('vf injected')
            ns['SynthDef'](prog['name'], w, **gg.synthdef_kwargs(prog))
        elif mode.startswith('callee'):
            # a valid program whose build is cut short by an exception (an
            # interrupt for 'base') at a random statement of any function that the
            # constructor calls: graph function, unit constructors, optimiser,
            # input checks, sort, indexing - found by counting a dry build first
            ename = rng.choice(FAIL_BASE if 'base' in mode else FAIL_EXC)
            fp = _failpoint()
            with fp:
                fp.arm(None, None)
                gg.build(prog, dict(ns))
                total = fp.n
                fp.disarm()
                if total:
                    nth = rng.randint(1, total)
                    acc.maxi('max_statements_in_a_build_open_to_faults', total)
                    fp.arm(nth, exc_class(ename)('vf injected'))
                    try:
                        gg.build(prog, dict(ns))
                    finally:
                        fp.disarm()
                        if fp.fired_at:
                            CALLEE_SITES.add(fp.fired_at[0])
        elif mode == 'invalid':
            what = rng.choice(gg.INVALID_KINDS)
            p2 = gg.gen_program_c02(rng, 'invalid:' + what, name='bad')
            mode = 'invalid:' + what
            gg.build(p2, dict(ns)).as_bytes()
        else:
            p2 = dict(prog)
            p2['name'] = 'n' * rng.choice([256, 300, 1000])
            sd_w = gg.build(p2, dict(ns))
            sd_w.as_bytes()
    except BaseException as e:      # noqa
        raised = type(e).__name__
        if mode == 'writer' and sd_w is not None:
            # the failed attempt must not leave bytes behind: asking again
            # fails again
            acc.count('residue_checks')
            try:
                b2 = bytes(sd_w.as_bytes())
                acc.violation('C20/residue/bytes-returned-after-failed-write',
                              {'mode': mode, 'raised': raised, 'second_request_len': len(b2),
                               'where': where})
            except Exception:
                pass
    acc.count('failing_builds')
    acc.count(f"failing_builds_{mode.split(':')[0]}")
    acc.maxi('distinct_functions_cut_short_by_a_fault', len(CALLEE_SITES))
    if raised is None:
        acc.count('failing_build_did_not_fail/' + mode)
        return
    cls = 'BaseException' if 'base' in mode else 'Exception'
    phase = mode.split(':')[0]
    # --- residue predicates ------------------------------------------
    acc.count('residue_checks')
    if main._current_synthdef is not None:
        acc.violation(f'C20/residue/current-synthdef-left-set/{cls}',
                      {'mode': mode, 'raised': raised, 'where': where})
        main._current_synthdef = None       # repair so that the run can go on
    acc.count('residue_checks')
    lock = main._def_build_lock
    if not hasattr(lock, 'acquire'):
        acc.violation('C20/residue/build-lock-is-not-a-lock',
                      {'lock': repr(lock), 'where': where})
    elif lock.acquire(blocking=False):
        lock.release()
    else:
        acc.violation(f'C20/residue/build-lock-left-held/{cls}/{phase}',
                      {'mode': mode, 'raised': raised, 'where': where})
    acc.count('residue_checks')
    try:
        u = ns['SinOsc'].ar(440)
        owner = getattr(u, '_synthdef', None)
    except Exception as e:
        owner = f'raised {type(e).__name__}'
    if owner is not None:
        acc.violation(f'C20/residue/unit-outside-build-attached/{cls}/{phase}',
                      {'mode': mode, 'raised': raised, 'owner': repr(owner),
                       'where': where})


def run_shard(spec, acc):
    from vf import gen_graph as gg
    from sc3.base.main import main
    cfg = spec['shard']
    kind = cfg['kind']
    seed = spec['seed']
    ns = gg.namespace()
    idx = list(range(cfg['first_case'], cfg['first_case'] + cfg['n']))
    out = {}
    rng = random.Random(derive_seed(seed, 'C20', cfg['name']))
    if kind in ('ref', 'fresh'):
        for i in idx:
            out[str(i)] = build_one(gg, ns, gen(seed, i))
    elif kind == 'rev':
        for i in reversed(idx):
            out[str(i)] = build_one(gg, ns, gen(seed, i), decorate=i % 2 == 0,
                                    describe=(False, True, 'nokeep')[i % 3])
            acc.count('decorated_builds', int(i % 2 == 0))
    elif kind == 'fail':
        for i in idx:
            if rng.random() < 0.6:
                failing_build(gg, ns, rng, seed, acc, main, 'sequential')
            if rng.random() < 0.5:
                shared_args_case(ns, rng, acc, 'sequential')
            if rng.random() < 0.5:
                signed_zero_case(ns, rng, acc, 'sequential')
            if rng.random() < 0.5:
                shared_objects_case(ns, rng, acc, 'sequential')
            if rng.random() < 0.5:
                shared_list_case(ns, rng, acc, 'sequential')
            out[str(i)] = build_one(gg, ns, gen(seed, i))
    elif kind == 'heavy':
        junk = heavy_use(rng)
        gc.disable()
        try:
            order = idx[:]
            rng.shuffle(order)
            for i in order:
                prog = gen(seed, i)
                a = build_one(gg, ns, prog)
                b = build_one(gg, ns, json.loads(json.dumps(prog)))
                acc.count('repeat_builds')
                if a != b:
                    acc.violation('C20/bytes-differ/repeated-build-in-one-process',
                                  {'case': i, 'first': a, 'second': b,
                                   'program': prog['name']})
                out[str(i)] = a
                if rng.random() < 0.1:
                    junk.extend(heavy_use(rng, 50))
        finally:
            gc.enable()
        del junk
    elif kind == 'threads':
        import sys
        from vf.inject import Injector, func_code
        from sc3.synth import synthdef as sdm, ugen as ugm
        from sc3.synth import _fmtrw
        wcodes = [func_code(getattr(_fmtrw, n)) for n in dir(_fmtrw)
                  if n.startswith('write_') and callable(getattr(_fmtrw, n))]
        wcodes += [func_code(getattr(sdm.SynthDef, n)) for n in
                   ('as_bytes', '_write_def', '_write_constants')
                   if hasattr(sdm.SynthDef, n)]
        codes = wcodes + [func_code(sdm.SynthDef._build), func_code(sdm.SynthDef._add_ugen),
                 func_code(sdm.SynthDef._finish_build),
                 func_code(sdm.SynthDef._optimize_graph),
                 func_code(sdm.SynthDef._topological_sort),
                 func_code(ugm.UGen._add_to_synth)]
        try:
            from sc3.synth import synthdesc as sdd
            codes.append(func_code(sdd.SynthDesc._read_synthdef2))
        except Exception:
            pass
        inj = Injector(codes, seed)
        inj.p_yield = cfg['p_yield']
        inj.start()
        sys.setswitchinterval(5e-5)
        nt = cfg['nthreads']
        lock = threading.Lock()
        errs = []

        def worker(k):
            trng = random.Random(derive_seed(seed, 'C20', cfg['name'], k))
            tns = gg.namespace()
            for i in idx[k::nt]:
                try:
                    if trng.random() < 0.3:
                        with lock:      # acc is not thread safe
                            pass
                        failing_build_threadsafe(gg, tns, trng, seed, acc, main, lock)
                    r = build_one(gg, tns, gen(seed, i),
                                  describe=trng.choice([False, True, 'nokeep', 'nokeep']))
                    with lock:
                        out[str(i)] = r
                        acc.count('concurrent_builds')
                except BaseException as e:   # noqa
                    errs.append(short_tb(e))
        # the writer first (short); if concurrent serialisation already corrupts
        # bytes, the descriptions read back below would parse garbage for minutes
        serialise_phase(gg, seed, cfg, idx, acc, rng)
        if acc.violations:
            inj.stop()
            acc.count('injected_yields', inj.injected)
            acc.extra['progs'] = out
            return
        # real-time mode: the clocks are busy meanwhile - routines whose steps take a
        # moment run on SystemClock and on a TempoClock (each step switches the
        # library's current time thread), one of them builds definitions itself
        bg_stop = [False]
        bg_clock = None
        if cfg.get('mode') == 'rt':
            from sc3.base import clock as clk, stream as stm
            bg_clock = clk.TempoClock(3.0)
            bns = gg.namespace()
            brng = random.Random(derive_seed(seed, 'C20', cfg['name'], 'bg'))
            bidx = list(idx[::max(1, len(idx) // 40)])

            bg_exits = []

            def guarded(name, gen_):
                def g():
                    try:
                        yield from gen_()
                    except BaseException as e:      # noqa
                        bg_exits.append((name, type(e).__name__, short_tb(e, 4)))
                        raise
                    bg_exits.append((name, 'returned', bg_stop[0]))
                return g

            def ticker_():
                from sc3.base.main import main as _main
                while not bg_stop[0]:
                    t0 = time.time()
                    # a step that takes a moment - unless the clock is behind already
                    # (no backlog may build up: a clock thread that always finds a due
                    # task never lets go of the library lock)
                    if _main.elapsed_time() - clk.SystemClock.seconds < 0.002:
                        while time.time() - t0 < 0.0002:
                            pass
                    with lock:
                        acc.count('routine_steps_during_concurrent_builds')
                    yield 0.004
            ticker = guarded('ticker', ticker_)

            bg_done = threading.Event()

            def builder_():
                for i in bidx:
                    if bg_stop[0]:
                        break
                    try:
                        r = build_one(gg, bns, gen(seed, i),
                                      describe=brng.choice([False, True, 'nokeep']))
                        with lock:
                            out.setdefault(str(i) + ':in-routine', r)
                            acc.count('builds_inside_a_routine_during_concurrent_builds')
                    except BaseException as e:   # noqa
                        errs.append(short_tb(e))
                    yield 0.004
                bg_done.set()
            builder = guarded('builder', builder_)
            for c in (clk.SystemClock, bg_clock, clk.SystemClock):
                stm.Routine(ticker).play(c) if c is clk.SystemClock else \
                    stm.Routine(ticker).play(c, 0)
            stm.Routine(builder).play(clk.SystemClock)
        ths = [threading.Thread(target=worker, args=(k,), daemon=True)
               for k in range(nt)]
        for t in ths:
            t.start()
        # one deadline for all of them (a build takes milliseconds): a thread
        # still alive then hangs inside the library
        deadline = time.time() + min(max(90.0, 0.25 * len(idx)), 0.7 * cfg.get('hard_timeout', 900))
        for t in ths:
            t.join(max(0.1, deadline - time.time()))
        if bg_clock is not None and not [t for t in ths if t.is_alive()]:
            # the routine that builds definitions itself finishes its list (on a
            # loaded host the threads may be done before it got far)
            if not bg_done.wait(60.0):
                import traceback
                frames = sys._current_frames()
                where = []
                for t in threading.enumerate():
                    if t.name.startswith(('SystemClock', 'TempoClock')):
                        fr = frames.get(t.ident)
                        if fr is not None:
                            where.append([t.name] + [
                                f'{f.name}@{f.filename.split("/")[-1]}:{f.lineno}'
                                for f in traceback.extract_stack(fr)[-6:]])
                acc.violation('C20/build-inside-a-routine-does-not-finish',
                              {'builds_done': acc.counters.get(
                                  'builds_inside_a_routine_during_concurrent_builds', 0),
                               'of': len(bidx), 'clock_threads': where[:3],
                               'routine_exits': bg_exits[:6], 'harness_errors': errs[:2]})
        bg_stop[0] = True
        if bg_clock is not None:
            time.sleep(0.01)
            # (from a helper thread: if a clock thread is stuck inside the library,
            # stop() would wait for it for ever and the shard would be lost)
            stopper = threading.Thread(target=bg_clock.stop, daemon=True)
            stopper.start()
            stopper.join(5.0)
        hung = [t for t in ths if t.is_alive()]
        if hung:
            import traceback
            frames = sys._current_frames()
            where = []
            for t in hung[:2]:
                fr = frames.get(t.ident)
                if fr is not None:
                    where.append([f'{f.name}@{f.filename.split("/")[-1]}:{f.lineno}'
                                  for f in traceback.extract_stack(fr)[-6:]])
            acc.violation('C20/concurrent-builds-hang', {'threads': nt, 'stacks': where})
            inj.stop()
            acc.extra['progs'] = out
            return
        inj.stop()
        acc.count('injected_yields', inj.injected)
        for e in errs[:3]:
            acc.violation('C20/harness-thread-raised', {'tb': e})
    acc.extra['progs'] = out
    acc.count('definitions_serialised_twice', RESERIALISED[0])
    if RESERIALISED_DIFFERS:
        acc.violation('C20/bytes-differ/second-serialisation-of-one-definition',
                      {'definitions': RESERIALISED_DIFFERS[:5], 'n': len(RESERIALISED_DIFFERS),
                       'shard': cfg['name']})
    acc.case(h64((cfg['name'], len(out))), nontrivial=False)


def shared_args_case(ns, rng, acc, where):
    """Build arguments are inputs, not state: a `rates` list object handed to
    one build (successful or failing) and then to the build of another function
    gives that function the bytes it gets with a fresh, equal list."""
    SynthDef = ns['SynthDef']

    def mk(name, annots, fail=False):
        params = ', '.join(f"p{i}{(': ' + repr(a)) if a else ''}=0.5"
                           for i, a in enumerate(annots))
        summ = ' + '.join(f'p{i}' for i in range(len(annots))) or '1'
        src = (f"def {name}({params}):\n"
               f"    Out.ar(0, SinOsc.ar(440) * ({summ}))\n"
               + ("    raise ValueError('vf injected')\n" if fail else ''))
        d = dict(ns)
        exec(src, d)
        return d[name]
    na, nb = rng.randint(1, 5), rng.randint(1, 5)
    ann_a = [rng.choice([None, 'ir', 'tr', 'ar', 'kr', 'ir', 'tr']) for _ in range(na)]
    ann_b = [rng.choice([None, None, None, 'kr', 'ir']) for _ in range(nb)]
    lags = [rng.choice([0, 0.1, 0.3, 0.5, None, 'kr']) for _ in range(rng.randint(1, 5))]
    first_fails = rng.random() < 0.3
    shared = list(lags)
    # ... and, in half of the cases, a `prepend` list object (values handed to
    # the first parameters instead of controls) kept by the caller as well
    pre = [rng.choice([0.25, 2, 440.0]) for _ in range(rng.randint(1, min(na, nb)))] \
        if rng.random() < 0.5 else None
    shared_pre = None if pre is None else list(pre)
    kw = {} if pre is None else {'prepend': shared_pre}
    try:
        SynthDef('vfa', mk('vfa', ann_a, first_fails), rates=shared, **kw)
    except Exception:
        pass
    out = []
    for rates, pp in ((shared, shared_pre), (list(lags), None if pre is None else list(pre))):
        try:
            kw = {} if pp is None else {'prepend': pp}
            out.append(hashlib.sha256(bytes(
                SynthDef('vfb', mk('vfb', ann_b), rates=rates, **kw).as_bytes())).hexdigest())
        except Exception as e:
            out.append('raised ' + type(e).__name__)
    acc.count('shared_argument_cases')
    if pre is not None:
        acc.count('shared_argument_cases_with_prepend_list')
        if shared_pre != pre and out[0] == out[1]:
            acc.violation('C20/residue/build-changed-a-list-of-the-caller',
                          {'prepend_before': repr(pre), 'prepend_after': repr(shared_pre)[:300],
                           'where': where})
    if out[0] != out[1]:
        acc.violation('C20/bytes-differ/build-arguments-shared-with-an-earlier-build',
                      {'first_annotations': ann_a, 'second_annotations': ann_b,
                       'rates': lags, 'rates_object_after_first_build': repr(shared),
                       'prepend': repr(pre), 'prepend_object_after_first_build': repr(shared_pre)[:200],
                       'first_build_failed': first_fails, 'with_shared': out[0],
                       'with_fresh': out[1], 'where': where})


def shared_objects_case(ns, rng, acc, where):
    """Objects that outlive one build are inputs too ("after arbitrary earlier
    use of the library"): an envelope object created outside the graph function
    and parametrised inside it by assignment (levels / times / curves from the
    function's controls), or mutated in place and assigned again between builds,
    gives the bytes of a build that creates a fresh, equal envelope; also after
    a build that failed behind the EnvGen."""
    import hashlib as _h
    SynthDef = ns['SynthDef']
    field = rng.choice(['levels', 'times', 'curves'])
    style = rng.choice(['assign-in-function', 'assign-in-function', 'mutate-and-reassign'])
    fail_between = rng.random() < 0.3
    nseg = rng.randint(2, 4)
    lv = [0] + [round(rng.uniform(0.1, 1), 2) for _ in range(nseg - 1)] + [0]
    tm = [round(rng.uniform(0.01, 1), 2) for _ in range(nseg)]
    src = (
        "def mk_env():\n"
        f"    return Env({lv!r}, {tm!r}, 'lin')\n"
        "def vfenv(amp=0.5, dur=0.25, crv=-2.0, gate=1):\n"
        "    e = ENVBOX[0] if ENVBOX else mk_env()\n"
        + ("    e.levels = [0, amp] + list(e.levels[2:])\n" if field == 'levels' and style == 'assign-in-function' else '')
        + ("    e.times = [dur] + list(e.times[1:])\n" if field == 'times' and style == 'assign-in-function' else '')
        + ("    e.curves = crv\n" if field == 'curves' and style == 'assign-in-function' else '')
        + "    sig = SinOsc.ar(440) * EnvGen.kr(e, gate)\n"
        "    if FAIL[0]:\n"
        "        raise ValueError('vf injected')\n"
        "    Out.ar(0, sig)\n")
    d = dict(ns)
    from sc3.synth.envelope import Env
    from sc3.synth.ugens.envgen import EnvGen
    d.update(Env=Env, EnvGen=EnvGen, ENVBOX=[], FAIL=[False])
    exec(src, d)

    def build():
        try:
            return _h.sha256(bytes(SynthDef('vfenv', d['vfenv']).as_bytes())).hexdigest()
        except Exception as e:
            return 'raised ' + type(e).__name__
    ref = build()                      # a fresh envelope per build
    d['ENVBOX'].append(d['mk_env']())  # from now on: one envelope object for all builds
    got = []
    for k in range(3):
        if style == 'mutate-and-reassign' and k:
            e = d['ENVBOX'][0]
            x = getattr(e, field)
            if isinstance(x, list):
                setattr(e, field, x)            # the same list object assigned again
        if fail_between and k == 1:
            d['FAIL'][0] = True
            build()
            d['FAIL'][0] = False
        got.append(build())
    acc.count('shared_object_cases')
    if any(g != ref for g in got):
        k = next(i for i, g in enumerate(got) if g != ref)
        acc.violation('C20/bytes-differ/object-shared-with-an-earlier-build/Env',
                      {'field': field, 'style': style, 'failing_build_between': fail_between,
                       'build': k + 1, 'with_shared_object': got[k], 'with_fresh_object': ref,
                       'levels': lv, 'times': tm, 'where': where})


def shared_list_case(ns, rng, acc, where):
    """A list that outlives the build (module constant, closure variable) used as
    an argument of unit constructors inside the graph function - nested lists with
    literal zeros for the output units, frequency / multiplier tables for
    oscillators: every build gives the bytes of a build with a fresh, equal list,
    also after a build that failed behind the units."""
    import hashlib as _h
    import copy as _copy
    SynthDef = ns['SynthDef']
    kind = rng.choice(['out-nested-zeros', 'out-nested-zeros', 'xout', 'freq-table'])
    zeros = [rng.choice([0, 0, 0.0, 0.25]) for _ in range(rng.randint(1, 3))]
    table = [[rng.choice([110, 220, 0, 330.5]) for _ in range(rng.randint(1, 3))]
             for _ in range(rng.randint(1, 2))]
    body = {
        'out-nested-zeros': "    Out.ar([0, 2], [SinOsc.ar(440), SHARED[0]])\n",
        'xout': "    XOut.ar(0, 0.5, [SinOsc.ar(440), SHARED[0]])\n",
        'freq-table': "    Out.ar(0, SinOsc.ar(SHARED[1]) * 0.1)\n",
    }[kind]
    src = ("def vfshared(amp=0.5):\n"
           "    sig = SinOsc.ar(200) * amp\n" + body +
           "    if FAIL[0]:\n"
           "        raise ValueError('vf injected')\n"
           "    Out.ar(4, sig)\n")
    d = dict(ns)
    from sc3.synth.ugens.inout import XOut
    pristine = [zeros, table]
    d.update(XOut=XOut, SHARED=_copy.deepcopy(pristine), FAIL=[False])
    exec(src, d)

    def build():
        try:
            return _h.sha256(bytes(SynthDef('vfshared', d['vfshared']).as_bytes())).hexdigest()
        except Exception as e:
            return 'raised ' + type(e).__name__
    ref = build()
    d['SHARED'] = shared = _copy.deepcopy(pristine)     # one object for the next builds
    got = []
    fail_between = rng.random() < 0.3
    for k in range(3):
        if fail_between and k == 1:
            d['FAIL'][0] = True
            build()
            d['FAIL'][0] = False
        got.append(build())
    acc.count('shared_list_cases')
    changed = repr(shared) != repr(pristine)
    if any(g != ref for g in got) or changed:
        k = next((i for i, g in enumerate(got) if g != ref), -1)
        acc.violation('C20/bytes-differ/object-shared-with-an-earlier-build/list'
                      if k >= 0 else 'C20/residue/build-changed-a-list-of-the-caller',
                      {'kind': kind, 'failing_build_between': fail_between, 'build': k + 1,
                       'with_shared_object': got[k] if k >= 0 else None,
                       'with_fresh_object': ref, 'list_before': repr(pristine),
                       'list_after': repr(shared)[:300], 'where': where})


def signed_zero_case(ns, rng, acc, where):
    """Two definitions whose constants / control defaults differ only in the
    sign of a zero (equal as numbers, different as float32 bit patterns), written
    in either order, among other builds: each keeps its own zeros."""
    import struct
    from vf import scgf
    SynthDef = ns['SynthDef']
    z = rng.choice([0.0, -0.0])
    other = -z
    extra = rng.choice([440.0, 0.5, 3.0])

    def mk(zero):
        src = (f"def vfz(a={zero!r}, b={extra!r}):\n"
               f"    Out.ar(0, SinOsc.ar({extra!r} + b, {zero!r}) * a)\n")
        d = dict(ns)
        exec(src, d)
        return d['vfz']
    out = {}
    order = [z, other] if rng.random() < 0.5 else [other, z]
    for zero in order + [order[0]]:
        try:
            b = bytes(SynthDef('vfz', mk(zero)).as_bytes())
            scgf.parse(b)               # strict: must be a complete definition
        except Exception as e:      # noqa
            acc.count('signed_zero_case_build_raised')
            return
        out.setdefault(repr(zero), []).append(b)
    acc.count('signed_zero_cases')
    neg = struct.pack('>f', -0.0)       # 80 00 00 00: occurs nowhere else in these defs
    for zr, blist in out.items():
        for b in blist:
            # the control default of `a` and the phase constant are the only
            # places a negative zero can come from: two of them in the -0.0
            # definition, none in the +0.0 one
            if b.count(neg) != (2 if zr.startswith('-') else 0):
                acc.violation('C20/bytes-differ/sign-of-zero-taken-from-an-earlier-definition',
                              {'zero': zr, 'order': [repr(x) for x in order], 'where': where})
                return
    if len(set(out[repr(order[0])])) != 1:
        acc.violation('C20/bytes-differ/repeated-build-in-one-process',
                      {'what': 'signed-zero definition', 'order': [repr(x) for x in order],
                       'where': where})


def serialise_phase(gg, seed, cfg, idx, acc, rng):
    """Definitions are built one after the other, then their bytes are asked for
    from several threads at once (the writer does not run under the build lock):
    (a) different definitions concurrently, (b) one not yet serialised
    definition by all threads at once.  Every result must equal the bytes of a
    fresh build serialised alone."""
    ns = gg.namespace()
    nt = max(2, min(4, cfg['nthreads']))
    picks = [i for i in idx if i % 3 == 0][:60 if len(idx) < 1000 else 240]
    for rnd in range(0, len(picks), nt * 3):
        batch = picks[rnd:rnd + nt * 3]
        ref, defs = {}, {}
        for i in batch:
            prog = gen(seed, i)
            try:
                ref[i] = hashlib.sha256(bytes(gg.build(prog, dict(ns)).as_bytes())).hexdigest()
                defs[i] = gg.build(prog, dict(ns))       # not serialised yet
            except Exception:
                ref.pop(i, None)
        todo = sorted(defs)
        if len(todo) < 2:
            continue
        shared = todo[-1]
        got = {}
        bar = threading.Barrier(nt)

        def w(k):
            try:
                bar.wait(10)
            except threading.BrokenBarrierError:
                pass
            for i in todo[:-1][k::nt]:
                try:
                    got[(k, i)] = hashlib.sha256(bytes(defs[i].as_bytes())).hexdigest()
                except Exception as e:
                    got[(k, i)] = 'raised ' + type(e).__name__
            try:
                got[(k, shared)] = hashlib.sha256(
                    bytes(defs[shared].as_bytes())).hexdigest()
            except Exception as e:
                got[(k, shared)] = 'raised ' + type(e).__name__
        ths = [threading.Thread(target=w, args=(k,), daemon=True) for k in range(nt)]
        for t in ths:
            t.start()
        for t in ths:
            t.join(60)
        for (k, i), h in sorted(got.items()):
            acc.count('concurrent_serialisations')
            if i == shared:
                acc.count('concurrent_serialisations_of_one_definition')
            if h != ref[i]:
                acc.violation('C20/bytes-differ/concurrent-serialisation/'
                              + ('same-definition' if i == shared else 'different-definitions'),
                              {'case': i, 'thread': k, 'got': h, 'alone': ref[i],
                               'threads': nt})
                break


def failing_build_threadsafe(gg, ns, rng, seed, acc, main, lock):
    """Failing build from one of several concurrently building threads.  Only
    the lock-independent residue predicates make sense here: another thread
    may legitimately be inside a build right now, so _current_synthdef and
    the lock are judged only by the sequential shards."""
    prog = gen(seed, 10 ** 6 + rng.randrange(5000))
    f = gg.make_func(prog, dict(ns))
    E = exc_class(rng.choice(FAIL_EXC))

    @functools.wraps(f)
    def w(*a, **k):
        f(*a, **k)
        raise E('vf injected')
    try:
        ns['SynthDef'](prog['name'], w, **gg.synthdef_kwargs(prog))
    except Exception:
        pass
    with lock:
        acc.count('failing_builds')
        acc.count('failing_builds_concurrent')


def heavy_use(rng, n=3000):
    """Thousands of unrelated library objects kept alive (id()-based hashes and
    allocation patterns differ from a fresh process)."""
    from sc3.base.stream import Routine
    from sc3.synth.envelope import Env
    from sc3.seq.patterns.listpatterns import Pseq
    junk = []
    for k in range(n):
        x = rng.random()
        if x < 0.3:
            def f():
                yield 1
            junk.append(Routine(f))
        elif x < 0.6:
            junk.append(Env([0, rng.random(), 0], [0.1, 0.2]))
        elif x < 0.8:
            junk.append(Pseq([1, 2, rng.random()], 2))
        else:
            junk.append([object() for _ in range(rng.randint(1, 20))])
    return junk


# ---------------------------------------------------------------------------
def finalize(results, tier, seed):
    by = {}
    for r in results:
        sp = r['shard_spec']
        if r.get('ok'):
            by.setdefault(sp['group'], []).append(
                (sp['kind'], sp['name'], (r.get('extra') or {}).get('progs', {})))
    fin = {'violations': {}, 'counters': {}, 'evaluations': 0, 'nontrivial': [],
           'samples': [], 'inconclusive': []}

    def viol(key, w):
        ent = fin['violations'].setdefault(key, {'count': 0, 'witnesses': []})
        ent['count'] += 1
        if len(ent['witnesses']) < 3:
            ent['witnesses'].append({'witness': w, 'shard_spec': None})

    def cnt(k, n=1):
        fin['counters'][k] = fin['counters'].get(k, 0) + n

    from vf import gen_graph as gg
    for g, lst in sorted(by.items()):
        ref = [x for x in lst if x[0] == 'ref']
        if not ref:
            fin['inconclusive'].append(f'group {g}: reference shard missing')
            continue
        ref = ref[0][2]
        for i, a in ref.items():
            ncmp = 0
            for kind, name, progs in lst:
                if kind == 'ref':
                    continue
                cands = [(kind, progs[i])] if i in progs else []
                if i + ':in-routine' in progs:
                    cands.append((kind + '-in-routine', progs[i + ':in-routine']))
                for kind_, b in cands:
                    ncmp += 1
                    cnt('comparisons')
                    cnt(f'comparisons_{kind_}')
                    if a[:2] == b[:2]:
                        continue
                    prog = gen(seed, int(i))
                    what = 'bytes-differ' if a[0] == b[0] == 'ok' else \
                        'outcome-differs'
                    viol(f'C20/{what}/reference-vs-{kind_}',
                         {'case': int(i), 'program_kind': prog.get('kind', 'c01'),
                          'reference': a, 'other': b, 'other_shard': name,
                          'script': gg.script(prog)[:3000]})
            fin['evaluations'] += 1
            cnt('programs_compared')
            if a[0] == 'ok':
                cnt('programs_built_ok')
                if a[2] >= 8 and ncmp >= 4:
                    fin['nontrivial'].append(h64(('C20', seed, i)))
            else:
                cnt(f'programs_raising_{a[1]}')
            if len(fin['samples']) < 2 and a[0] == 'ok' and a[2] >= 8:
                fin['samples'].append({'case': int(i), 'sha256': a[1], 'units': a[2],
                                       'compared_in': ncmp + 1,
                                       'script_head': gg.script(gen(seed, int(i)))[:600]})
    return fin
