"""C05 - logical time in routines is exact and independent of physical jitter.

Trace monitor embedded in the program interpreter (vf/prog.py): every routine
carries a shadow expectation of its logical time that is advanced only by the
deltas it yields (or set to the signaller's time after a Condition/FlowVar
wait, or to the parent's time at start); at every resumption the observed
clock.seconds / clock.beats are compared with it.  RT shards run batches of
programs concurrently under injected jitter (random yields at statement
boundaries of the clock loops, oversleeping Condition.wait in clock threads,
tasks that sleep while holding the main lock, burner threads, 1 us switch
interval); the observed physical lateness is reported as evidence that jitter
was present.  NRT shards run the same kind of programs (plus AppClock,
arbitrary deltas) and additionally check that logical time never decreases
from one executed task to the next and that elapsed time ends at the last
scheduled instant.
"""

import json
import random
import threading
import time

from vf.common import derive_seed, h64, iter_cases, case_rng, split

LEVEL = 'exploration'
RULE = ("seeded random programs of nested routines (depth <= 3) on SystemClock, "
        "AppClock (NRT) and 0-3 TempoClocks (tempo 0.25-16) with yields, child "
        "plays on the same/other clocks, tempo changes, Condition/FlowVar "
        "hand-shakes and inline next() of inner routines; non-trivial = at least "
        "two routines, one nested or cross-clock play and three yields; distinct "
        "= hash of the program tree")
ASSUMPTIONS = [
    "TempoClock seconds<->beats conversions are compared with 1e-9 relative tolerance "
    "(SystemClock/AppClock seconds: bit-for-bit)",
    "children on a TempoClock are played with quant=0 (the default quant rounds to the "
    "next beat, which is C12's subject)",
    "RT: time.time() does not step during a run (HostWatch)",
]
MIN_COUNTERS = {
    'quick': {'rt_resumptions_checked': 2000, 'nrt_resumptions_checked': 3000,
              'rt_programs_finished': 40, 'nrt_programs': 200,
              'rt_hand_driven_steps_from_thread_checked': 10,
              'restart_wakeups_compared': 4000},
    'thorough': {'rt_resumptions_checked': 100000, 'nrt_resumptions_checked': 200000,
                 'rt_programs_finished': 2000, 'nrt_programs': 20000,
                 'rt_hand_driven_steps_from_thread_checked': 300,
                 'restart_wakeups_compared': 100000},
}
FEATURES = ('tempo', 'cond', 'flow', 'call', 'embed', 'resched', 'beats', 'reenter',
            'replay', 'yinf', 'ahead')


def plan(tier, seed):
    shards = []
    if tier == 'quick':
        shards.append(dict(name='rt0', mode='rt', kind='rt', secs=14, batch=30,
                           p_yield=0.03, burners=4, oversleep=True, slow=True,
                           hard_timeout=120))
        shards.append(dict(name='rt1', mode='rt', kind='rt', secs=14, batch=30,
                           p_yield=0.0, burners=0, oversleep=False, slow=False,
                           hard_timeout=120))
        for p, (f, n) in enumerate(split(1600, 4)):
            shards.append(dict(name=f'nrt{p}', mode='nrt', kind='nrt', first_case=f,
                               n=n, secs=40, hard_timeout=160))
        shards.append(dict(name='restart0', mode='nrt', kind='restart', first_case=0, n=5000,
                           secs=25, hard_timeout=160))
    else:
        shards.append(dict(name='restart0', mode='nrt', kind='restart', first_case=0,
                           n=400000, secs=300, hard_timeout=700))
        for i in range(10):
            shards.append(dict(
                # (16 burner threads with 80 programs at once starved the clock threads
                # of the interpreter lock: not one batch ended within the shard's time)
                # (and with 10-20 % yield injection on top at most 4 burners / 40 programs)
                name=f'rt{i}', mode='rt', kind='rt', secs=240,
                batch=[20, 40, 60 if i % 4 < 2 else 40][i % 3],
                p_yield=[0.0, 0.02, 0.1, 0.2][i % 4], burners=[0, 4, 8 if i % 4 < 2 else 4][i % 3],
                oversleep=i % 2 == 0, slow=i % 3 != 1, hard_timeout=700))
        for p, (f, n) in enumerate(split(480000, 6)):
            shards.append(dict(name=f'nrt{p}', mode='nrt', kind='nrt', first_case=f,
                               n=n, secs=500, hard_timeout=700))
    return shards


def nontrivial(prog):
    from vf.prog import features_of
    f = features_of(prog)
    nrout = [0]
    ny = [0]

    def walk(R):
        nrout[0] += 1
        for s in R['body']:
            if s[0] == 'y':
                ny[0] += 1
            if s[0] == 'play':
                walk(s[1])
    for R in prog['routines']:
        walk(R)
    return nrout[0] >= 2 and ny[0] >= 3 and ('depth1' in f or 'cross-clock-child' in f), f


def report_fails(run, acc, mode, prog):
    seen = set()
    for fl in run.fails:
        if fl['kind'] == 'resumed-after-yielding-inf':
            acc.violation(f'C05/resumed-after-yielding-inf/{mode}',
                          {'fail': fl, 'case': run.tag, 'program': prog})
            continue
        if fl['kind'] == 'resumed-without-release':
            continue        # C11's subject (the times of that routine are re-synchronised)
        if fl['kind'] == 'seconds':
            key = f"C05/logical-seconds-differ/{fl['clock']}/after-{fl['after']}/{mode}"
        elif fl['kind'] == 'tempo-seconds-model':
            key = f"C05/tempo-seconds-differ-from-independent-map/after-{fl['after']}/{mode}"
        elif fl['kind'] == 'inner-routine-time':
            key = f"C05/inner-routine-not-at-parent-time/{mode}"
        else:
            key = f"C05/{fl['kind']}-differ/after-{fl['after']}/{mode}"
        if key in seen:
            continue
        seen.add(key)
        acc.violation(key, {'fail': fl, 'case': run.tag, 'program': prog})
    for e in run.errors[:2]:
        acc.violation(f'C05/routine-body-raised/{e[1]}/{mode}',
                      {'error': e, 'case': run.tag, 'program': prog})


# ---------------------------------------------------------------------------
def run_rt(spec, acc):
    import sys
    from vf.prog import Gen, Run, rearm_program
    from vf.inject import Injector, Burners
    from vf.rt import HostWatch
    from vf.props.C08 import clock_codes
    from sc3.base.main import main
    from sc3.base import clock as clk
    cfg = spec['shard']
    seed = derive_seed(spec['seed'], 'C05', cfg['name'], spec.get('attempt', 0))
    rng = random.Random(seed)
    watch = HostWatch()
    watch.start()
    from sc3.base import stream as stm_
    from vf.inject import func_code
    codes = clock_codes() + [stm_._MainTimeThread._seconds.fget.__code__,
                             func_code(type(main)._update_logical_time)
                             if hasattr(type(main), '_update_logical_time')
                             else func_code(main._update_logical_time)]
    inj = Injector(codes, seed)
    inj.p_yield = cfg['p_yield']
    inj.start()
    burn = Burners(cfg['burners'])
    burn.start()
    if cfg['p_yield'] or cfg['burners']:
        sys.setswitchinterval(5e-5)
    orig_wait = threading.Condition.wait
    jr = random.Random(seed + 7)
    if cfg['oversleep']:
        def wait(self, timeout=None):
            if timeout is not None and timeout > 0:
                n = threading.current_thread().name
                if n.startswith(('SystemClock', 'TempoClock')) and jr.random() < 0.4:
                    timeout += jr.uniform(0.0005, 0.008)
            return orig_wait(self, timeout)
        threading.Condition.wait = wait
    slow_stop = [False]
    if cfg['slow']:
        # a plain thread that keeps grabbing the main lock and sleeping while
        # holding it: every clock wake-up that falls into such a window is late
        def slow():
            while not slow_stop[0]:
                with main._main_lock:
                    time.sleep(jr.uniform(0.0005, 0.003))
                time.sleep(0.004)
        threading.Thread(target=slow, daemon=True, name='vf-slow').start()
        # ... and slow tasks on AppClock (GUI-style work, 1-6 ms each, every 10 ms):
        # "whatever the ... number of other tasks" - a wake-up of another clock
        # that falls into such a task is late, its logical time is not affected
        from sc3.base.functions import Function
        app_tasks = [0]

        def app_slow():
            time.sleep(jr.uniform(0.001, 0.006))
            app_tasks[0] += 1
            return None if slow_stop[0] else 0.01
        clk.AppClock.sched(0, Function(app_slow))
    # a plain thread that keeps asking for the logical time (REPL / GUI style
    # use of the API) while the clock threads run routines
    reader_stop = [False]
    reads = [0]

    def reader():
        while not reader_stop[0]:
            try:
                clk.SystemClock.seconds
                reads[0] += 1
            except Exception:
                pass
            if reads[0] % 50 == 0:
                time.sleep(0)
    threading.Thread(target=reader, daemon=True, name='vf-time-reader').start()
    t_end = time.time() + cfg['secs']
    case = 0
    tcx = [clk.TempoClock(t) for t in (1, 2.5)]     # tempo never changes
    if cfg['slow']:
        # ... and routines with slow steps on those TempoClocks (0.5-1.5 ms of work
        # per step, every 20 ms; none when the clock is behind, so that no backlog
        # builds up): for part of the time the library's current time thread is a
        # routine of a TempoClock
        from sc3.base.stream import Routine as _Routine

        def slow_steps(clock, tempo):
            def body():
                while not slow_stop[0]:
                    if clock.elapsed_beats() - clock.beats < 0.005 * tempo:
                        _IN_TEMPO_STEP.set()        # (the prober aims at these windows)
                        time.sleep(jr.uniform(0.0005, 0.0015))
                        _IN_TEMPO_STEP.clear()
                    yield 0.02 * tempo
            _Routine(body).play(clock, 0)
        slow_steps(tcx[0], 1)
        slow_steps(tcx[1], 2.5)
    try:
        while time.time() < t_end:
            done_ev = threading.Event()
            left = [cfg['batch']]
            lock = threading.Lock()

            def on_done(run):
                with lock:
                    left[0] -= 1
                    if left[0] == 0:
                        done_ev.set()
            runs = []
            for _ in range(cfg['batch']):
                prng = random.Random(derive_seed(seed, 'prog', case))
                g = Gen(prng, rt_safe=True, features=FEATURES)
                prog = g.program()
                if case % 16 == 7:
                    prog = rearm_program(prng, rt=True)
                    acc.count('rt_rearm_programs')
                r = Run(prog, 'rt', on_done, tag=case)
                runs.append((r, prog))
                case += 1
            # a second plain thread keeps scheduling probe routines while the
            # batch runs (the clocks are busy then)
            probes = []
            pstop = [False]
            perr = []

            def prober(prng=random.Random(seed + case)):
                try:
                    while not pstop[0] and len(probes) < 150:
                        probes.extend(thread_sched_probes(clk, main, prng, tcx))
                        time.sleep(prng.choice([0, 0.0005, 0.002]))
                except Exception as e:      # the prober itself failed: say so
                    perr.append(f'{type(e).__name__}: {e}')
            pth = threading.Thread(target=prober, daemon=True, name='vf-prober')
            pth.start()
            for k, (r, _) in enumerate(runs):
                # from this plain thread, while the clock threads are busy with
                # the programs started before: play(), or sched(delta) whose
                # base is this thread's time = physical now
                if time.time() > t_end + 90:
                    # the shard's time is long over and the clocks are still busy
                    # with the programs started so far (each start waits for the
                    # library lock): the rest of the batch is not started
                    acc.count('rt_programs_not_started_shard_out_of_time')
                    r.skipped = True
                    with lock:
                        left[0] -= 1
                        if left[0] == 0:
                            done_ev.set()
                    continue
                if k % 2:
                    r.start(delta=rng.choice([0, 0, 0.001, 0.004, 0.02]))
                else:
                    r.start()
            if not done_ev.wait(10.0):
                # the clocks are behind (overloaded host): let them catch up
                # instead of piling the next batch on top; a shard whose clocks
                # stay behind ends here with what it has
                acc.count('rt_batches_not_finished_within_10s')
                if not done_ev.wait(60.0):
                    acc.count('rt_shards_ended_early_clocks_behind')
                    t_end = 0
            pstop[0] = True
            pth.join(5)
            time.sleep(0.08)        # the last probes' yields (<= 4 x 10 ms)
            with main._main_lock:
                snap = [(r, p, r.done) for r, p in runs]
                psnap = [dict(p) for p in probes]
            for e_ in perr:
                acc.mark_inconclusive('prober thread failed: ' + e_[:200])
            for p in psnap:
                if not p['obs']:
                    acc.count('rt_thread_sched_probes_unfinished')
                    continue
                acc.count('rt_thread_sched_probes_checked')
                if p['how'] == 'Routine.next-from-thread':
                    for c0, now, c1 in p['steps']:
                        acc.count('rt_hand_driven_steps_from_thread_checked')
                        if now is None or not all(c0 - 1e-6 <= x <= c1 + 1e-6 for x in now):
                            acc.violation(
                                'C05/hand-driven-routine-step-not-at-the-present-of-the-call/rt',
                                {'call_begin': c0, 'call_end': c1, 'observed': now,
                                 'behind_by': None if now is None else c0 - min(now)})
                            break
                    continue
                lo, hi, unit = p['lo'], p['hi'], p['unit']
                t0 = p['obs'][0]
                if p['how'].startswith('Routine'):
                    acc.count('rt_default_clock_plays_checked')
                    if p.get('ran_on') != 'SystemClock':
                        acc.violation(
                            f"C05/played-without-clock-from-thread-runs-on-{p.get('ran_on')}/rt",
                            {'probe': {k: v for k, v in p.items() if k != 'obs'},
                             'observed': p['obs'][:4]})
                        continue
                if not (lo - 1e-6 <= t0 <= hi + 1e-6):
                    acc.violation(
                        f"C05/start-time-not-call-time-plus-delta/{p['how']}-from-thread/rt",
                        {'probe': {k: v for k, v in p.items() if k != 'obs'},
                         'observed': p['obs'][:4], 'start_minus_lo': t0 - lo})
                    continue
                exp = t0
                for j, (d, o) in enumerate(zip(p['deltas'], p['obs'][1:])):
                    exp = exp + d
                    if (o != exp) if unit == 'secs' else (abs(o - exp) > 1e-9 * max(1.0, abs(exp))):
                        acc.violation(f"C05/{'logical-seconds' if unit == 'secs' else 'tempo-beats'}"
                                      f"-differ/thread-scheduled-routine/rt",
                                      {'probe': {k: v for k, v in p.items() if k != 'obs'},
                                       'k': j + 1, 'expected': exp, 'observed': o})
                        break
            for r, prog, fin in snap:
                if getattr(r, 'skipped', False):
                    continue
                nt, feats = nontrivial(prog)
                acc.case(h64(json.dumps(prog, sort_keys=True)), nontrivial=nt)
                if fin:
                    acc.count('rt_programs_finished')
                else:
                    acc.count('rt_programs_unfinished')
                acc.count('rt_resumptions_checked', r.n_res)
                acc.count('rt_resumptions_checked_against_independent_map', r.n_model)
                for (what, ck), n in r.kinds.items():
                    acc.count(f'rt_res_{what}_{ck}', n)
                acc.maxi('max_rt_lateness_s', r.max_late)
                for f in feats:
                    acc.count('feature_' + f)
                report_fails(r, acc, 'rt', prog)
                if r.start_window is not None and r.T0 is not None:
                    acc.count('rt_thread_sched_starts_checked')
                    lo, hi = r.start_window
                    if not (lo - 1e-6 <= r.T0 <= hi + 1e-6):
                        acc.violation(
                            'C05/start-time-not-call-time-plus-delta/SystemClock.sched'
                            '-from-thread/rt',
                            {'case': r.tag, 'T0': r.T0, 'window': [lo, hi],
                             'T0_minus_lo': r.T0 - lo, 'T0_minus_hi': r.T0 - hi})
                if acc.want_sample() and nt and len(json.dumps(prog)) < 900:
                    acc.sample({'mode': 'rt', 'program': prog, 'log_head': r.log[:8]})
                r.stop_clocks()
    finally:
        for c in tcx:
            c.stop()
        reader_stop[0] = True
        acc.count('concurrent_time_reads', reads[0])
        slow_stop[0] = True
        if cfg['slow']:
            acc.count('slow_appclock_tasks', app_tasks[0])
        acc.count('rt_failing_tasks_next_to_probes', _BOOMS[0])
        acc.count('rt_tempo_sched_probes_aimed_at_a_running_routine', acc_aimed[0])
        threading.Condition.wait = orig_wait
        inj.stop()
        burn.stop()
    acc.count('injected_yields', inj.injected)
    acc.maxi('max_host_oversleep_s', watch.max_oversleep)
    if watch.max_step > 0.05:
        acc.mark_inconclusive(f'wall clock stepped by {watch.max_step:.3f}s')
    injected = cfg['p_yield'] or cfg['oversleep'] or cfg['slow'] or cfg['burners']
    if injected and acc.counters.get('max_rt_lateness_s', 0) < 0.001:
        acc.mark_inconclusive('no physical jitter >= 1 ms observed in an injected run')


_BOOMS = [0]
acc_aimed = [0]
_IN_TEMPO_STEP = threading.Event()


def _boom():
    raise ValueError('vf: a task that fails')


def thread_sched_probes(clk, main, rng, tcx):
    """Routines scheduled from this plain thread with sched / sched_abs on
    SystemClock and on TempoClocks whose tempo never changes: the first logical
    time must lie in the interval [call begin, call end] + delta (this thread's
    time is the physical present), the later ones follow the yielded deltas."""
    from sc3.base.stream import Routine
    from sc3.base.functions import Function
    out = []
    for _ in range(rng.randint(1, 3)):
        how = rng.choice(['SystemClock.sched', 'SystemClock.sched_abs',
                          'TempoClock.sched', 'TempoClock.sched_abs',
                          'Routine.play-default-clock', 'Routine.run-default-clock',
                          'Routine.next-from-thread'])
        if how == 'Routine.next-from-thread':
            # a routine driven by hand from this plain thread: each step runs at
            # this thread's time = the physical present of the call, however long
            # ago the library last looked at the time
            hp = {'how': how, 'steps': [], 'obs': [None], 'lo': 0, 'hi': 0, 'unit': 'secs',
                  'deltas': [], 'delta': 0}

            def hand():
                while True:
                    hp['now'] = (clk.SystemClock.seconds, main.current_tt._seconds)
                    yield 0
            hr = Routine(hand)
            for _ in range(rng.randint(1, 3)):
                time.sleep(rng.choice([0.002, 0.01, 0.03]))
                _IN_TEMPO_STEP.wait(0.01)
                c0 = main.elapsed_time()
                hr.next()
                c1 = main.elapsed_time()
                hp['steps'].append((c0, hp.get('now'), c1))
            out.append(hp)
            continue
        d = rng.choice([0, 0.001, 0.004, 0.02])
        deltas = [rng.choice([0, 0.001, 0.003, 0.01]) for _ in range(rng.randint(1, 4))]
        clock = clk.SystemClock if how.startswith(('System', 'Routine')) else rng.choice(tcx)
        p = {'how': how, 'delta': d, 'deltas': deltas, 'obs': [],
             'unit': 'secs' if clock is clk.SystemClock else 'beats'}

        def body(p=None, clock=clock, deltas=deltas, rec=p):
            sec = clock is clk.SystemClock
            if isinstance(p, tuple) and len(p) == 2:
                rec['ran_on'] = ('SystemClock' if p[1] is clk.SystemClock else
                                 'AppClock' if p[1] is clk.AppClock else type(p[1]).__name__)
            rec['obs'].append(clock.seconds if sec else clock.beats)
            for x in deltas:
                yield x
                rec['obs'].append(clock.seconds if sec else clock.beats)
        r = Routine(body)
        if rng.random() < 0.4:
            # other tasks of that clock fail around the probe's wake-ups (the clock
            # logs them and goes on): the probe's logical times are not affected
            for _ in range(rng.randint(1, 2)):
                clock.sched(rng.choice([0.0005, 0.002, 0.0035, 0.011]), Function(_boom))
                _BOOMS[0] += 1
        if how.startswith('Routine'):
            # no clock given, called from this plain thread: the default clock
            # (SystemClock), starting now - whatever the clock threads are running
            p['delta'] = d = 0
            _IN_TEMPO_STEP.wait(0.03)       # preferably while a TempoClock routine runs
            c0 = main.elapsed_time()
            if how == 'Routine.play-default-clock':
                r.play()
            else:
                r = Routine.run(body)
            p['lo'], p['hi'] = c0, main.elapsed_time()
        elif clock is clk.SystemClock:
            if rng.random() < 0.5:
                _IN_TEMPO_STEP.wait(0.02)       # while a clock thread runs a routine
            c0 = main.elapsed_time()
            if how.endswith('abs'):
                clock.sched_abs(c0 + d, r)
                p['lo'] = p['hi'] = c0 + d
            else:
                clock.sched(d, r)
                p['lo'], p['hi'] = c0 + d, main.elapsed_time() + d
        else:
            if rng.random() < 0.5:
                _IN_TEMPO_STEP.wait(0.02)
                acc_aimed[0] += 1
            b0 = clock.secs2beats(main.elapsed_time())
            if how.endswith('abs'):
                clock.sched_abs(b0 + d, r)
                p['lo'] = p['hi'] = b0 + d
            else:
                clock.sched(d, r)
                p['lo'], p['hi'] = b0 + d, clock.secs2beats(main.elapsed_time()) + d
        out.append(p)
    return out


def run_nrt(spec, acc):
    from vf.prog import Gen, Run, rearm_program
    from sc3.base.main import main
    for i in iter_cases(spec):
        prng = case_rng(spec['seed'], 'C05', 'nrt', i)
        g = Gen(prng, rt_safe=False, nrt_only=True, features=FEATURES)
        prog = g.program()
        if i % 12 == 5:
            prog = rearm_program(prng)
            acc.count('nrt_rearm_programs')
        main.reset()
        r = Run(prog, 'nrt', tag=i)
        try:
            r.start()
            main.process()
        except Exception as e:
            from vf.common import short_tb, tb_sites
            site = (tb_sites(e) or [('?', '?')])[-1]
            acc.violation(f'C05/nrt-process-raised/{type(e).__name__}/{site[1]}',
                          {'case': i, 'program': prog, 'tb': short_tb(e)})
            continue
        nt, feats = nontrivial(prog)
        acc.case(h64(json.dumps(prog, sort_keys=True)), nontrivial=nt)
        acc.count('nrt_programs')
        acc.count('nrt_resumptions_checked', r.n_res)
        acc.count('nrt_resumptions_checked_against_independent_map', r.n_model)
        for (what, ck), n in r.kinds.items():
            acc.count(f'nrt_res_{what}_{ck}', n)
        for f in feats:
            acc.count('feature_' + f)
        acc.count('nrt_yields_of_other_numeric_classes', r.n_wrapped)
        if not r.done:
            # every routine of a program ends (waits are always released, a
            # yield of inf ends the routine's part): a program that is still
            # live when the scheduler has run dry lost a resumption
            acc.count('nrt_programs_unfinished')
            acc.violation('C05/nrt-program-still-live-when-the-schedule-is-empty',
                          {'case': i, 'program': prog, 'live': r.live,
                           'log_tail': r.log[-6:]})
        report_fails(r, acc, 'nrt', prog)
        # logical time never decreases from one executed task to the next
        # (beats<->seconds round trips of tempo clocks may cost an ulp: 1e-9 rel.)
        prev = None
        res = [e for e in r.log if e[0] == 'res']
        for e in res:
            if prev is not None and e[3] < prev[3] - 1e-9 * max(1.0, abs(prev[3])):
                acc.violation('C05/nrt-logical-time-decreases',
                              {'case': i, 'program': prog, 'before': prev, 'after': e})
                break
            prev = e
        acc.count('nrt_monotonic_checked')
        el = main.elapsed_time()
        if res and el != res[-1][3]:
            acc.violation('C05/nrt-elapsed-not-at-last-instant',
                          {'case': i, 'program': prog, 'elapsed': el,
                           'last_executed': res[-1]})
        if acc.want_sample() and nt and len(json.dumps(prog)) < 900:
            acc.sample({'mode': 'nrt', 'case': i, 'program': prog,
                        'log_head': r.log[:8]})


def run_shard(spec, acc):
    if spec['shard']['kind'] == 'restart':
        # routines that restart their function while scheduled (YieldAndReset)
        # and are reset / paused / resumed from another routine: the histories of
        # vf/c11_restart.py, judged here by the logical time of every wake-up
        from vf.c11_restart import run_restart
        return run_restart(spec, acc, 'C05', judged=('wake-up-',))
    if spec['shard']['kind'] == 'rt':
        run_rt(spec, acc)
    else:
        run_nrt(spec, acc)
