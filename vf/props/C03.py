"""C03 - multichannel expansion follows the wrap-and-zip law everywhere.

Differential reference-model monitor.  Every case is one SynthDef build.  In
the graph function the real call is made once with list arguments ("E") and
once through the reference expansion vf/c03_model.expand, which only ever
issues list-free calls ("R"); both results are compared by a structural
signature (class, rate, special index, number of outputs, output index,
recursive inputs, numbers by value, tuple/list/ChannelList container kinds).
Monitors:

  gen   unit-generator constructors (population discovered at run time: a
        (class, ar|kr|ir|dr|new) pair qualifies when its constructor hands its
        arguments - scalars and, one position at a time, a list - unchanged
        and in order to exactly one top-level `cls._multi_new(rate, *args)`),
        plus a harness-defined probe class.  Also: created-unit counting
        (wrapper on SynthObject._create_ugen_object), tuple opacity probe, and
        a bytes-level comparison of the E and R result trees through tagged
        Out sinks decoded with vf/scgf.py.
  conv  (part of gen) CONVERTING constructors: a second population,
        discovered at run time too (Harness.discover_converting), of
        constructors that run an argument through the per-value conversion
        of the parameter interface (UGenSequence / ChannelList
        ._as_audio_rate_input: K2A for a control-rate unit, DC for a number,
        nothing for an audio-rate unit - the .ar constructors of the
        delay-line family DelayN/L/C, CombN/L/C, AllpassN/L/C, BufDelay*,
        BufComb*, BufAllpass*, DelTapWr) and then delegate everything to one
        generic expansion.  Qualification uses list-free and HOMOGENEOUS
        two-element list probes only; the monitor then decides the law for
        lists that MIX audio-rate units, control-rate units and numbers
        (also zeros), nested lists, channel lists and wrap-around against
        the other arguments: element i must be what the same call returns for
        element i (with ITS conversion).  The class of behaviour behind it:
        every place where a list argument is converted as a whole must
        convert per element - a decision taken for the list as a whole (its
        fastest rate, its first element, "nothing to do") is a different
        function as soon as the elements are of different kinds.  For the
        same reason the generic path gets non-unit OBJECT leaves whose
        conversion (UGenSequence._as_ugen_input) is not the identity:
        Buffer objects (stand for their buffer number) in buffer positions
        and in the probe class, Bus objects (stand for their index) in the
        probe class and in the bus position of the output classes, alone and
        mixed with numbers inside (nested) lists.
        Keys: C03/converting-constructor/<kind>/<mechanism | callee>.
  dflt  (part of gen) DEFAULTING constructors: a third population,
        discovered at run time (Harness.discover, the same probing with the
        positions whose default is None given explicitly): constructors
        that fill a position left empty (None) with a computed default - a
        unit (the chaotic generators: freq -> SampleRate * 0.5), another
        argument (Stepper resetval -> min, Gendy knum -> initcps) or a
        constant (BeatTrack2) - and hand everything, in order, to one
        generic expansion.  The class of behaviour behind it: every
        decision a constructor takes about an argument BEFORE the expansion
        (is it given? is it "nothing"?) is taken for the whole, still
        unexpanded argument; unless it is a test for the empty position
        itself (`is None`) it is a different function for a value alone and
        for the same value inside a list (truthiness: a literal 0 / 0.0
        alone is falsy, [0, 220] is not; equality with a sentinel; a type
        test).  So the defaultable positions get explicit numbers with
        literal zeros of both types over-represented, alone and inside
        (nested) lists / channel lists, next to calls that leave the
        position to its default (None given, or omitted) while other
        positions hold lists.  Unit counting: when a position is left to
        its default only the units of the called class are counted (the
        default's units are made once by the expanded call, once per
        combination by the reference calls; their structure is compared).
        Keys: C03/defaulting-constructor/<kind>/<mechanism | callee>
        (mechanism 'explicit-value-taken-for-omitted': the value alone gives
        what the default gives, [value] does not).
  op    ChannelList unary / binary operators and operator methods, both
        operand orders.  UNIT AGAINST SEQUENCE (family '<fam>-unit', keys
        C03/unit-list-binop/...): a single unit - or one output of a
        multi-output unit - on one side and a plain list or a ChannelList on
        the other.  There the operator of the UNIT expands (BinaryOpUGen
        through the generic expansion), so the full law is decided, not the
        rules of list arithmetic: a channel list at EVERY level of the
        answer, tuples are single values (the domain restriction on tuples
        concerns ChannelList arithmetic only), one unit per combination.
        The class of behaviour: the answer must not depend on the container
        the values sit in nor on the entry point, so the operand is a plain
        list, a ChannelList, a ChannelList holding nested plain lists /
        tuples, a plain list holding channel lists, and the call goes
        through the python operator in both orders, the named method of the
        unit, and the builtin function with the unit first or second
        (`ChannelList op unit` is list arithmetic and stays with the chlist
        families).  A failure that disappears when every ChannelList of the
        operand is replaced by a plain list gets '/channel-list-operand'.
  meth  ChannelList convenience methods (range, lag, linlin, madd, ...).
        Cases in which both the expanded call and the per-element calls raise
        give no verdict; a canonical plain call per method records the methods
        that raise for every argument as counters only
        (observed_unusable_method/<name>) - real bugs, but not violations of
        the wrap-and-zip law.
  fold  (25 % of the meth cases) REDUCTIONS over the channels:
        ChannelList.sum(), Mix.new / Mix.ar / Mix.kr.  The class of
        behaviour: a fold has edge cases in the NUMBER of channels (0, 1, 2,
        then Mix's groups of 3 / 4 and its recursion at 9 / 13) crossed with
        what a channel is (unit / number, plain list, ChannelList, tuple,
        nested once more) and the container they sit in (ChannelList, plain
        list, bare value for Mix); with one channel there is nothing to
        combine and the temptation is to hand the channel back.  Decided:
        value against the left fold `0 + c0 + c1 ..` through the reference
        expansion of binary `+` (Mix: groups through Sum4.new / Sum3.new),
        TYPE (a list answer is a ChannelList at the top whatever the type of
        the nested channel), unit count, and ALIASING: no list object of the
        answer at any depth is a list object of the receiver, and writing
        into every list of the answer leaves the receiver's snapshot
        unchanged.  Keys: C03/chlist-fold/<form>/<result-... | unit-count |
        raises/<site> | receiver-changed-by-writing-into-answer |
        answer-shares-list-object-with-receiver>.
  out   Out / ReplaceOut / OffsetOut / XOut / LocalOut: the decoded output
        units must be exactly the reference expansion of (fixed args +
        channel array) with literal zeros replaced by an audio-rate DC(0).

In every kind a share of the cases (out 35 %, others 15 %) builds the same
call a second time in a second SynthDef handing over the very same unit-free
argument objects (constant lists / tuples / channel lists of ints and floats,
for `out` always a nested row such as MUTE = [0, 0]); the second build is
compared with a freshly built reference exactly like the first
(keys end in /on-reused-arguments).  Argument-immutability monitor: a deep
snapshot (container kinds and lengths, numbers by type and value, units by
identity) of every argument is taken before the call and compared after the
call and after the build (C03/argument-mutated/<kind>/<what changed>): the
law describes a pure function of the arguments.
"""

import collections

from vf.common import iter_cases, case_rng, h64, split, short_tb, tb_sites
from vf import c03_model as M

LEVEL = 'exploration'
RULE = ("seeded random calls; gen: uniformly chosen qualifying (class, "
        "constructor) with 1-6 argument shapes drawn from scalar / tuple / "
        "list(1-5) / nested list (depth<=3) / ChannelList, trailing defaults "
        "omitted at random, 12 % of the calls go to the converting "
        "constructors (delay-line family .ar) with lists mixing audio-rate "
        "units, control-rate units and numbers in the converted position, "
        "Buffer / Bus objects as further leaves, 10 % go to the defaulting "
        "constructors (a None default filled in before the expansion) with "
        "explicit zeros / numbers / lists or None in the defaultable "
        "position; op/meth: ChannelList receivers (flat or nested) "
        "against scalar/list/nested operands, 24 % of the binary operator "
        "cases put a single unit / output proxy against a plain list or "
        "ChannelList (nested lists, tuples inside) through operator, "
        "reflected operator, named method and builtin function; 25 % of the "
        "meth cases are reductions (ChannelList.sum, Mix.new/ar/kr) over 0-13 "
        "channels that are units / numbers / plain lists / ChannelLists / "
        "tuples (sum only), single nested channel over-represented, value + "
        "top-level type + aliasing with the receiver; out: output classes with nested "
        "channel arrays and int/float zeros.  A case is non-trivial when the "
        "expansion has to wrap or recurse (two list arguments of different "
        "length, or a nested list, and a list of length >= 2) and both the "
        "expanded and the reference evaluation completed; distinct = hash of "
        "(callee, argument templates)")
ASSUMPTIONS = [
    "list-free ('scalar') calls of the same constructor/operator/method are the "
    "meaning of a single channel; only the expansion is decided",
    "reference expansion vf/c03_model.py:expand and Out model out_reference",
    "independent SCgf-2 parser vf/scgf.py for the bytes-level comparisons",
    "converting constructors: what the conversion of ONE value is (K2A, DC, "
    "nothing) is taken from the list-free call, like every single-channel "
    "meaning; the units the conversion creates are compared by structure, "
    "their number is not (the expanded call converts a list element once, "
    "the per-combination calls convert a wrapped element again) - only the "
    "units of the called class are counted, one per combination",
    "a pooled Buffer / Bus object stands for the buffer number / bus index "
    "it was created with (fixed by the harness)",
    "empty lists, tuples as operands of ChannelList arithmetic (sc3 documents "
    "that list arithmetic also zips tuples; NOT tuples inside the sequence "
    "operand of a single unit, where the generic expansion decides) and "
    "number receivers of named convenience methods are outside the domain",
    "defaulting constructors: what a position left to its default (None) "
    "means is taken from the list-free call; None inside a list and empty "
    "lists are outside the domain",
    "reductions: the meaning of sum is the left fold 0 + c0 + c1 .. of "
    "channel-list `+` (what sclang's and sc3's sum document); Mix groups by "
    "four / three through Sum4 / Sum3; Mix answering a one-element channel "
    "list instead of the bare unit is accepted (counted as observed_mix_"
    "answer_wrapped_in_one_element_list); tuple channels only for sum (list "
    "arithmetic zips them, Sum3/Sum4 take them whole: no single meaning in "
    "Mix); Mix.ar/kr only over units of one rate, Mix.kr control rate only "
    "(mixed rates make the whole-list rate decision ambiguous; Mix.kr "
    "rewrites audio-rate entries of its argument in place by design)",
    "methods that fail for every argument (both the expanded call and the "
    "per-element calls raise) are counted (observed_unusable_method/<name>), "
    "not judged: they cannot violate the law",
]
MIN_COUNTERS = {
    'quick': {'gen_compared': 1500, 'gen_unit_count_checks': 1500,
              'gen_bytes_trees_compared': 300, 'gen_tuple_probes': 30,
              'op_compared': 500, 'meth_compared': 250,
              'meth_compared_with_tuple_arguments': 150,
              'meth_canonical_calls': 30,
              'out_units_checked': 500, 'out_zero_inputs_checked': 100,
              'out_second_builds_with_shared_arguments': 300,
              'out_argument_snapshots_compared': 1000,
              'gen_second_builds_with_shared_arguments': 300,
              'gen_argument_snapshots_compared': 3000,
              'min_classes_qualified': 400,
              'min_converting_constructors_qualified': 15,
              'gen_converting_compared': 3000,
              'gen_converting_mixed_lists_compared': 1200,
              'gen_compared_with_objects_inside_lists': 2000,
              'out_units_checked_with_bus_objects': 3000,
              'min_defaulting_constructors_qualified': 30,
              'min_default_substituting_constructors_qualified': 28,
              'gen_defaulting_compared': 1000,
              'gen_default_substituting_compared_zero_inside_list': 300,
              'gen_defaulting_compared_position_left_to_default': 300,
              'op_unit_compared': 600,
              'op_unit_compared_channel_list_operand': 200,
              'op_unit_compared_channel_list_holding_nested_list': 100,
              'op_unit_compared_channel_list_holding_tuple': 40,
              'op_unit_compared_with_tuples': 150,
              'op_unit_route/bi': 60, 'op_unit_route/bi-r': 60,
              'op_unit_route/method': 80, 'op_unit_route/rop': 100,
              'fold_compared': 1000, 'fold/sum': 400, 'fold/Mix.new': 250,
              'fold/Mix.ar': 120, 'fold/Mix.kr': 120,
              'fold_compared_channels/0': 50, 'fold_compared_channels/1': 300,
              'fold_compared_channels/2': 200,
              'fold_compared_single_nested_channel': 200,
              'fold_compared_single_nested_channel/plain': 100,
              'fold_compared_single_nested_channel/chlist': 100,
              'fold_compared_tuple_channels': 60,
              'fold_alias_checks_list_answer': 700},
    'thorough': {'gen_compared': 100000, 'gen_unit_count_checks': 100000,
                 'gen_bytes_trees_compared': 20000, 'gen_tuple_probes': 2000,
                 'op_compared': 30000, 'meth_compared': 15000,
                 'meth_compared_with_tuple_arguments': 5000,
                 'meth_canonical_calls': 30,
                 'out_units_checked': 30000, 'out_zero_inputs_checked': 5000,
                 'out_second_builds_with_shared_arguments': 10000,
                 'out_argument_snapshots_compared': 50000,
                 'gen_second_builds_with_shared_arguments': 10000,
                 'gen_argument_snapshots_compared': 200000,
                 'min_classes_qualified': 400,
                 'min_converting_constructors_qualified': 15,
                 'gen_converting_compared': 10000,
                 'gen_converting_mixed_lists_compared': 4000,
                 'gen_compared_with_objects_inside_lists': 8000,
                 'out_units_checked_with_bus_objects': 5000,
                 'min_defaulting_constructors_qualified': 30,
                 'min_default_substituting_constructors_qualified': 28,
                 'gen_defaulting_compared': 8000,
                 'gen_default_substituting_compared_zero_inside_list': 2500,
                 'gen_defaulting_compared_position_left_to_default': 2500,
                 'op_unit_compared': 5000,
                 'op_unit_compared_channel_list_operand': 1500,
                 'op_unit_compared_channel_list_holding_nested_list': 800,
                 'op_unit_compared_channel_list_holding_tuple': 300,
                 'op_unit_compared_with_tuples': 1000,
                 'op_unit_route/bi': 500, 'op_unit_route/bi-r': 500,
                 'op_unit_route/method': 600, 'op_unit_route/rop': 800,
                 'fold_compared': 5000, 'fold/sum': 2000, 'fold/Mix.new': 1200,
                 'fold/Mix.ar': 600, 'fold/Mix.kr': 600,
                 'fold_compared_channels/0': 250,
                 'fold_compared_channels/1': 1500,
                 'fold_compared_channels/2': 1000,
                 'fold_compared_single_nested_channel': 1000,
                 'fold_compared_single_nested_channel/plain': 500,
                 'fold_compared_single_nested_channel/chlist': 500,
                 'fold_compared_tuple_channels': 300,
                 'fold_alias_checks_list_answer': 3500},
}


def plan(tier, seed):
    if tier == 'quick':
        sizes = {'gen': (90000, 8), 'op': (30000, 3), 'meth': (20000, 2),
                 'out': (30000, 3)}
        secs = 32
    else:
        sizes = {'gen': (5000000, 9), 'op': (1500000, 3), 'meth': (800000, 2),
                 'out': (1200000, 2)}
        secs = 540
    shards = []
    for kind, (total, parts) in sizes.items():
        for p, (f, n) in enumerate(split(total, parts)):
            shards.append({'name': f'{kind}{p}', 'mode': 'nrt', 'kind': kind,
                           'first_case': f, 'n': n, 'secs': secs,
                           'hard_timeout': secs + 150})
    return shards


def coverage_extra(counters, tier):
    cl = sorted(k[4:] for k in counters if k.startswith('cls/'))
    ops = sorted(k[3:] for k in counters if k.startswith('op/'))
    me = sorted(k[5:] for k in counters if k.startswith('meth/'))
    cv = sorted(k[11:] for k in counters if k.startswith('converting/'))
    df = sorted(k[11:] for k in counters if k.startswith('defaulting/'))
    return {'constructors_covered': len(cl), 'constructor_list': cl,
            'converting_constructors': cv, 'defaulting_constructors': df,
            'operators_covered': ops, 'methods_covered': me}


# ---------------------------------------------------------------------------

RATE_OF_SEL = {'ar': 'audio', 'kr': 'control', 'ir': 'scalar', 'dr': 'demand'}


class Harness:
    def __init__(self, acc):
        from sc3.synth import ugen as ugn
        from sc3.synth.synthdef import SynthDef
        from sc3.synth.ugens import installed_ugens
        from sc3.synth.ugens import oscillators as ocl, line as lne, \
            inout as iou, pan as panm
        from sc3.base.main import main
        from sc3.base import builtins as bi
        self.acc = acc
        self.ugn, self.SynthDef, self.main, self.bi = ugn, SynthDef, main, bi
        self.installed = installed_ugens
        self.ocl, self.lne, self.iou, self.panm = ocl, lne, iou, panm
        self.ChannelList = ugn.ChannelList
        self.tag = 10000
        self.created = collections.Counter()
        self.counting = False
        self._install_creation_counter()
        self._define_probe_class()
        self._obj_pool = {}
        M.OBJ_MAKER[0] = self.make_obj

    # -- instrumentation (boundary wrappers, looked up dynamically) ---------
    def _install_creation_counter(self):
        ugn = self.ugn
        orig = ugn.SynthObject.__dict__['_create_ugen_object'].__func__
        H = self

        def _create_ugen_object(cls, rate):
            if H.counting:
                H.created[cls.__name__] += 1
            return orig(cls, rate)
        ugn.SynthObject._create_ugen_object = classmethod(_create_ugen_object)

    def _define_probe_class(self):
        ugn = self.ugn

        class VfProbe(ugn.UGen):
            """Harness-defined unit that delegates directly to the generic
            expansion; a mismatch here is a defect of the generic code."""
            @classmethod
            def ar(cls, a=0.5, b=1.5, c=2.5, d=3.5, e=4.5, f=5.5):
                return cls._multi_new('audio', a, b, c, d, e, f)

            @classmethod
            def kr(cls, a=0.5, b=1.5, c=2.5, d=3.5, e=4.5, f=5.5):
                return cls._multi_new('control', a, b, c, d, e, f)
        self.VfProbe = VfProbe

        class VfProbeN(ugn.UGen):
            """any arity; used to decide whether a mismatch found for a
            library class is reproduced by the generic expansion alone."""
            @classmethod
            def ar(cls, *args):
                return cls._multi_new('audio', *args)

            @classmethod
            def kr(cls, *args):
                return cls._multi_new('control', *args)
        self.VfProbeN = VfProbeN

    def count_created(self, fn):
        """run fn() counting created unit objects by class."""
        saved, was = self.created, self.counting
        self.created, self.counting = collections.Counter(), True
        try:
            return fn(), None, self.created
        except Exception as e:      # library exception: decided by caller
            return None, e, self.created
        finally:
            self.created, self.counting = saved, was

    # -- leaves ---------------------------------------------------------
    def make_ugen(self, rate):
        self.tag += 1
        if rate == 'audio':
            return self.ocl.SinOsc.ar(self.tag)
        if rate == 'control':
            return self.ocl.LFSaw.kr(self.tag)
        if rate == 'stereo':
            return self.panm.Pan2.ar(self.ocl.SinOsc.ar(self.tag))
        if rate == 'proxy':
            # one output of a multi-output unit (an OutputProxy)
            return self.panm.Pan2.ar(self.ocl.SinOsc.ar(self.tag))[1]
        raise ValueError(rate)

    # long-lived non-unit values that stand for a number as a unit input;
    # the number is fixed HERE (explicit buffer number / bus index), so the
    # oracle knows it without asking the object
    OBJ_NUMBER = {'buffer': lambda n: 700 + n, 'bus': lambda n: 40 + 2 * n}

    def make_obj(self, kind, n):
        o = self._obj_pool.get((kind, n))
        if o is None:
            num = self.OBJ_NUMBER[kind](n)
            if kind == 'buffer':
                from sc3.synth.buffer import Buffer
                o = Buffer(frames=1024, channels=1, bufnum=num, alloc=False)
            else:
                from sc3.synth.bus import AudioBus, ControlBus
                o = (AudioBus, ControlBus)[n % 2](2, index=num)
            self._obj_pool[(kind, n)] = o
            self._obj_pool[id(o)] = num
        return o

    def obj_number(self, x):
        """the number a pooled object stands for (None: not a pooled
        object)."""
        return self._obj_pool.get(id(x))

    def inst(self, t):
        return M.instantiate(t, self.make_ugen, self.ChannelList)

    def inst_pair(self, t, share, path):
        """(value handed to the library, equal fresh value for the
        reference); unit-free sub-structures are shared between builds when
        `share` is a dict."""
        return M.instantiate_pair(t, self.make_ugen, self.ChannelList,
                                  share, path)

    def snap(self, args):
        ugn = self.ugn
        return [M.snapshot(a, lambda x: isinstance(x, ugn.SynthObject))
                for a in args]

    @staticmethod
    def snap_diff(before, after):
        for a, b in zip(before, after):
            d = M.snapshot_diff(a, b)
            if d:
                return d
        return None

    def build(self, body, name='c03'):
        """-> (synthdef | None, exception | None)."""
        try:
            return self.SynthDef(name, body), None
        except Exception as e:
            return None, e
        finally:
            self.main._current_synthdef = None

    # -- structural signature ------------------------------------------
    def signer(self):
        ugn = self.ugn
        intern, memo, keep = {}, {}, []
        CL = self.ChannelList

        def s(x):
            if isinstance(x, bool):
                key = ('b', x)
            elif isinstance(x, (int, float)):
                key = ('n', float(x)) if x == x else ('nan',)
            elif isinstance(x, complex):
                key = ('c', x)
            elif x is None:
                key = ('N',)
            elif isinstance(x, str):
                key = ('s', x)
            elif isinstance(x, tuple):
                key = ('T',) + tuple(s(i) for i in x)
            elif isinstance(x, list):
                key = ('L', isinstance(x, CL)) + tuple(s(i) for i in x)
            elif isinstance(x, ugn.SynthObject):
                k = memo.get(id(x))
                if k is not None:
                    return k
                keep.append(x)
                if isinstance(x, ugn.OutputProxy):
                    key = ('P', s(x.source_ugen), x._output_index, x.rate)
                else:
                    key = ('U', type(x).__name__, x.rate, x._special_index,
                           len(x._channels) if x._channels else 0,
                           tuple(s(i) for i in (x.inputs or ())))
                r = intern.setdefault(key, len(intern))
                memo[id(x)] = r
                return r
            else:
                key = ('O', type(x).__name__)
            return intern.setdefault(key, len(intern))
        return s

    def diff_kind(self, E, R, s, strict_inner=True, top=True):
        """None when equal, else the kind of mismatch (R = reference).
        strict_inner=False: below the top level any list type is accepted
        (list arithmetic keeps the container type of nested operands)."""
        if isinstance(R, list):
            if not isinstance(E, list):
                return 'not-expanded'
            if isinstance(R, self.ChannelList) and (top or strict_inner) and \
                    not isinstance(E, self.ChannelList):
                return 'not-channel-list'
            if len(E) != len(R):
                return 'length'
            for e, r in zip(E, R):
                k = self.diff_kind(e, r, s, strict_inner, False)
                if k:
                    return k
            return None
        if isinstance(E, list):
            return 'over-expanded'
        if strict_inner:
            return None if s(E) == s(R) else 'element'
        return None if self._loose(s, E) == self._loose(s, R) else 'element'

    def _loose(self, s, x):
        # signature that ignores the container type of lists
        if isinstance(x, list):
            return ('L',) + tuple(self._loose(s, i) for i in x)
        return s(x)

    # -- discovery of the constructor population -----------------------
    def discover(self):
        """(class, selector) pairs whose constructor hands its arguments
        unchanged, in order, to exactly one top-level cls._multi_new.
        Probed with scalars and, one position at a time, a two-element list,
        using numbers and (ar/kr/new) unit generators.  'returns' tells
        whether the constructor returns that call's value itself (otherwise
        only unit creation is decided for it, e.g. FreeSelf returns its
        input).

        Side result self.dpop, the DEFAULTING constructors: pairs with at
        least one parameter whose default is None that qualify in the same
        way when these positions ('opt') are given explicitly (a number, a
        two-element list, a unit) and that, with such a position left to its
        default - alone and next to a list in any other position - still
        hand every OTHER argument unchanged to the one expansion and return
        its value ('substitutes': the positions where something else than
        None is handed on then).  Probing uses non-zero numbers only; the
        monitor decides zeros, lists holding zeros, nesting, wrapping."""
        import inspect
        ugn = self.ugn
        orig = ugn.SynthObject.__dict__['_multi_new'].__func__
        calls, depth = [], [0]

        def _multi_new(cls, *args):
            top = depth[0] == 0
            depth[0] += 1
            try:
                ret = orig(cls, *args)
            finally:
                depth[0] -= 1
            if top:
                calls.append((cls, args, ret))
            return ret
        ugn.SynthObject._multi_new = classmethod(_multi_new)
        pop = []
        self.dpop = []
        try:
            for name, cls in sorted(self.installed.items()):
                for sel in ('ar', 'kr', 'ir', 'dr', 'new'):
                    meth = getattr(cls, sel, None)
                    if meth is None:
                        continue
                    try:
                        sig = inspect.signature(meth)
                    except (TypeError, ValueError):
                        continue
                    ps = list(sig.parameters.values())
                    if any(p.kind != p.POSITIONAL_OR_KEYWORD for p in ps):
                        continue
                    params = []
                    for p in ps:
                        d = p.default
                        if d is p.empty:
                            ch = 'chan' in p.name
                            params.append((p.name, 'chan' if ch else 'req', None))
                        elif isinstance(d, (int, float)) and \
                                not isinstance(d, bool):
                            params.append((p.name, 'num', d))
                        else:
                            params.append((p.name, 'fixed', d))
                    if params and not any(k != 'fixed' for _, k, _ in params):
                        continue
                    for reqleaf in (('ugen', 'num') if sel in ('ar', 'kr', 'new')
                                    else ('num',)):
                        q = self._qualifies(cls, sel, meth, params, reqleaf,
                                            calls, depth)
                        if q:
                            pop.append({'cls': cls, 'name': name, 'sel': sel,
                                        'meth': meth, 'params': params,
                                        'reqleaf': reqleaf,
                                        'returns': q['returns'],
                                        'ugen_ok': q['ugen_ok']})
                            break
                    # DEFAULTING constructors: the same probing with the
                    # positions whose default is None given explicitly
                    if not any(d is None for _, k, d in params
                               if k == 'fixed'):
                        continue
                    dparams = [(n, 'opt', None) if k == 'fixed' and d is None
                               else (n, k, d) for n, k, d in params]
                    for reqleaf in (('ugen', 'num') if sel in ('ar', 'kr', 'new')
                                    else ('num',)):
                        q = self._qualifies(cls, sel, meth, dparams, reqleaf,
                                            calls, depth)
                        if q and q['returns']:
                            self.dpop.append({
                                'cls': cls, 'name': name, 'sel': sel,
                                'meth': meth, 'params': dparams,
                                'reqleaf': reqleaf, 'returns': True,
                                'ugen_ok': q['ugen_ok'],
                                'opts': {k for k, p in enumerate(dparams)
                                         if p[1] == 'opt'},
                                'substitutes': q['substitutes']})
                            break
        finally:
            ugn.SynthObject._multi_new = classmethod(orig)
        return pop

    def _probe_value(self, sel, kind, default, reqleaf, k):
        if kind == 'num':
            return default
        if kind == 'chan':
            return 1
        if kind == 'fixed':
            return default
        if kind == 'opt':
            # a position whose default is None, given explicitly
            return 0.25 + k
        if reqleaf == 'ugen':
            return self.make_ugen('control' if sel == 'kr' else 'audio')
        return 0.25 + k

    def _qualifies(self, cls, sel, meth, params, reqleaf, calls, depth):
        res = {'ok': None, 'returns': True, 'ugen_ok': set(),
               'substitutes': set()}

        def same(x, y):
            if isinstance(x, list) and isinstance(y, list):
                return len(x) == len(y) and all(same(a, b) for a, b in zip(x, y))
            return x is y or (type(x) is type(y) and not isinstance(x, list)
                              and isinstance(x, (int, float, str, tuple))
                              and x == y)

        def one(args, free=None):
            """'ok' | 'raise' | 'no'.  free: a position (given as None, i.e.
            left to its default) whose handed value is not compared."""
            del calls[:]
            depth[0] = 0
            try:
                ret = meth(*args)
            except Exception:
                return 'raise'
            mine = [(a, r) for c, a, r in calls if c is cls]
            if len(mine) != 1 or len(mine[0][0]) != len(args) + 1:
                return 'no'
            a, r = mine[0]
            if sel in RATE_OF_SEL and a[0] != RATE_OF_SEL[sel]:
                return 'no'
            if not all(same(x, y) for k, (x, y) in enumerate(zip(a[1:], args))
                       if k != free):
                return 'no'
            if free is not None and a[1 + free] is not None:
                res['substitutes'].add(free)
            if ret is not r:
                res['returns'] = False
            return 'ok'

        def base():
            return [self._probe_value(sel, k, d, reqleaf, i)
                    for i, (_, k, d) in enumerate(params)]

        def body():
            res['ok'] = False
            for j in range(-1, len(params)):
                if j >= 0 and params[j][1] == 'fixed':
                    continue
                args = base()
                if j >= 0:
                    args[j] = [args[j], self._probe_value(
                        sel, params[j][1], params[j][2], reqleaf, j)]
                if one(args) != 'ok':
                    return
            # positions whose default is None: left to the default (alone
            # and next to a list in another position) the constructor still
            # delegates every OTHER argument unchanged to the one expansion
            for j in range(len(params)):
                if params[j][1] != 'opt':
                    continue
                for jj in [-1] + [x for x in range(len(params)) if x != j
                                  and params[x][1] in ('num', 'req', 'opt')]:
                    args = base()
                    args[j] = None
                    if jj >= 0:
                        args[jj] = [args[jj], self._probe_value(
                            sel, params[jj][1], params[jj][2], reqleaf, jj)]
                    if one(args, free=j) != 'ok':
                        return
            if sel in ('ar', 'kr', 'new'):
                rate = 'control' if sel == 'kr' else 'audio'
                for j in range(len(params)):
                    if params[j][1] not in ('num', 'opt'):
                        continue
                    verdicts = []
                    for lst in (False, True):
                        args = base()
                        args[j] = [self.make_ugen(rate), self.make_ugen(rate)] \
                            if lst else self.make_ugen(rate)
                        verdicts.append(one(args))
                    if 'no' in verdicts:
                        return
                    if verdicts == ['ok', 'ok']:
                        res['ugen_ok'].add(j)
            res['ok'] = True
        self.build(body, 'probe')
        return res if res['ok'] else None

    # -- discovery of the CONVERTING constructor population ------------------
    def discover_converting(self, main_pop):
        """(class, selector) pairs whose constructor runs some of its
        arguments through a per-value conversion (e.g. the audio-rate
        conversion of the delay-line family: K2A for a control-rate unit, DC
        for a number) and then hands ALL arguments, in order, to exactly one
        top-level cls._multi_new and returns its value.  Decided by probing,
        inside one build, with list-free arguments and, one position at a
        time, HOMOGENEOUS two-element lists:

          * list-free probes: every handed argument is the argument object
            itself or a unit created during the call (the conversion of that
            value); what is handed at position k depends on argument k only
            (a constructor that looks at one argument to decide about another
            one does not delegate position-wise and stays outside);
          * list probes [x, y] with x, y of one kind (two audio-rate units,
            two control-rate units, two numbers): the handed value is a
            two-element list whose elements are, structurally, what the
            list-free probes handed for x and for y;
          * at least one (position, kind) is really converted (otherwise the
            pair belongs to the direct population or to none).

        Lists that MIX kinds, nested lists, channel lists, wrapping against
        other lists are NOT part of the qualification: they are what the
        monitor then decides with the reference expansion."""
        import inspect
        ugn = self.ugn
        orig = ugn.SynthObject.__dict__['_multi_new'].__func__
        calls, depth = [], [0]

        def _multi_new(cls, *args):
            top = depth[0] == 0
            depth[0] += 1
            try:
                ret = orig(cls, *args)
            finally:
                depth[0] -= 1
            if top:
                calls.append((cls, args, ret))
            return ret
        have = {(e['name'], e['sel']) for e in main_pop}
        ugn.SynthObject._multi_new = classmethod(_multi_new)
        pop = []
        try:
            for name, cls in sorted(self.installed.items()):
                for sel in ('ar', 'kr', 'new'):
                    meth = getattr(cls, sel, None)
                    if meth is None or (name, sel) in have:
                        continue
                    try:
                        sig = inspect.signature(meth)
                    except (TypeError, ValueError):
                        continue
                    ps = list(sig.parameters.values())
                    if not ps or \
                            any(p.kind != p.POSITIONAL_OR_KEYWORD for p in ps):
                        continue
                    params = []
                    for p in ps:
                        d = p.default
                        if d is p.empty:
                            ch = 'chan' in p.name
                            params.append((p.name, 'chan' if ch else 'req', None))
                        elif isinstance(d, (int, float)) and \
                                not isinstance(d, bool):
                            params.append((p.name, 'num', d))
                        else:
                            params.append((p.name, 'fixed', d))
                    q = self._qualifies_converting(cls, sel, meth, params,
                                                   calls, depth)
                    if q:
                        pop.append({'cls': cls, 'name': name, 'sel': sel,
                                    'meth': meth, 'params': params,
                                    'reqleaf': 'ugen', 'returns': True,
                                    'ugen_ok': q['ugen_ok'],
                                    'converts': q['converts']})
        finally:
            ugn.SynthObject._multi_new = classmethod(orig)
        return pop

    def _qualifies_converting(self, cls, sel, meth, params, calls, depth):
        ugn = self.ugn
        res = {'ok': False, 'ugen_ok': set(), 'converts': {}}
        urates = ('control',) if sel == 'kr' else ('audio', 'control')

        def one(args):
            """handed argument list | 'raise' | None (does not delegate)"""
            del calls[:]
            depth[0] = 0
            try:
                ret = meth(*args)
            except Exception:
                return 'raise'
            mine = [(a, r) for c, a, r in calls if c is cls]
            if len(mine) != 1 or len(mine[0][0]) != len(args) + 1:
                return None
            a, r = mine[0]
            if sel in RATE_OF_SEL and a[0] != RATE_OF_SEL[sel]:
                return None
            if ret is not r:
                return None
            return list(a[1:])

        def body():
            s = self.signer()
            base = [self._probe_value(sel, k, d, 'ugen', i)
                    for i, (_, k, d) in enumerate(params)]

            def handed_ok(arg, h, given):
                # the argument itself, or a unit made during the call
                if h is arg or (type(h) is type(arg) and isinstance(
                        arg, (int, float, str, tuple)) and h == arg):
                    return 'same'
                if isinstance(h, ugn.SynthObject) and \
                        not any(h is g for g in given):
                    return 'converted'
                return None

            hb = one(base)
            if hb is None or hb == 'raise':
                return
            if any(handed_ok(a, h, base) is None for a, h in zip(base, hb)):
                return
            sb = [s(h) for h in hb]
            for j, (_, kind, default) in enumerate(params):
                if kind in ('fixed', 'chan'):
                    continue
                cands = {}
                for r in urates:
                    cands[r] = [self.make_ugen(r), self.make_ugen(r)]
                cands['number'] = [0, 0.25 + j] if isinstance(default, int) \
                    and default is not None else [0.0, 0.25 + j]
                conv = {}
                for ck, leaves in cands.items():
                    usable = True
                    for x in leaves:
                        args = list(base)
                        args[j] = x
                        h = one(args)
                        if h is None:
                            return
                        if h == 'raise':
                            usable = False
                            break
                        for k in range(len(params)):
                            if k != j and s(h[k]) != sb[k]:
                                return          # position-wise it is not
                        how = handed_ok(x, h[j], args)
                        if how is None:
                            return
                        conv[id(x)] = (s(h[j]), how)
                    if not usable:
                        continue
                    # homogeneous list probe
                    args = list(base)
                    args[j] = list(leaves)
                    h = one(args)
                    if h is None or h == 'raise':
                        return
                    hj = h[j]
                    if not isinstance(hj, list) or len(hj) != 2:
                        return
                    for x, e in zip(leaves, hj):
                        if s(e) != conv[id(x)][0]:
                            # delegates position-wise, but this list is not
                            # converted per element: stays IN the population,
                            # the monitor decides (never a silent drop-out)
                            res['list_probe_deviates'] = True
                    for k in range(len(params)):
                        if k != j and s(h[k]) != sb[k]:
                            return
                    if ck != 'number':
                        res['ugen_ok'].add(j)
                    if any(conv[id(x)][1] == 'converted' for x in leaves):
                        res['converts'].setdefault(j, []).append(ck)
            res['ok'] = bool(res['converts'])
        self.build(body, 'probe')
        return res if res['ok'] else None


def copy_lists(x):
    if isinstance(x, list):
        return type(x)(copy_lists(i) for i in x)
    return x


def flat_leaves(x, out):
    if isinstance(x, list):
        for i in x:
            flat_leaves(i, out)
    else:
        out.append(x)
    return out


def first_combination(args):
    """one list-free combination (element 0 all the way down)."""
    out = []
    for a in args:
        while isinstance(a, list):
            a = a[0]
        out.append(a)
    return out


def list_shape(x):
    if isinstance(x, list):
        return ('L', tuple(list_shape(i) for i in x))
    return '.'


def mixed_rate_list(a):
    """a list (at any depth) that holds an audio-rate unit next to an element
    that is not audio rate (control-rate unit, number): the argument shape
    for which a per-element conversion and a decision about the list as a
    whole differ."""
    if not isinstance(a, list):
        return False
    au = [getattr(x, 'rate', None) == 'audio' for x in a
          if not isinstance(x, (list, tuple))]
    if any(au) and not all(au):
        return True
    return any(mixed_rate_list(x) for x in a)


def object_in_list(t):
    return t[0] == 'list' and any(
        x[0] == 'obj' or object_in_list(x) for x in t[1])


def converting_mechanism(H, E, R, s):
    """why the first differing channel of a converting constructor differs:
    'list-element-not-converted' when a unit of the expanded call reads an
    unconverted value (number / slower unit) where the same call on that
    element reads an audio-rate unit; else None."""
    UG = H.ugn.UGen
    for e, r in zip(flat_leaves(E, []), flat_leaves(R, [])):
        if s(e) == s(r):
            continue
        e = getattr(e, 'source_ugen', e)
        r = getattr(r, 'source_ugen', r)
        if not (isinstance(e, UG) and isinstance(r, UG)) or \
                type(e) is not type(r) or len(e.inputs) != len(r.inputs):
            return None
        return _unconverted(s, e.inputs, r.inputs)
    return None


def _unconverted(s, xs, ys):
    for x, y in zip(xs, ys):
        if s(x) == s(y):
            continue
        if isinstance(x, tuple) and isinstance(y, tuple) and len(x) == len(y):
            # an array-valued (tuple) element: look at its members
            return _unconverted(s, x, y)
        if getattr(y, 'rate', None) == 'audio' and \
                getattr(x, 'rate', None) != 'audio':
            return 'list-element-not-converted'
        if getattr(x, 'rate', None) == 'audio' and \
                getattr(y, 'rate', None) != 'audio':
            return 'list-element-converted-but-single-value-not'
        return None
    return None


def zero_in_list(t):
    """a literal zero (int or float) inside a list of the template."""
    return t[0] == 'list' and any(
        (x[0] == 'num' and not isinstance(x[1], bool) and x[1] == 0)
        or zero_in_list(x) for x in t[1])


def defaulting_mechanism(meth, args, opts, s):
    """names WHY a defaulting constructor differs (key text only, the verdict
    is the differential comparison): for an explicit number v of a
    defaultable position, within one list-free combination of the other
    arguments, the call with v alone, with [v] and with the position left to
    its default are compared.  'explicit-value-taken-for-omitted': v alone
    gives what the default gives although [v] gives something else;
    'value-treated-differently-alone-and-inside-a-list' otherwise."""
    combo = first_combination(args)
    for j in sorted(opts):
        if j >= len(args) or args[j] is None:
            continue
        seen = set()
        for v in flat_leaves(args[j], []):
            if isinstance(v, bool) or not isinstance(v, (int, float)) or \
                    (type(v), v) in seen:
                continue
            seen.add((type(v), v))

            def call(x):
                a = list(combo)
                a[j] = x
                return meth(*a)
            try:
                A, L, B = call(v), call([v]), call(None)
            except Exception:
                continue
            if isinstance(L, list) and len(L) == 1 and s(L[0]) != s(A):
                if s(A) == s(B):
                    return 'explicit-value-taken-for-omitted'
                return 'value-treated-differently-alone-and-inside-a-list'
    return None


def exc_site(e):
    sites = tb_sites(e)
    return f'{type(e).__name__}@{sites[-1][0]}:{sites[-1][1]}' if sites \
        else type(e).__name__


# decoded-side structural signature -----------------------------------------

def dsigner(d):
    memo = {}

    def unit(ui):
        if ui not in memo:
            u = d.units[ui]
            memo[ui] = (u.cls, u.rate, u.special, len(u.out_rates),
                        tuple(wire(w) for w in u.inputs))
        return memo[ui]

    def wire(w):
        if w[0] == 'c':
            return ('c', d.constants[w[1]] + 0.0)
        return ('u', unit(w[1]), w[2])
    return unit, wire


# ---------------------------------------------------------------------------
# gen

BUFFER_PARAMS = {'buf', 'bufnum', 'buffer', 'buffer_a', 'buffer_b'}


def num_for(kind, default, name='', probe=False):
    # object leaves: a Buffer where a buffer number is expected (any class),
    # a Buffer / Bus in the positions of the harness-defined probe class
    p_buf = 0.3 if name in BUFFER_PARAMS else 0.04 if probe else 0.0
    p_bus = 0.03 if probe else 0.0

    def f(rng):
        if p_buf or p_bus:
            r = rng.random()
            if r < p_buf:
                return ('obj', 'buffer', rng.randrange(4))
            if r < p_buf + p_bus:
                return ('obj', 'bus', rng.randrange(4))
        if kind == 'chan':
            return rng.choice([1, 1, 2, 3])
        if kind == 'opt':
            # an explicit value where the default is None: literal zeros of
            # both types are legal values and the ones a truthiness test
            # confuses with "nothing given"
            return rng.choice([0, 0.0, 0, 0.0, 0.25, 0.5, 1, 2.0, 3, 55.0,
                               220.0, 440.0])
        if kind == 'num':
            if isinstance(default, int):
                return rng.choice([default, default, default + 1, 1, 2, 0, 3])
            return rng.choice([default, default, default * 0.5, default + 0.25,
                               default + 1.0, 0.5, 2.0, 0.0])
        return rng.choice(M.F32_NUMS)
    return f


def gen_call_templates(rng, ent):
    params = ent['params']
    nreq = 0
    for k, (_, kind, _) in enumerate(params):
        if kind in ('req', 'chan'):
            nreq = k + 1
    n_given = rng.randint(nreq, len(params)) if rng.random() < 0.6 \
        else len(params)
    converts = ent.get('converts') or {}
    if converts and rng.random() < 0.9:
        n_given = max(n_given, max(converts) + 1)
    sel = ent['sel']
    rates = {'ar': ('audio', 'audio', 'control'), 'kr': ('control',),
             'new': ('audio', 'control')}.get(sel, ())
    templates = []
    # make sure at least one list is present in most calls
    variable = [k for k in range(n_given) if params[k][1] != 'fixed']
    # tuple mode: tuples in every position, alone and inside / next to lists
    tuple_mode = rng.random() < 0.1
    must_list = rng.choice(variable) if variable and rng.random() < 0.9 else None
    if converts and rng.random() < 0.6:
        # converting constructor: mostly a list in a converted position
        given = [k for k in converts if k < n_given]
        if given:
            must_list = rng.choice(given)
    opts = ent.get('opts') or ()
    if opts and rng.random() < 0.5:
        # defaulting constructor: often a list in a defaultable position
        given = [k for k in opts if k < n_given]
        if given:
            must_list = rng.choice(given)
    for k in range(n_given):
        pname, kind, default = params[k]
        if kind == 'fixed':
            templates.append(('fixed', default))
            continue
        if kind == 'opt' and k != must_list and rng.random() < 0.3:
            # left to its default (None given explicitly; trailing positions
            # are also omitted through n_given)
            templates.append(('fixed', None))
            continue
        p_ugen = 0.0 if not rates else (
            0.6 if k in converts else
            0.55 if kind == 'req' and ent['reqleaf'] == 'ugen' else
            0.12 if kind in ('num', 'opt') and k in ent['ugen_ok'] else 0.0)
        p_tuple = 0.0 if kind == 'chan' else (0.5 if tuple_mode else 0.04)
        force = None
        if k == must_list:
            force = rng.choices(['list', 'nested', 'chlist'], [60, 30, 10])[0]
        templates.append(M.gen_template(
            rng, num_for(kind, default, pname, ent['name'] == 'VfProbe'),
            p_ugen, p_tuple,
            rates or ('audio',), force=force))
    return templates


def run_gen(spec, acc, H):
    pop = H.discover()
    acc.counters['min_classes_qualified'] = len(pop)
    probe_params = [(c, 'num', d) for c, d in
                    zip('abcdef', (0.5, 1.5, 2.5, 3.5, 4.5, 5.5))]
    probes = [{'cls': H.VfProbe, 'name': 'VfProbe', 'sel': s,
               'meth': getattr(H.VfProbe, s), 'params': probe_params,
               'reqleaf': 'ugen', 'returns': True,
               'ugen_ok': set(range(6))} for s in ('ar', 'kr')]
    if not pop:
        acc.mark_inconclusive('no qualifying constructor discovered')
        return
    cpop = H.discover_converting(pop)
    acc.counters['min_converting_constructors_qualified'] = len(cpop)
    for e in cpop:
        acc.counters['converting/' + e['name'] + '.' + e['sel']] = 1
    dpop = H.dpop
    acc.counters['min_defaulting_constructors_qualified'] = len(dpop)
    acc.counters['min_default_substituting_constructors_qualified'] = len(
        [e for e in dpop if e['substitutes']])
    for e in dpop:
        acc.counters['defaulting/' + e['name'] + '.' + e['sel']] = 1
    for i in iter_cases(spec):
        rng = case_rng(spec['seed'], 'C03', 'gen', i)
        r = rng.random()
        ent = rng.choice(probes) if r < 0.06 else \
            rng.choice(cpop) if r < 0.18 and cpop else \
            rng.choice(dpop) if r < 0.28 and dpop else rng.choice(pop)
        templates = gen_call_templates(rng, ent)
        gen_case(acc, H, i, ent, templates, probes,
                 reuse=rng.random() < 0.15)


def tdesc(templates):
    return [repr(t) for t in templates]


def gen_case(acc, H, i, ent, templates, probes, classify=True, reuse=False):
    """returns mismatch kind or None.  reuse: the call is built a second
    time, in a second SynthDef, with the very same unit-free argument objects
    (shared constant lists / tuples / channel lists)."""
    share = {} if reuse else None
    kind = gen_build(acc, H, i, ent, templates, probes, classify, share, 1)
    if kind is None and reuse:
        acc.count('gen_second_builds_with_shared_arguments')
        kind = gen_build(acc, H, i, ent, templates, probes, classify, share, 2)
    return kind


def gen_build(acc, H, i, ent, templates, probes, classify, share, build_no):
    callee = f"{ent['name']}.{ent['sel']}"
    meth = ent['meth']
    st = {}
    has_tuple = any(M.template_has(t, 'tup') for t in templates)

    def body():
        pairs = [(t[1], t[1]) if t[0] == 'fixed' else H.inst_pair(t, share, (k,))
                 for k, t in enumerate(templates)]
        args = [p[0] for p in pairs]
        argsR = [p[1] for p in pairs]
        s = H.signer()
        st['args'] = args
        st['snap0'] = H.snap(args)
        E, Eexc, cE = H.count_created(lambda: meth(*args))
        st['mutated'] = H.snap_diff(st['snap0'], H.snap(args))
        stats = {}
        R, Rexc, cR = H.count_created(lambda: M.expand(
            argsR, lambda a: meth(*a), H.ChannelList, stats))
        st.update(E=E, Eexc=Eexc, R=R, Rexc=Rexc, stats=stats, cE=cE, cR=cR)
        if Eexc is not None or Rexc is not None:
            return
        st['diff'] = H.diff_kind(E, R, s) if ent['returns'] else None
        opts = ent.get('opts') or ()
        st['defaulted'] = any(k >= len(args) or args[k] is None
                              for k in opts)
        if ent.get('converts'):
            # one unit of the class per combination; the units made by the
            # per-value conversion are made once per list element by the
            # expanded call and once per combination by the reference calls
            # (a wrapped element is converted again), so only their
            # structure is compared (signature), not their number
            own = ent['cls'].__name__
            st['count_ok'] = cE[own] == cR[own]
            st['mixed'] = any(mixed_rate_list(a) for k, a in enumerate(args)
                              if k in ent['converts'])
            if st['diff'] == 'element':
                st['conv_mech'] = converting_mechanism(H, E, R, s)
        elif st['defaulted']:
            # the units of a substituted default are made once by the
            # expanded call and once per combination by the reference calls:
            # compared by structure, counted are the units of the class
            own = ent['cls'].__name__
            st['count_ok'] = cE[own] == cR[own]
        else:
            st['count_ok'] = cE == cR
        if opts and (st['diff'] or not st['count_ok']):
            st['dflt_mech'] = defaulting_mechanism(meth, args, opts, s)
        if st['diff'] or not st['count_ok']:
            st['Erepr'], st['Rrepr'] = repr(E)[:600], repr(R)[:600]
            return
        if has_tuple and ent['returns']:
            leaf = first_combination(args)
            r1, x1, c1 = H.count_created(lambda: meth(*leaf))
            leaf2 = [0.5 if isinstance(a, tuple) else a for a in leaf]
            r2, x2, c2 = H.count_created(lambda: meth(*leaf2))
            if x1 is None and x2 is None:
                # a tuple must behave like a scalar: same result nesting
                st['tuple_probe'] = list_shape(r1) == list_shape(r2)
                st['tuple_repr'] = (repr(leaf)[:300], repr(r1)[:300],
                                    repr(r2)[:300])
        if not ent['returns']:
            return
        # tagged sinks for the bytes-level comparison
        Out = H.iou.Out
        for side, res, base in (('E', E, 90001), ('R', R, 90003)):
            leaves = [x for x in flat_leaves(res, [])
                      if isinstance(x, H.ugn.UGen)]
            au = [x for x in leaves if x.rate == 'audio']
            ct = [x for x in leaves if x.rate != 'audio']
            if au:
                Out.ar(base, au)
            if ct:
                Out.kr(base + 1, ct)
            st['sunk' + side] = (len(au), len(ct))

    sd, bexc = H.build(body)
    acc.count('gen_cases')
    nontriv = False
    if 'E' not in st:
        # argument instantiation itself failed - harness problem, not a verdict
        acc.count('gen_body_not_reached')
        if build_no == 1:
            acc.case(h64((callee, tdesc(templates))), nontrivial=False)
        return None
    kind = None
    wit = {'case': i, 'callee': callee, 'templates': tdesc(templates),
           'build': build_no}
    acc.count('gen_argument_snapshots_compared', 2)
    mut = st['mutated'] or H.snap_diff(st['snap0'], H.snap(st['args']))
    if mut:
        wit['mutated_when'] = 'call' if st['mutated'] else 'build'
        wit['arguments_after'] = repr(st['args'])[:500]
        acc.violation(f'C03/argument-mutated/constructor/{mut}', wit)
        if build_no == 1:
            acc.case(h64((callee, tdesc(templates))), nontrivial=True)
        return 'argument-mutated'
    if st['Eexc'] is not None and st['Rexc'] is not None:
        acc.count('gen_discard_both_raise')
    elif st['Rexc'] is not None:
        # a single-channel call of this combination is itself invalid
        acc.count('gen_discard_scalar_call_raises')
    elif st['Eexc'] is not None:
        kind = 'expanded-raises/' + exc_site(st['Eexc'])
        wit['exception'] = short_tb(st['Eexc'])
    else:
        acc.count('gen_compared' if ent['returns'] else 'gen_count_only')
        acc.count('cls/' + callee)
        if ent.get('converts'):
            acc.count('gen_converting_compared')
            if st.get('mixed'):
                acc.count('gen_converting_mixed_lists_compared')
        if ent.get('opts'):
            acc.count('gen_defaulting_compared')
            if ent['substitutes']:
                acc.count('gen_default_substituting_compared')
            if st.get('defaulted'):
                acc.count('gen_defaulting_compared_position_left_to_default')
            zl = [k for k in ent['opts'] if k < len(templates)
                  and zero_in_list(templates[k])]
            if zl:
                acc.count('gen_defaulting_compared_zero_inside_list')
                if ent['substitutes'].intersection(zl):
                    acc.count(
                        'gen_default_substituting_compared_zero_inside_list')
        if any(M.template_has(t, 'obj') for t in templates):
            acc.count('gen_compared_with_object_leaves')
            if any(object_in_list(t) for t in templates):
                acc.count('gen_compared_with_objects_inside_lists')
        acc.count('gen_unit_count_checks')
        acc.count('gen_reference_leaf_calls', st['stats'].get('combos', 0))
        if st['stats'].get('wrapped'):
            acc.count('gen_cases_with_wraparound')
        if st['stats'].get('levels', 0) > 1:
            acc.count('gen_cases_with_recursion')
        nontriv = M.nontrivial_shapes([t for t in templates if t[0] != 'fixed'])
        if st['diff']:
            kind = 'result-' + st['diff']
            wit.update(expanded=st['Erepr'], reference=st['Rrepr'])
        elif not st['count_ok']:
            kind = 'unit-count'
            wit.update(created_expanded=dict(st['cE']),
                       created_reference=dict(st['cR']))
        elif st.get('tuple_probe') is False:
            kind = 'tuple-expanded'
            wit['probe'] = st['tuple_repr']
        if 'tuple_probe' in st:
            acc.count('gen_tuple_probes')
        if kind is None:
            # bytes level
            if sd is None:
                acc.count('gen_build_failed_after_body')
                # arbitrary argument values legitimately fail the input
                # rate/validity check of the build; anything else is not
                # explained by the generated values
                site = exc_site(bexc) if bexc is not None else ''
                if not has_tuple and \
                        site != 'ValueError@synthdef.py:_check_inputs':
                    kind = 'build-raises/' + site
                    wit['exception'] = short_tb(bexc)
            elif has_tuple or not ent['returns']:
                acc.count('gen_bytes_skipped')
            else:
                bk = gen_bytes_check(acc, sd, st, wit)
                if bk:
                    kind = bk
    if build_no == 1:
        acc.case(h64((callee, tdesc(templates))),
                 nontrivial=nontriv and kind is None or bool(kind))
    if kind and build_no == 2:
        kind += '/on-reused-arguments'
    if build_no == 1 and acc.want_sample() and nontriv and kind is None and \
            len(repr(templates)) < 400:
        acc.sample({'case': i, 'call': callee, 'argument_templates':
                    tdesc(templates), 'expanded_result': repr(st['E'])[:400],
                    'reference_leaf_calls': st['stats'].get('combos')})
    if kind and classify:
        # does the generic machinery itself fail on these shapes?
        generic = False
        if ent['name'] != 'VfProbe' and not kind.startswith('bytes'):
            pt = [t if t[0] != 'fixed' else ('num', 0.5) for t in templates]
            psel = 'kr' if ent['sel'] == 'kr' else 'ar'
            probe = {'cls': H.VfProbeN, 'name': 'VfProbe', 'sel': psel,
                     'meth': getattr(H.VfProbeN, psel), 'params': [],
                     'reqleaf': 'ugen', 'returns': True, 'ugen_ok': set()}
            class _Null:
                counters = {}
                def count(self, *a): pass
                def case(self, *a, **k): pass
                def want_sample(self): return False
                def violation(self, *a): pass
            k2 = gen_case(_Null(), H, i, probe, pt, probes, classify=False,
                          reuse=build_no == 2)
            generic = k2 is not None and k2 != 'argument-mutated'
            if generic:
                wit['class_specific_kind'] = kind
                kind = k2
        if ent['name'] == 'VfProbe' or generic:
            key = f'C03/generic-expansion/{kind}'
        elif ent.get('converts') and st.get('conv_mech'):
            # one mechanism for the whole family (the class is in the witness)
            key = f"C03/converting-constructor/{kind}/{st['conv_mech']}"
        elif ent.get('converts'):
            key = f'C03/converting-constructor/{kind}/{callee}'
        elif ent.get('opts') and st.get('dflt_mech'):
            # one mechanism for the whole family (the class is in the witness)
            key = f"C03/defaulting-constructor/{kind}/{st['dflt_mech']}"
        elif ent.get('opts'):
            key = f'C03/defaulting-constructor/{kind}/{callee}'
        else:
            key = f'C03/constructor/{kind}/{callee}'
        acc.violation(key, wit)
    return kind


def gen_bytes_check(acc, sd, st, wit):
    from vf import scgf
    try:
        d = scgf.parse(bytes(sd.as_bytes()))
    except Exception:
        acc.count('gen_bytes_not_parseable')     # well-formedness is C02's
        acc.count('gen_bytes_not_parseable/' + wit['callee'])
        return None
    unit, wire = dsigner(d)
    sinks = {}
    for u in d.units:
        if u.cls == 'Out' and u.inputs and u.inputs[0][0] == 'c':
            sinks[d.constants[u.inputs[0][1]]] = u
    for off, what in ((0, 'audio'), (1, 'control')):
        ne = st['sunkE'][off]
        if not ne:
            continue
        ue, ur = sinks.get(90001.0 + off), sinks.get(90003.0 + off)
        if ue is None or ur is None:
            acc.count('gen_bytes_sink_missing')
            continue
        we = [wire(w) for w in ue.inputs[1:]]
        wr = [wire(w) for w in ur.inputs[1:]]
        acc.count('gen_bytes_trees_compared', len(we))
        if len(we) != ne or we != wr:
            wit['decoded_expanded'] = repr(we)[:600]
            wit['decoded_reference'] = repr(wr)[:600]
            return 'bytes-differ'
    return None


# ---------------------------------------------------------------------------
# op: ChannelList operators

PY_BIN = ['add', 'sub', 'mul', 'truediv', 'floordiv', 'mod', 'pow', 'lshift',
          'rshift', 'and_', 'or_', 'xor', 'lt', 'le', 'gt', 'ge', 'eq', 'ne']
NAMED_BIN = ['min', 'max', 'bitand', 'bitor', 'bitxor', 'lcm', 'gcd', 'round',
             'roundup', 'trunc', 'atan2', 'hypot', 'hypotx', 'pow', 'lshift',
             'rshift', 'urshift', 'ring1', 'ring2', 'ring3', 'ring4', 'difsqr',
             'sumsqr', 'sqrsum', 'sqrdif', 'absdif', 'thresh', 'amclip',
             'scaleneg', 'clip2', 'fold2', 'wrap2', 'excess', 'first_arg',
             'rrand', 'exprand']
PY_UN = ['neg', 'abs', 'invert']
NAMED_UN = ['not_', 'abs', 'neg', 'bitnot', 'reciprocal', 'ceil', 'floor',
            'frac', 'sign', 'log', 'log2', 'log10', 'exp', 'sin', 'cos', 'tan',
            'asin', 'acos', 'atan', 'sinh', 'cosh', 'tanh', 'midicps',
            'cpsmidi', 'midiratio', 'ratiomidi', 'octcps', 'cpsoct', 'ampdb',
            'dbamp', 'squared', 'cubed', 'sqrt', 'rand', 'rand2', 'linrand',
            'bilinrand', 'sum3rand', 'coin', 'distort', 'softclip',
            'rectwindow', 'hanwindow', 'welwindow', 'triwindow', 'scurve',
            'ramp', 'as_int', 'as_float']
RANDOM_OPS = {'rand', 'rand2', 'linrand', 'bilinrand', 'sum3rand', 'coin',
              'rrand', 'exprand'}
COMPARISONS = {'lt', 'le', 'gt', 'ge', 'eq', 'ne'}
# methods whose meaning on python numbers is the python operator
OPERATOR_NAMED = {'not_': 'not_', 'abs': 'abs', 'neg': 'neg',
                  'bitnot': 'invert', 'bitand': 'and_', 'bitor': 'or_',
                  'bitxor': 'xor', 'pow': 'pow', 'lshift': 'lshift',
                  'rshift': 'rshift'}


def num_leaf_fn(bi, name):
    import operator
    if name in OPERATOR_NAMED:
        return getattr(operator, OPERATOR_NAMED[name])
    return getattr(bi, name, None)


POS_NUMS = [0.25, 0.5, 1.0, 1.5, 2.0, 3.0, 4.0, 7.0, 1, 2, 3, 5]


def pos_num(rng):
    return rng.choice(POS_NUMS)


def gen_receiver(rng, p_num, rates, inner_plain=True):
    """ChannelList receiver template: flat or nested."""
    def flat(n):
        return [('num', pos_num(rng)) if rng.random() < p_num
                else ('ugen', rng.choice(rates)) for _ in range(n)]
    n = rng.choice([1, 2, 2, 3, 3, 4])
    items = flat(n)
    if rng.random() < 0.25:
        k = rng.randrange(n)
        items[k] = ('list', flat(rng.choice([1, 2, 3])), True)
        if rng.random() < 0.3:
            k = rng.randrange(n)
            items[k] = ('list', flat(rng.choice([2, 3])),
                        rng.random() < 0.5 or not inner_plain)
    return ('list', items, True)


def run_op(spec, acc, H):
    import operator
    bi = H.bi
    for i in iter_cases(spec):
        rng = case_rng(spec['seed'], 'C03', 'op', i)
        fam = rng.choices(['pybin', 'namedbin', 'pyun', 'namedun'],
                          [45, 30, 5, 20])[0]
        rates = rng.choice([('audio',), ('control',), ('audio', 'control')])
        if fam in ('pybin', 'namedbin'):
            name = rng.choice(PY_BIN if fam == 'pybin' else NAMED_BIN)
            named = fam == 'namedbin'
            p_num = 0.0 if name in RANDOM_OPS or (
                named and not num_leaf_fn(bi, name)) else 0.25
            recv = gen_receiver(rng, p_num, rates)
            other = M.gen_template(rng, pos_num, 0.4, 0.0, rates)
            reverse = (not named) and rng.random() < 0.4
            route = None
            if rng.random() < 0.24:
                # UNIT AGAINST SEQUENCE: a single unit (or one output of a
                # multi-output unit) on one side, a plain list or a
                # ChannelList on the other.  Here the operator of the UNIT
                # has to expand (BinaryOpUGen through the generic expansion),
                # so the full law applies: nested lists give channel lists
                # at every level, tuples are single values, one unit per
                # combination - whatever the container (plain list /
                # ChannelList / one inside the other) and whatever the entry
                # point (python operator in both orders, named method of the
                # unit, builtin function with the unit first or second).
                recv = ('ugen', rng.choice(rates + ('proxy',)))
                if named:
                    route = rng.choice(['method', 'bi', 'bi-r']) \
                        if hasattr(bi, name) else 'method'
                else:
                    route = 'op'
                unit_right = reverse or route == 'bi-r'
                mirrored = unit_right and name in COMPARISONS
                force = rng.choice(['list', 'list', 'nested', 'nested',
                                    'chlist'])
                other = M.gen_template(
                    rng, pos_num, 0.0 if mirrored else 0.4,
                    0.2 if rng.random() < 0.45 else 0.0, rates, force=force)
                if unit_right:
                    # `ChannelList op unit` is list arithmetic (other rules,
                    # decided by the chlist families): keep the top plain
                    other = ('list', other[1], False)
                elif force == 'nested' and rng.random() < 0.45:
                    # a ChannelList that holds nested plain lists
                    other = ('list', other[1], True)
                fam = fam + '-unit'
            elif reverse and name in COMPARISONS and other[0] == 'list':
                # python dispatches `plain_list <cmp> ChannelList` to the
                # mirrored comparison of the subclass: equivalent, but not
                # structurally the same call - keep the operand scalar
                other = M.gen_template(rng, pos_num, 0.4, 0.0, rates,
                                       force='scalar')
            if route is None and reverse and other[0] == 'list' and \
                    other[2] and rng.random() < 0.5:
                other = ('list', other[1], False)
            op_case(acc, H, i, fam, name, recv, other, reverse,
                    reuse=rng.random() < 0.15, route=route)
        else:
            name = rng.choice(PY_UN if fam == 'pyun' else NAMED_UN)
            p_num = 0.0 if name in RANDOM_OPS else (
                0.25 if fam == 'pyun' or num_leaf_fn(bi, name) else 0.0)
            recv = gen_receiver(rng, p_num, rates)
            op_case(acc, H, i, fam, name, recv, None, False,
                    reuse=rng.random() < 0.15)


def op_callables(H, fam, name, reverse, route=None):
    """(expanded_call(recv, other), leaf(a, b)).  route (unit against
    sequence only): 'op' | 'method' | 'bi' (builtin function, unit first) |
    'bi-r' (builtin function, unit second)."""
    import operator
    bi = H.bi
    UG = H.ugn.UGen
    fam = fam.replace('-unit', '')
    if route in ('bi', 'bi-r'):
        f = getattr(bi, name)
        if route == 'bi-r':
            return (lambda r, o: f(o, r)), (lambda a: f(a[1], a[0]))
        return (lambda r, o: f(r, o)), (lambda a: f(a[0], a[1]))
    if fam == 'pybin':
        f = getattr(operator, name)
        if reverse:
            return (lambda r, o: f(o, r)), (lambda a: f(a[1], a[0]))
        return (lambda r, o: f(r, o)), (lambda a: f(a[0], a[1]))
    if fam == 'namedbin':
        def leaf(a):
            if isinstance(a[0], UG):
                return getattr(a[0], name)(a[1])
            return num_leaf_fn(bi, name)(a[0], a[1])
        return (lambda r, o: getattr(r, name)(o)), leaf
    if fam == 'pyun':
        f = getattr(operator, name)
        return (lambda r, o: f(r)), (lambda a: f(a[0]))

    def leaf1(a):
        if isinstance(a[0], UG):
            return getattr(a[0], name)()
        return num_leaf_fn(bi, name)(a[0])
    return (lambda r, o: getattr(r, name)()), leaf1


def op_case(acc, H, i, fam, name, recv, other, reverse, classify=True,
            reuse=False, route=None):
    share = {} if reuse else None
    kind = op_build(acc, H, i, fam, name, recv, other, reverse, classify,
                    share, 1, route)
    if kind is None and reuse:
        acc.count('op_second_builds_with_shared_arguments')
        kind = op_build(acc, H, i, fam, name, recv, other, reverse, classify,
                        share, 2, route)
    return kind


def plain_template(t):
    """the template with every ChannelList replaced by a plain list."""
    if t[0] == 'list':
        return ('list', [plain_template(x) for x in t[1]], False)
    return t


def chlist_holds(t, tag):
    """a ChannelList (at any depth) that directly holds a `tag` element."""
    if t[0] != 'list':
        return False
    if t[2] and any(x[0] == tag for x in t[1]):
        return True
    return any(chlist_holds(x, tag) for x in t[1])


def op_build(acc, H, i, fam, name, recv, other, reverse, classify, share,
             build_no, route=None):
    st = {}
    call, leaf = op_callables(H, fam, name, reverse, route)
    binary = other is not None
    unit = fam.endswith('-unit')

    def body():
        r, rR = H.inst_pair(recv, share, (0,))
        o, oR = H.inst_pair(other, share, (1,)) if binary else (None, None)
        s = H.signer()
        st['args'] = [r, o] if binary else [r]
        st['snap0'] = H.snap(st['args'])
        E, Eexc, cE = H.count_created(lambda: call(r, o))
        st['mutated'] = H.snap_diff(st['snap0'], H.snap(st['args']))
        stats = {}
        R, Rexc, cR = H.count_created(lambda: M.expand(
            [rR, oR] if binary else [rR], leaf, H.ChannelList, stats))
        st.update(E=E, Eexc=Eexc, R=R, Rexc=Rexc, stats=stats)
        if Eexc is None and Rexc is None:
            # unit against sequence: the generic expansion decides, every
            # level of the answer is a channel list; ChannelList arithmetic
            # keeps the container type of nested operands
            st['diff'] = H.diff_kind(E, R, s, strict_inner=unit)
            st['count_ok'] = cE == cR
            st['cE'], st['cR'] = dict(cE), dict(cR)
            st['Erepr'], st['Rrepr'] = repr(E)[:500], repr(R)[:500]
    H.build(body)
    opname = ('r' if reverse else '') + name
    if route in ('bi', 'bi-r'):
        opname = route + '.' + name
    desc = (fam, opname, repr(recv), repr(other))
    wit = {'case': i, 'family': fam, 'op': opname, 'receiver': repr(recv),
           'other': repr(other), 'build': build_no}
    kind = None
    mut = None
    if 'E' in st:
        acc.count('op_argument_snapshots_compared', 2)
        mut = st['mutated'] or H.snap_diff(st['snap0'], H.snap(st['args']))
    if mut:
        wit['mutated_when'] = 'call' if st['mutated'] else 'build'
        wit['arguments_after'] = repr(st['args'])[:500]
        acc.violation(f'C03/argument-mutated/operator/{mut}', wit)
        if build_no == 1:
            acc.case(h64(desc), nontrivial=True)
        return 'argument-mutated'
    if 'E' not in st:
        acc.count('op_body_not_reached')
    elif st['Eexc'] is not None and st['Rexc'] is not None:
        acc.count('op_discard_both_raise')
    elif st['Rexc'] is not None:
        acc.count('op_discard_scalar_call_raises')
    elif st['Eexc'] is not None:
        kind = 'expanded-raises/' + exc_site(st['Eexc'])
        wit['exception'] = short_tb(st['Eexc'])
    else:
        acc.count('op_compared')
        acc.count('op/' + fam + ':' + opname)
        if unit:
            acc.count('op_unit_compared')
            acc.count('op_unit_route/' + (
                'rop' if route == 'op' and reverse else route or 'op'))
            if recv[1] == 'proxy':
                acc.count('op_unit_compared_output_proxy_receiver')
            if other[2]:
                acc.count('op_unit_compared_channel_list_operand')
            if chlist_holds(other, 'list'):
                acc.count('op_unit_compared_channel_list_holding_nested_list')
            if M.template_has(other, 'tup'):
                acc.count('op_unit_compared_with_tuples')
            if chlist_holds(other, 'tup'):
                acc.count('op_unit_compared_channel_list_holding_tuple')
        if st['diff']:
            kind = 'result-' + st['diff']
            wit.update(expanded=st['Erepr'], reference=st['Rrepr'])
        elif not st['count_ok']:
            kind = 'unit-count'
            wit.update(created_expanded=st['cE'], created_reference=st['cR'])
    nontriv = 'E' in st and st.get('Eexc') is None and st.get('Rexc') is None \
        and (st['stats'].get('wrapped') or st['stats'].get('levels', 0) > 1)
    if build_no == 1:
        acc.case(h64(desc), nontrivial=bool(nontriv) or bool(kind))
    if kind and build_no == 2:
        kind += '/on-reused-arguments'
    if build_no == 1 and acc.want_sample() and nontriv and not kind:
        acc.sample({'case': i, 'op': opname, 'receiver': repr(recv),
                    'other': repr(other), 'result': st['Erepr']})
    if kind and classify:
        generic = False
        canon = {'pybin': 'add', 'namedbin': 'min', 'pyun': 'neg',
                 'namedun': 'neg'}[fam.replace('-unit', '')]
        if name != canon:
            k2 = op_case(_Null(), H, i, fam, canon, recv, other, reverse,
                         classify=False, reuse=build_no == 2, route=route)
            generic = k2 is not None and k2 != 'argument-mutated'
            if generic:
                wit['op_specific_kind'] = kind
                kind = k2
        arity = 'binop' if binary else 'unop'
        who = 'unit-list' if unit else 'chlist'
        trait = ''
        if unit and M.template_has(other, 'list') and \
                plain_template(other) != other:
            # does it need a ChannelList among the operand's containers?
            k3 = op_case(_Null(), H, i, fam, name, recv,
                         plain_template(other), reverse, classify=False,
                         reuse=build_no == 2, route=route)
            if k3 is None:
                trait = '/channel-list-operand'
        if generic or name == canon:
            key = f'C03/{who}-{arity}/{kind}{trait}'
        else:
            key = f'C03/{who}-{arity}/{kind}/{opname}{trait}'
        if route:
            wit['route'] = route
        acc.violation(key, wit)
    return kind


# ---------------------------------------------------------------------------
# meth: ChannelList convenience methods

# name -> (required count, [argument kinds])
METHODS = {
    'range': (0, ['num', 'num']), 'exprange': (0, ['pos', 'pos']),
    'curverange': (0, ['num', 'num', 'num']),
    'unipolar': (0, ['num']), 'bipolar': (0, ['num']),
    'clip': (0, ['num', 'num']), 'fold': (0, ['num', 'num']),
    'wrap': (0, ['num', 'num']), 'min_nyquist': (0, []),
    'blend': (1, ['sig', 'num']),
    'lag': (0, ['pos']), 'lag2': (0, ['pos']), 'lag3': (0, ['pos']),
    'lagud': (0, ['pos', 'pos']), 'lag2ud': (0, ['pos', 'pos']),
    'lag3ud': (0, ['pos', 'pos']), 'varlag': (0, ['pos', 'num', 'num']),
    'slew': (0, ['pos', 'pos']), 'prune': (2, ['num', 'num', 'ptype']),
    'linlin': (4, ['num', 'num', 'num', 'num', 'ptype']),
    'linexp': (4, ['num', 'num', 'pos', 'pos', 'ptype']),
    'explin': (4, ['pos', 'pos', 'num', 'num', 'ptype']),
    'expexp': (4, ['pos', 'pos', 'pos', 'pos', 'ptype']),
    'lincurve': (4, ['num', 'num', 'num', 'num', 'num', 'ptype']),
    'curvelin': (4, ['num', 'num', 'num', 'num', 'num', 'ptype']),
    'bilin': (6, ['num', 'num', 'num', 'num', 'num', 'num', 'ptype']),
    'moddif': (0, ['sig', 'num']), 'madd': (0, ['num', 'num']),
    'check_bad_values': (0, ['num', 'num']),
    'degrad': (0, []), 'raddeg': (0, []),
}


# convenience methods with a documented meaning on plain numbers (the
# builtins of the same name; lag-like methods return the number itself, as
# sclang's SimpleNumber does): number elements of the receiver are in the
# domain for these
NUM_METHODS = {'clip', 'fold', 'wrap', 'linlin', 'linexp', 'bilin', 'degrad',
               'raddeg', 'lag', 'lag2', 'lag3', 'lagud', 'lag2ud', 'lag3ud',
               'varlag', 'slew'}


def meth_leaf(H, name):
    bi, UG = H.bi, H.ugn.UGen

    def leaf(x):
        r = x[0]
        if isinstance(r, UG) or isinstance(r, list):
            return getattr(r, name)(*x[1:])
        if name in ('lag', 'lag2', 'lag3', 'lagud', 'lag2ud', 'lag3ud',
                    'varlag', 'slew'):
            return r
        return getattr(bi, name)(r, *x[1:])
    return leaf


# canonical plain call per method.  A method that raises for every call cannot
# violate the wrap-and-zip law (the expanded call and the per-element calls
# fail alike), so this monitor only COUNTS such methods
# (observed_unusable_method/<name>, see proposed_fixes/
# C03-unusable-convenience-methods.md); it is evidence of why the differential
# monitor never compares them, not a verdict
CANON_NUM = [0.25, 0.5, 0.75, 1.0, 2.0, 4.0]


def usable_methods_monitor(acc, H):
    for name in sorted(METHODS):
        nreq, kinds = METHODS[name]
        st = {}

        def body():
            a, b = H.make_ugen('audio'), H.make_ugen('audio')
            args = []
            for k, kd in enumerate(kinds[:max(nreq, min(len(kinds), 4))]):
                if kd == 'ptype':
                    break
                args.append(H.make_ugen('audio') if kd == 'sig'
                            else CANON_NUM[k])
            try:
                st['r'] = getattr(H.ChannelList([a, b]), name)(*args)
            except NotImplementedError as e:
                st['declared'] = str(e)
            except Exception as e:
                st['exc'] = e
            st['args'] = repr(args)
        H.build(body)
        acc.count('meth_canonical_calls')
        if 'exc' in st:
            acc.count(f'observed_unusable_method/{name}')
            acc.extra.setdefault('unusable_methods', {})[name] = \
                f"{exc_site(st['exc'])}: {str(st['exc'])[:120]}"
        elif 'declared' in st:
            acc.count(f'observed_not_implemented_method/{name}')
        elif 'r' in st and not (isinstance(st['r'], H.ChannelList)
                                and len(st['r']) == 2):
            acc.violation(f'C03/chlist-method/{name}/canonical-call-shape',
                          {'case': 0, 'method': name, 'args': st['args'],
                           'result': repr(st['r'])[:300]})


def run_meth(spec, acc, H):
    if spec.get('only_case') is None and spec['shard']['first_case'] == 0:
        usable_methods_monitor(acc, H)
    names = sorted(METHODS)
    for i in iter_cases(spec):
        rng = case_rng(spec['seed'], 'C03', 'meth', i)
        if rng.random() < 0.25:
            fold_case(acc, H, i, rng)
            continue
        name = rng.choice(names)
        nreq, kinds = METHODS[name]
        rates = rng.choice([('audio',), ('control',)])
        recv = gen_receiver(rng, 0.2 if name in NUM_METHODS else 0.0, rates,
                            inner_plain=False)
        n_given = rng.randint(nreq, len(kinds)) if rng.random() < 0.7 \
            else len(kinds)
        # tuple mode: every given argument is a sequence and at least one is a
        # tuple (alone, or next to lists of other lengths); a tuple is ONE
        # cell of the expansion, whatever its length
        nseq = len([k for k in kinds if k != 'ptype'])
        tuple_mode = rng.random() < 0.3 and nseq > 0 and nreq <= nseq
        if tuple_mode:
            n_given = rng.randint(max(nreq, 1), nseq)
            forced = rng.randrange(n_given)
        args = []
        for pos, k in enumerate(kinds[:n_given]):
            if tuple_mode:
                numfn = pos_num if k == 'pos' else (
                    lambda r: r.choice(M.F32_NUMS))
                p_ugen = 0.3 if k == 'sig' else 0.05

                def tup():
                    return ('tup', [M.gen_leaf(rng, numfn, p_ugen, 0.0, rates)
                                    for _ in range(rng.choice([1, 2, 2, 3, 4, 5]))])
                r = rng.random()
                if pos == forced or r < 0.45:
                    args.append(tup())
                elif r < 0.8:
                    args.append(('list', [
                        tup() if rng.random() < 0.3 else
                        M.gen_leaf(rng, numfn, p_ugen, 0.0, rates)
                        for _ in range(rng.choice([1, 2, 3, 4]))],
                        rng.random() < 0.3))
                else:
                    args.append(('list', [tup() for _ in range(
                        rng.choice([1, 2, 3]))], False))
                continue
            if k == 'ptype':
                args.append(('str', rng.choice(['minmax', 'min', 'max'])))
                continue
            numfn = pos_num if k == 'pos' else (lambda r: r.choice(M.F32_NUMS))
            p_ugen = 0.6 if k == 'sig' else 0.1
            if rng.random() < 0.35:
                n = rng.choice([1, 2, 2, 3, 4])
                args.append(('list', [M.gen_leaf(rng, numfn, p_ugen, 0.0, rates)
                                      for _ in range(n)], rng.random() < 0.3))
            else:
                args.append(M.gen_leaf(rng, numfn, p_ugen, 0.0, rates))
        meth_case(acc, H, i, name, recv, args, reuse=rng.random() < 0.15)


class _Null:
    def count(self, *a): pass
    def case(self, *a, **k): pass
    def want_sample(self): return False
    def sample(self, *a, **k): pass
    def violation(self, *a): pass


def meth_case(acc, H, i, name, recv, args, classify=True, reuse=False):
    share = {} if reuse else None
    kind = meth_build(acc, H, i, name, recv, args, classify, share, 1)
    if kind is None and reuse:
        acc.count('meth_second_builds_with_shared_arguments')
        kind = meth_build(acc, H, i, name, recv, args, classify, share, 2)
    return kind


def meth_build(acc, H, i, name, recv, args, classify, share, build_no):
    st = {}

    def body():
        r, rR = H.inst_pair(recv, share, (0,))
        pairs = [H.inst_pair(t, share, (1, k)) for k, t in enumerate(args)]
        a = [p[0] for p in pairs]
        aR = [p[1] for p in pairs]
        s = H.signer()
        st['args'] = [r] + a
        st['snap0'] = H.snap(st['args'])
        E, Eexc, cE = H.count_created(lambda: getattr(r, name)(*a))
        st['mutated'] = H.snap_diff(st['snap0'], H.snap(st['args']))
        stats = {}
        R, Rexc, cR = H.count_created(lambda: M.expand(
            [rR] + aR, meth_leaf(H, name),
            H.ChannelList, stats))
        st.update(E=E, Eexc=Eexc, R=R, Rexc=Rexc, stats=stats)
        if Eexc is None and Rexc is None:
            st['diff'] = H.diff_kind(E, R, s)
            st['count_ok'] = cE == cR
            st['cE'], st['cR'] = dict(cE), dict(cR)
            st['Erepr'], st['Rrepr'] = repr(E)[:500], repr(R)[:500]
            if st['diff'] and any(isinstance(x, tuple) for x in aR):
                # mechanism: is the result what the law gives when the tuple
                # arguments are (wrongly) taken for lists?
                a2 = [list(x) if isinstance(x, tuple) else x for x in aR]
                R2, x2, _ = H.count_created(lambda: M.expand(
                    [rR] + a2, meth_leaf(H, name),
                    H.ChannelList, {}))
                st['tuple_expanded'] = x2 is None and \
                    H.diff_kind(E, R2, s) is None
    H.build(body)
    wit = {'case': i, 'method': name, 'receiver': repr(recv),
           'args': [repr(t) for t in args], 'build': build_no}
    kind = None
    mut = None
    if 'E' in st:
        acc.count('meth_argument_snapshots_compared', 2)
        mut = st['mutated'] or H.snap_diff(st['snap0'], H.snap(st['args']))
    if mut:
        wit['mutated_when'] = 'call' if st['mutated'] else 'build'
        wit['arguments_after'] = repr(st['args'])[:500]
        acc.violation(f'C03/argument-mutated/method/{mut}', wit)
        if build_no == 1:
            acc.case(h64((name, repr(recv), repr(args))), nontrivial=True)
        return 'argument-mutated'
    if 'E' not in st:
        acc.count('meth_body_not_reached')
    elif st['Eexc'] is not None and st['Rexc'] is not None:
        acc.count('meth_discard_both_raise')
        acc.count('meth_both_raise/' + name)
    elif st['Rexc'] is not None:
        acc.count('meth_discard_scalar_call_raises')
    elif st['Eexc'] is not None:
        kind = 'expanded-raises/' + exc_site(st['Eexc'])
        wit['exception'] = short_tb(st['Eexc'])
    else:
        acc.count('meth_compared')
        if any(M.template_has(t, 'tup') for t in args):
            acc.count('meth_compared_with_tuple_arguments')
        acc.count('meth/' + name)
        if st['diff']:
            kind = 'result-' + st['diff']
            wit.update(expanded=st['Erepr'], reference=st['Rrepr'])
        elif not st['count_ok']:
            kind = 'unit-count'
            wit.update(created_expanded=st['cE'], created_reference=st['cR'])
    nontriv = 'E' in st and st.get('Eexc') is None and st.get('Rexc') is None \
        and (st['stats'].get('wrapped') or st['stats'].get('levels', 0) > 1)
    if build_no == 1:
        acc.case(h64((name, repr(recv), repr(args))),
                 nontrivial=bool(nontriv) or bool(kind))
    if build_no == 1 and acc.want_sample() and nontriv and not kind:
        acc.sample({'case': i, 'method': name, 'receiver': repr(recv),
                    'args': [repr(t) for t in args], 'result': st['Erepr']})
    if kind and classify:
        # one key per method and mechanism: 'raises/<site>', 'unit-count' or
        # 'result'; '/defaults' when the plain call without arguments on a
        # flat receiver already differs (omitted positions filled differently)
        fam = kind if kind.startswith('expanded-raises') or \
            kind == 'unit-count' else 'result'
        how = ''
        nreq, kinds = METHODS[name]
        if len(args) < len(kinds) and nreq == 0:
            flat2 = ('list', [('ugen', 'audio'), ('ugen', 'audio')], True)
            if meth_case(_Null(), H, i, name, flat2, [], classify=False):
                how = '/defaults'
        if build_no == 2:
            how += '/on-reused-arguments'
        if st.get('tuple_expanded'):
            # one mechanism for every method: a tuple argument was zipped
            # across the channels instead of being handed whole to each one
            acc.violation('C03/chlist-method/tuple-argument-expanded', wit)
        else:
            acc.violation(f'C03/chlist-method/{name}/{fam}{how}', wit)
    return kind


# ---------------------------------------------------------------------------
# fold: reductions over the channels (run inside the meth shards)
#
# ChannelList.sum(), Mix.new / Mix.ar / Mix.kr.  A reduction is the one kind
# of convenience method whose answer is not "one element per channel": it
# folds the channels with the `+` of channel-list arithmetic, so for a
# receiver with a SINGLE channel the fold has nothing to combine and an
# implementation is tempted to hand back what it was given.  The class of
# behaviour: the number of channels at the edge of the fold (0, 1, 2, then
# the group sizes of Mix: 3, 4, 5 .. 13) crossed with what a channel is (a
# unit / number, a plain list, a ChannelList, a tuple, nested once more) and
# with the container the channels sit in (ChannelList, plain list or a bare
# value for Mix).  Decided: the value (reference = left fold `0 + c0 + c1 ..`
# through the reference expansion of binary `+`, for Mix grouped by four /
# three through Sum4.new / Sum3.new as documented), the TYPE of the answer (a
# list answer is a ChannelList at the top, whatever the type of the single
# nested channel; below the top list arithmetic keeps the container kinds,
# any sequence is accepted there), one unit per combination, and ALIASING:
# no list object of the answer, at any depth, is a list object of the
# receiver, and writing into every list of the answer leaves the receiver's
# snapshot unchanged (the fold describes a new value: `mix[0] = x` or
# `mix *= 0.5` on the mix of one stereo signal must not reach that signal).

FOLD_FORMS = ['sum', 'sum', 'sum', 'Mix.new', 'Mix.new', 'Mix.ar', 'Mix.kr']


def gen_fold_receiver(rng, form):
    """-> (template, info).  info: n channels, single (one channel that is
    itself a sequence), kinds of the nested channels."""
    if form == 'Mix.kr':
        rates = ('control',)
    elif form == 'Mix.ar':
        rates = rng.choice([('audio',), ('control',)])
    else:
        rates = rng.choice([('audio',), ('control',), ('audio', 'control')])
    p_num = 0.2 if form in ('sum', 'Mix.new') else 0.0
    kinds = set()

    def leaf():
        if rng.random() < p_num:
            return ('num', pos_num(rng))
        return ('ugen', rng.choice(rates))

    def chan(depth, p_nested):
        if rng.random() >= p_nested:
            return leaf()
        k = rng.choices(['plain', 'chlist', 'tuple'], [45, 40, 15])[0]
        if form != 'sum' and k == 'tuple':
            # Mix groups by Sum3 / Sum4 (generic expansion: a tuple is one
            # value) and folds the rest by list arithmetic (zips tuples):
            # tuple channels have no single meaning there
            k = 'plain'
        kinds.add(k)
        n = rng.choice([1, 2, 2, 3])
        if k == 'tuple':
            return ('tup', [leaf() for _ in range(n)])
        return ('list', [chan(depth + 1, 0.25 if depth < 2 else 0.0)
                         for _ in range(n)], k == 'chlist')
    if form == 'sum':
        n = rng.choice([0, 1, 1, 1, 1, 2, 2, 3, 4])
    elif form == 'Mix.new':
        n = rng.choice([0, 1, 1, 1, 2, 2, 3, 4, 5, 7, 9, 13])
    else:
        n = rng.choice([1, 1, 1, 2, 2, 3, 4, 5, 9])
    p_nested = rng.choice([0.0, 0.5, 1.0, 1.0])
    items = [chan(1, p_nested) for _ in range(n)]
    as_cl = True if form == 'sum' else rng.random() < 0.6
    t = ('list', items, as_cl)
    bare = False
    if form != 'sum' and n == 1 and items[0][0] in ('ugen', 'num') and \
            rng.random() < 0.4:
        t, bare = items[0], True        # Mix of a bare value / one signal
    info = {'n': n, 'bare': bare, 'kinds': kinds,
            'single': n == 1 and items[0][0] in ('list', 'tup'),
            'nested': any(x[0] in ('list', 'tup') for x in items)}
    return t, info


def tuples_to_lists(x):
    # list arithmetic zips tuples like lists (documented in sc3)
    if isinstance(x, (list, tuple)):
        return [tuples_to_lists(i) for i in x]
    return x


def fold_sum_ref(items, mk, stats):
    res = 0
    for it in items:
        res = M.expand([res, it], lambda a: a[0] + a[1], mk, stats)
    return res


def mix_ref(H, lst, mk, stats):
    lst = lst if isinstance(lst, list) else [lst]
    mixed = []
    for k in range(0, len(lst), 4):
        c = lst[k:k + 4]
        if len(c) == 4:
            mixed.append(M.expand(c, lambda a: H.ugn.Sum4.new(*a), mk, stats))
        elif len(c) == 3:
            mixed.append(M.expand(c, lambda a: H.ugn.Sum3.new(*a), mk, stats))
        else:
            mixed.append(fold_sum_ref(c, mk, stats))
    if len(mixed) < 3:
        return fold_sum_ref(mixed, mk, stats)
    if len(mixed) == 3:
        return M.expand(mixed, lambda a: H.ugn.Sum3.new(*a), mk, stats)
    return mix_ref(H, mixed, mk, stats)


def fold_callables(H, form):
    """(real call(receiver), reference(receiver copy, stats))."""
    from sc3.synth.ugens.mix import Mix
    mk, UG, lne = H.ChannelList, H.ugn.UGen, H.lne
    if form == 'sum':
        return (lambda r: r.sum()), (lambda r, st: fold_sum_ref(r, mk, st))
    if form == 'Mix.new':
        return Mix.new, (lambda r, st: mix_ref(H, r, mk, st))

    def conv(a):
        x = a[0]
        rate = x.rate if isinstance(x, UG) else 'scalar'
        if form == 'Mix.ar':
            return x if rate == 'audio' else (
                lne.K2A.ar(x) if rate == 'control' else lne.DC.ar(x))
        return x if rate == 'control' else lne.DC.kr(x)

    def ref(r, st):
        return M.expand([mix_ref(H, r, mk, st)], conv, mk)
    return (Mix.ar if form == 'Mix.ar' else Mix.kr), ref


def fold_diff(H, E, R, s, top=True):
    seq = (list, tuple)
    if isinstance(R, list):
        if not isinstance(E, seq):
            return 'not-expanded'
        if top and not isinstance(E, H.ChannelList):
            return 'not-channel-list'
        if len(E) != len(R):
            return 'length'
        for e, r in zip(E, R):
            k = fold_diff(H, e, r, s, False)
            if k:
                return k
        return None
    if isinstance(E, seq):
        return 'over-expanded'
    return None if s(E) == s(R) else 'element'


def list_objects(x, out):
    """every list object reachable from x through lists and tuples."""
    if isinstance(x, list):
        out.append(x)
    if isinstance(x, (list, tuple)):
        for i in x:
            list_objects(i, out)
    return out


def fold_case(acc, H, i, rng):
    form = rng.choice(FOLD_FORMS)
    recv, info = gen_fold_receiver(rng, form)
    call, ref = fold_callables(H, form)
    st = {}

    def body():
        r, rR = H.inst_pair(recv, None, (0,))
        rR = tuples_to_lists(rR)
        s = H.signer()
        st['args'] = [r]
        st['snap0'] = H.snap(st['args'])
        E, Eexc, cE = H.count_created(lambda: call(r))
        st['mutated'] = H.snap_diff(st['snap0'], H.snap(st['args']))
        stats = {}
        R, Rexc, cR = H.count_created(lambda: ref(rR, stats))
        st.update(E=E, Eexc=Eexc, R=R, Rexc=Rexc, stats=stats)
        if Eexc is not None or Rexc is not None:
            return
        st['Erepr'], st['Rrepr'] = repr(E)[:500], repr(R)[:500]
        if form != 'sum' and not isinstance(R, list) and \
                isinstance(E, H.ChannelList) and len(E) == 1 and \
                not isinstance(E[0], (list, tuple)):
            # Mix wraps the mix of plain channels in a one-element channel
            # list (sclang answers the unit): both are accepted
            st['wrapped'] = True
            E = E[0]
        st['diff'] = fold_diff(H, E, R, s)
        st['count_ok'] = cE == cR
        st['cE'], st['cR'] = dict(cE), dict(cR)
        # aliasing: identity of list objects, then writing into the answer
        mine = {id(x) for x in list_objects(st['args'], [])}
        theirs = list_objects(st['E'], [])
        st['alias'] = any(id(x) in mine for x in theirs)
        st['alias_lists'] = len(theirs)
        for x in theirs:
            if len(x):
                x[0] = -12345.5
            x.append(-54321.5)
        st['written'] = H.snap_diff(st['snap0'], H.snap(st['args']))
    H.build(body)
    wit = {'case': i, 'form': form, 'receiver': repr(recv)}
    desc = h64(('fold', form, repr(recv)))
    kind = None
    if 'E' not in st:
        acc.count('fold_body_not_reached')
    elif st['mutated']:
        wit['arguments_after'] = repr(st['args'])[:500]
        acc.violation(f"C03/argument-mutated/fold/{st['mutated']}", wit)
        acc.case(desc, nontrivial=True)
        return 'argument-mutated'
    elif st['Eexc'] is not None and st['Rexc'] is not None:
        acc.count('fold_discard_both_raise')
    elif st['Rexc'] is not None:
        acc.count('fold_discard_reference_raises')
    elif st['Eexc'] is not None:
        kind = 'raises/' + exc_site(st['Eexc'])
        wit['exception'] = short_tb(st['Eexc'])
    else:
        acc.count('fold_compared')
        acc.count('fold/' + form)
        acc.count(f"fold_compared_channels/{min(info['n'], 5)}")
        if st.get('wrapped'):
            acc.count('observed_mix_answer_wrapped_in_one_element_list')
        if info['single']:
            acc.count('fold_compared_single_nested_channel')
            for k in info['kinds']:
                acc.count('fold_compared_single_nested_channel/' + k)
        if 'tuple' in info['kinds']:
            acc.count('fold_compared_tuple_channels')
        acc.count('fold_alias_checks')
        if st['alias_lists']:
            acc.count('fold_alias_checks_list_answer')
        if st['diff']:
            kind = 'result-' + st['diff']
            wit.update(answer=st['Erepr'], reference=st['Rrepr'])
        elif not st['count_ok']:
            kind = 'unit-count'
            wit.update(created=st['cE'], created_reference=st['cR'])
        elif st['written']:
            kind = 'receiver-changed-by-writing-into-answer'
            wit.update(answer=st['Erepr'], receiver_after=repr(st['args'])[:300],
                       what=st['written'])
        elif st['alias']:
            kind = 'answer-shares-list-object-with-receiver'
            wit.update(answer=st['Erepr'])
    ok = 'E' in st and st['Eexc'] is None and st['Rexc'] is None
    acc.case(desc, nontrivial=bool(kind) or (ok and info['nested']))
    if kind:
        shape = 'single-nested-channel' if info['single'] else (
            'nested-channels' if info['nested'] else 'flat')
        wit['shape'] = shape
        acc.violation(f'C03/chlist-fold/{form}/{kind}', wit)
    return kind


# ---------------------------------------------------------------------------
# out: output units

OUT_CLASSES = [('Out', 'ar', 1), ('Out', 'kr', 1), ('ReplaceOut', 'ar', 1),
               ('ReplaceOut', 'kr', 1), ('OffsetOut', 'ar', 1),
               ('XOut', 'ar', 2), ('XOut', 'kr', 2), ('LocalOut', 'ar', 0),
               ('LocalOut', 'kr', 0)]


def gen_out_template(rng, audio):
    """channel array template: leaves are audio (or control) sources,
    stereo pairs (a ChannelList of two proxies) and literal zeros."""
    src = 'audio' if audio else 'control'

    def leaf():
        r = rng.random()
        if r < 0.3:
            return ('num', rng.choice([0, 0.0, 0, 0.0, -0.0]))
        if not audio and r < 0.45:
            return ('num', rng.choice([0.5, 1.0, 3, 0.25]))
        if audio and r < 0.4:
            return ('ugen', 'stereo')
        return ('ugen', src)

    shape = rng.choices(['scalar', 'flat', 'nested'], [15, 45, 40])[0]
    if shape == 'scalar':
        t = leaf()
        return t
    n = rng.choice([1, 2, 2, 3, 4])
    items = [leaf() for _ in range(n)]
    if shape == 'nested':
        for _ in range(rng.choice([1, 1, 2])):
            k = rng.randrange(n)
            inner = [leaf() for _ in range(rng.choice([1, 2, 3]))]
            if rng.random() < 0.3:
                inner[rng.randrange(len(inner))] = (
                    'list', [leaf() for _ in range(rng.choice([1, 2]))], False)
            items[k] = ('list', inner, rng.random() < 0.3)
    return ('list', items, rng.random() < 0.3)


def run_out(spec, acc, H):
    from vf import scgf
    for i in iter_cases(spec):
        rng = case_rng(spec['seed'], 'C03', 'out', i)
        cname, sel, nfixed = rng.choice(OUT_CLASSES)
        audio = sel == 'ar'
        fixed_t = []
        for k in range(nfixed):
            def busleaf():
                # the bus position: a number or (first fixed position only)
                # a Bus object, which stands for its index
                if k == 0 and rng.random() < 0.2:
                    return ('obj', 'bus', rng.randrange(4))
                return ('num', float(rng.randint(1, 60)))
            if rng.random() < 0.2:
                fixed_t.append(('list', [busleaf() for _ in range(
                    rng.choice([1, 2, 3]))], False))
            else:
                fixed_t.append(busleaf())
        out_t = gen_out_template(rng, audio)
        reuse = rng.random() < 0.35
        if reuse:
            # a shared constant row (unit-free nested list) inside the
            # channel array, e.g. MUTE = [0, 0]; Out.ar(0, [sig, MUTE])
            row = ('list', [('num', rng.choice([0, 0.0, 0] if audio else
                                               [0, 0.0, 0.5, 3]))
                            for _ in range(rng.choice([1, 2, 2, 3]))],
                   rng.random() < 0.3)
            if out_t[0] != 'list':
                out_t = ('list', [out_t, row], False)
            else:
                items = list(out_t[1])
                if rng.random() < 0.5 or len(items) == 1:
                    items.insert(rng.randint(0, len(items)), row)
                else:
                    items[rng.randrange(len(items))] = row
                out_t = ('list', items, out_t[2])
        out_case(acc, H, scgf, i, cname, sel, fixed_t, out_t, reuse)


def out_case(acc, H, scgf, i, cname, sel, fixed_t, out_t, reuse=False):
    """reuse: the same call is built a second time, in a second SynthDef,
    with the very same unit-free argument objects."""
    share = {} if reuse else None
    bad = out_build(acc, H, scgf, i, cname, sel, fixed_t, out_t, share, 1)
    if not bad and reuse:
        acc.count('out_second_builds_with_shared_arguments')
        out_build(acc, H, scgf, i, cname, sel, fixed_t, out_t, share, 2)


def out_build(acc, H, scgf, i, cname, sel, fixed_t, out_t, share, build_no):
    import os
    audio = sel == 'ar'
    cls = getattr(H.iou, cname)
    callee = f'{cname}.{sel}'
    st = {}
    again = '/on-reused-arguments' if build_no == 2 else ''

    def body():
        fp = [H.inst_pair(t, share, (0, k)) for k, t in enumerate(fixed_t)]
        fixed, fixedR = [p[0] for p in fp], [p[1] for p in fp]
        output, outputR = H.inst_pair(out_t, share, (1,))
        st['expected'] = M.out_reference(fixedR, outputR, audio)
        st['args'] = fixed + [output]
        st['snap0'] = H.snap(st['args'])
        st['called'] = True
        getattr(cls, sel)(*fixed, output)
        st['returned'] = True
        st['mutated'] = H.snap_diff(st['snap0'], H.snap(st['args']))

    # expected wire of a python-side leaf, in decoded form
    def expect_wire(x):
        ugn = H.ugn
        if x is M.SIL:
            return 'SIL'
        if isinstance(x, (int, float)):
            return ('c', float(x) + 0.0)      # -0.0 and 0.0 are one constant
        if H.obj_number(x) is not None:
            return ('c', float(H.obj_number(x)))
        if isinstance(x, ugn.OutputProxy):
            return ('u', expect_unit(x.source_ugen), x._output_index)
        return ('u', expect_unit(x), 0)

    def expect_unit(u):
        rate = {'scalar': 0, 'control': 1, 'audio': 2, 'demand': 3}[u.rate]
        nout = len(u._channels) if u._channels else 1
        return (type(u).__name__, rate, u._special_index, nout,
                tuple(expect_wire(w) for w in u.inputs))

    sd, exc = H.build(body)
    wit = {'case': i, 'callee': callee, 'fixed': [repr(t) for t in fixed_t],
           'output': repr(out_t), 'build': build_no}
    acc.count('out_cases')
    zeros = sum(1 for c in st.get('expected', []) for w in c if w is M.SIL)
    nontriv = len(st.get('expected', [])) > 1 or zeros > 0
    if build_no == 1:
        acc.case(h64((callee, repr(fixed_t), repr(out_t))), nontrivial=nontriv)
    if 'expected' not in st:
        acc.count('out_body_not_reached')
        return True
    # argument immutability: after the call and after the build
    if 'snap0' in st and not os.environ.get('C03_NO_MUTMON'):
        acc.count('out_argument_snapshots_compared', 2)
        mut = st.get('mutated') or H.snap_diff(st['snap0'], H.snap(st['args']))
        if mut:
            wit['mutated_when'] = 'call' if st.get('mutated') else 'build'
            wit['arguments_after'] = repr(st['args'])[:500]
            acc.violation(f'C03/argument-mutated/out/{mut}', wit)
            return True
    if exc is not None:
        where = 'call' if 'returned' not in st else 'build'
        wit['exception'] = short_tb(exc)
        acc.violation(
            f'C03/out/{callee}/{where}-raises/{exc_site(exc)}{again}', wit)
        return True
    try:
        d = scgf.parse(bytes(sd.as_bytes()))
    except Exception as e:
        acc.count('out_bytes_not_parseable')
        wit['parse_error'] = str(e)[:300]
        acc.violation(f'C03/out/{callee}/bytes-not-parseable{again}', wit)
        return True
    unit, wire = dsigner(d)
    got = [unit(u.index) for u in d.units if u.cls == cname]
    rate = 2 if audio else 1
    problems = None
    exp_units = []
    for call in st['expected']:
        exp_units.append(tuple(expect_wire(w) for w in call))
    # match as multisets (topological sorting may reorder the units)
    def norm_got(g):
        # silence = any audio-rate DC unit fed by the constant 0
        ins = []
        for w in g[4]:
            if w[0] == 'u' and w[1][0] == 'DC' and w[1][1] == 2 and \
                    w[1][4] == (('c', 0.0),) and w[2] == 0:
                ins.append('SIL')
            else:
                ins.append(w)
        return tuple(ins)
    got_ins = sorted((repr(norm_got(g)) for g in got))
    exp_ins = sorted(repr(e) for e in exp_units)
    acc.count('out_units_checked', len(exp_units))
    if any(M.template_has(t, 'obj') for t in fixed_t):
        acc.count('out_units_checked_with_bus_objects', len(exp_units))
    acc.count('out_zero_inputs_checked', zeros)
    acc.count('cls/' + callee)
    if len(got) != len(exp_units):
        problems = 'unit-count'
    elif got_ins != exp_ins:
        # classify: is it only about zeros?
        def dezero(r):
            return r.replace("('c', 0.0)", 'Z').replace("('c', -0.0)", 'Z') \
                .replace("'SIL'", 'Z')
        if sorted(dezero(x) for x in got_ins) == \
                sorted(dezero(x) for x in exp_ins):
            problems = 'zero-not-silenced' if audio else 'zero-replaced-at-control-rate'
        else:
            problems = 'inputs-differ'
    elif any(g[1] != rate for g in got):
        problems = 'unit-rate'
    elif any(g[3] != 0 for g in got):
        problems = 'has-outputs'
    if problems:
        wit['decoded_units'] = got_ins[:8]
        wit['expected_units'] = exp_ins[:8]
        wit['decoded_rates'] = [g[1] for g in got]
        acc.violation(f'C03/out/{callee}/{problems}{again}', wit)
        return True
    elif build_no == 1 and acc.want_sample() and nontriv \
            and len(exp_units) <= 4:
        acc.sample({'case': i, 'call': callee, 'fixed': [repr(t) for t in fixed_t],
                    'output': repr(out_t), 'decoded_output_units': got_ins})
    return False


# ---------------------------------------------------------------------------

def run_shard(spec, acc):
    H = Harness(acc)
    kind = spec['shard']['kind']
    {'gen': run_gen, 'op': run_op, 'meth': run_meth, 'out': run_out}[kind](
        spec, acc, H)
