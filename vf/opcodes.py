"""Operator opcode table of the SuperCollider server (does NOT import sc3).

Transcribed from the opcode enumerations of the synthesis server
(`server/plugins/UnaryOpUGens.cpp` / `BinaryOpUGens.cpp`, identical to the
language side `lang/LangSource/Opcodes.h`): the `special index` field of a
`UnaryOpUGen` / `BinaryOpUGen` unit spec selects the operation by its position
in these enums.  Names on the right are the language selectors
(`PyrParseNode.cpp: initSpecialSelectors`) of the same positions.

    enum {                              enum {
        opNeg,          // 0  neg           opAdd,          // 0  +
        opNot,          // 1  not           opSub,          // 1  -
        opIsNil,        // 2  isNil         opMul,          // 2  *
        opNotNil,       // 3  notNil        opIDiv,         // 3  div
        opBitNot,       // 4  bitNot        opFDiv,         // 4  /
        opAbs,          // 5  abs           opMod,          // 5  mod
        opAsFloat,      // 6  asFloat       opEQ,           // 6  ==
        opAsInt,        // 7  asInteger     opNE,           // 7  !=
        opCeil,         // 8  ceil          opLT,           // 8  <
        opFloor,        // 9  floor         opGT,           // 9  >
        opFrac,         // 10 frac          opLE,           // 10 <=
        opSign,         // 11 sign          opGE,           // 11 >=
        opSquared,      // 12 squared       // opIdentical, opNotIdentical,
        opCubed,        // 13 cubed         opMin,          // 12 min
        opSqrt,         // 14 sqrt          opMax,          // 13 max
        opExp,          // 15 exp           opBitAnd,       // 14 bitAnd
        opRecip,        // 16 reciprocal    opBitOr,        // 15 bitOr
        opMIDICPS,      // 17 midicps       opBitXor,       // 16 bitXor
        opCPSMIDI,      // 18 cpsmidi       opLCM,          // 17 lcm
        opMIDIRatio,    // 19 midiratio     opGCD,          // 18 gcd
        opRatioMIDI,    // 20 ratiomidi     opRound,        // 19 round
        opDbAmp,        // 21 dbamp         opRoundUp,      // 20 roundUp
        opAmpDb,        // 22 ampdb         opTrunc,        // 21 trunc
        opOctCPS,       // 23 octcps        opAtan2,        // 22 atan2
        opCPSOct,       // 24 cpsoct        opHypot,        // 23 hypot
        opLog,          // 25 log           opHypotx,       // 24 hypotApx
        opLog2,         // 26 log2          opPow,          // 25 pow
        opLog10,        // 27 log10         opShiftLeft,    // 26 leftShift
        opSin,          // 28 sin           opShiftRight,   // 27 rightShift
        opCos,          // 29 cos           opUnsignedShift,// 28 unsignedRightShift
        opTan,          // 30 tan           opFill,         // 29 fill
        opArcSin,       // 31 asin          opRing1,        // 30 ring1
        opArcCos,       // 32 acos          opRing2,        // 31 ring2
        opArcTan,       // 33 atan          opRing3,        // 32 ring3
        opSinH,         // 34 sinh          opRing4,        // 33 ring4
        opCosH,         // 35 cosh          opDifSqr,       // 34 difsqr
        opTanH,         // 36 tanh          opSumSqr,       // 35 sumsqr
        opRand,         // 37 rand          opSqrSum,       // 36 sqrsum
        opRand2,        // 38 rand2         opSqrDif,       // 37 sqrdif
        opLinRand,      // 39 linrand       opAbsDif,       // 38 absdif
        opBiLinRand,    // 40 bilinrand     opThresh,       // 39 thresh
        opSum3Rand,     // 41 sum3rand      opAMClip,       // 40 amclip
        opDistort,      // 42 distort       opScaleNeg,     // 41 scaleneg
        opSoftClip,     // 43 softclip      opClip2,        // 42 clip2
        opCoin,         // 44 coin          opExcess,       // 43 excess
        opDigitValue,   // 45 digitValue    opFold2,        // 44 fold2
        opSilence,      // 46 silence       opWrap2,        // 45 wrap2
        opThru,         // 47 thru          opFirstArg,     // 46 firstArg
        opRectWindow,   // 48 rectWindow    opRandRange,    // 47 rrand
        opHanWindow,    // 49 hanWindow     opExpRandRange, // 48 exprand
        opWelchWindow,  // 50 welWindow     opNumBinarySelectors
        opTriWindow,    // 51 triWindow };
        opRamp,         // 52 ramp
        opSCurve,       // 53 scurve
        opNumUnarySelectors
    };

Second column of every entry below: how the operator is *written in a Python
graph function* on a unit-generator receiver `a` (and operand `b`) according to
the documented operator interface of sc3 signals (`-a`, `abs(a)`, `a.midicps()`,
`a // b`, `a.min(b)` ...).  `None` = not reachable from a graph function
(`isNil`, `notNil`, `digitValue`, `silence`, `thru`, `fill`).  The generator
writes the Python form, the oracle expects the number in the first column.
"""

UNARY = [
    # (selector, [python forms with {a}])
    ('neg', ['(-{a})', '{a}.neg()']),
    ('not', ['{a}.not_()']),
    ('isNil', None),
    ('notNil', None),
    ('bitNot', ['(~{a})', '{a}.bitnot()']),
    ('abs', ['abs({a})', '{a}.abs()']),
    ('asFloat', ['{a}.as_float()']),
    ('asInteger', ['{a}.as_int()']),
    ('ceil', ['{a}.ceil()']),
    ('floor', ['{a}.floor()']),
    ('frac', ['{a}.frac()']),
    ('sign', ['{a}.sign()']),
    ('squared', ['{a}.squared()']),
    ('cubed', ['{a}.cubed()']),
    ('sqrt', ['{a}.sqrt()']),
    ('exp', ['{a}.exp()']),
    ('reciprocal', ['{a}.reciprocal()']),
    ('midicps', ['{a}.midicps()']),
    ('cpsmidi', ['{a}.cpsmidi()']),
    ('midiratio', ['{a}.midiratio()']),
    ('ratiomidi', ['{a}.ratiomidi()']),
    ('dbamp', ['{a}.dbamp()']),
    ('ampdb', ['{a}.ampdb()']),
    ('octcps', ['{a}.octcps()']),
    ('cpsoct', ['{a}.cpsoct()']),
    ('log', ['{a}.log()']),
    ('log2', ['{a}.log2()']),
    ('log10', ['{a}.log10()']),
    ('sin', ['{a}.sin()']),
    ('cos', ['{a}.cos()']),
    ('tan', ['{a}.tan()']),
    ('asin', ['{a}.asin()']),
    ('acos', ['{a}.acos()']),
    ('atan', ['{a}.atan()']),
    ('sinh', ['{a}.sinh()']),
    ('cosh', ['{a}.cosh()']),
    ('tanh', ['{a}.tanh()']),
    ('rand', ['{a}.rand()']),
    ('rand2', ['{a}.rand2()']),
    ('linrand', ['{a}.linrand()']),
    ('bilinrand', ['{a}.bilinrand()']),
    ('sum3rand', ['{a}.sum3rand()']),
    ('distort', ['{a}.distort()']),
    ('softclip', ['{a}.softclip()']),
    ('coin', ['{a}.coin()']),
    ('digitValue', None),
    ('silence', None),
    ('thru', None),
    ('rectWindow', ['{a}.rectwindow()']),
    ('hanWindow', ['{a}.hanwindow()']),
    ('welWindow', ['{a}.welwindow()']),
    ('triWindow', ['{a}.triwindow()']),
    ('ramp', ['{a}.ramp()']),
    ('scurve', ['{a}.scurve()']),
]

# third column: True when the infix form also works with a number on the left
# (Python reflects to the unit generator's __r<op>__ with the same selector).
BINARY = [
    ('+', ['({a} + {b})'], True),
    ('-', ['({a} - {b})'], True),
    ('*', ['({a} * {b})'], True),
    ('div', ['({a} // {b})'], True),
    ('/', ['({a} / {b})'], True),
    ('mod', ['({a} % {b})'], True),
    ('==', ['({a} == {b})'], False),
    ('!=', ['({a} != {b})'], False),
    ('<', ['({a} < {b})'], False),
    ('>', ['({a} > {b})'], False),
    ('<=', ['({a} <= {b})'], False),
    ('>=', ['({a} >= {b})'], False),
    ('min', ['{a}.min({b})'], False),
    ('max', ['{a}.max({b})'], False),
    ('bitAnd', ['({a} & {b})', '{a}.bitand({b})'], True),
    ('bitOr', ['({a} | {b})', '{a}.bitor({b})'], True),
    ('bitXor', ['({a} ^ {b})', '{a}.bitxor({b})'], True),
    ('lcm', ['{a}.lcm({b})'], False),
    ('gcd', ['{a}.gcd({b})'], False),
    ('round', ['{a}.round({b})'], False),
    ('roundUp', ['{a}.roundup({b})'], False),
    ('trunc', ['{a}.trunc({b})'], False),
    ('atan2', ['{a}.atan2({b})'], False),
    ('hypot', ['{a}.hypot({b})'], False),
    ('hypotApx', ['{a}.hypotx({b})'], False),
    ('pow', ['({a} ** {b})', '{a}.pow({b})'], True),
    ('leftShift', ['({a} << {b})', '{a}.lshift({b})'], True),
    ('rightShift', ['({a} >> {b})', '{a}.rshift({b})'], True),
    ('unsignedRightShift', ['{a}.urshift({b})'], False),
    ('fill', None, False),
    ('ring1', ['{a}.ring1({b})'], False),
    ('ring2', ['{a}.ring2({b})'], False),
    ('ring3', ['{a}.ring3({b})'], False),
    ('ring4', ['{a}.ring4({b})'], False),
    ('difsqr', ['{a}.difsqr({b})'], False),
    ('sumsqr', ['{a}.sumsqr({b})'], False),
    ('sqrsum', ['{a}.sqrsum({b})'], False),
    ('sqrdif', ['{a}.sqrdif({b})'], False),
    ('absdif', ['{a}.absdif({b})'], False),
    ('thresh', ['{a}.thresh({b})'], False),
    ('amclip', ['{a}.amclip({b})'], False),
    ('scaleneg', ['{a}.scaleneg({b})'], False),
    ('clip2', ['{a}.clip2({b})'], False),
    ('excess', ['{a}.excess({b})'], False),
    ('fold2', ['{a}.fold2({b})'], False),
    ('wrap2', ['{a}.wrap2({b})'], False),
    ('firstArg', ['{a}.first_arg({b})'], False),
    ('rrand', ['{a}.rrand({b})'], False),
    ('exprand', ['{a}.exprand({b})'], False),
]

assert len(UNARY) == 54 and len(BINARY) == 49

UNARY_OPCODE = {name: i for i, (name, _) in enumerate(UNARY)}
BINARY_OPCODE = {name: i for i, (name, _, _) in enumerate(BINARY)}
UNARY_NAME = [u[0] for u in UNARY]
BINARY_NAME = [b[0] for b in BINARY]

UNARY_FORMS = {name: forms for name, forms in UNARY if forms}
BINARY_FORMS = {name: forms for name, forms, _ in BINARY if forms}
BINARY_LEFT_NUMBER_OK = {name for name, forms, ok in BINARY if forms and ok}

# operators interpreted in the field by the C01 oracle (everything else is an
# uninterpreted function of its opcode and input values)
RING_UNARY = {'neg'}
RING_BINARY = {'+', '-', '*', '/'}

# Operator opcodes that are NOT functions of their inputs: the server's unit
# draws from the synth's random generator on every sample / control period
# (UnaryOpUGens.cpp: rand, rand2, linrand, bilinrand, sum3rand, coin;
# BinaryOpUGens.cpp: rrand, exprand - "these are stateful", the operator help
# lists them under "random operators").  Every such unit a graph function
# creates is a generator of its own: two of them over the same operand are two
# independent signals.  All other opcodes are stateless functions of the inputs.
STATEFUL_UNARY = ('rand', 'rand2', 'linrand', 'bilinrand', 'sum3rand', 'coin')
STATEFUL_BINARY = ('rrand', 'exprand')
STATEFUL_UNARY_OPCODES = frozenset(UNARY_OPCODE[n] for n in STATEFUL_UNARY)
STATEFUL_BINARY_OPCODES = frozenset(BINARY_OPCODE[n] for n in STATEFUL_BINARY)


def is_stateful_op(cls, special):
    """UnaryOpUGen / BinaryOpUGen unit whose opcode is a random generator"""
    if cls == 'UnaryOpUGen':
        return special in STATEFUL_UNARY_OPCODES
    if cls == 'BinaryOpUGen':
        return special in STATEFUL_BINARY_OPCODES
    return False
