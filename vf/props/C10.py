"""C10 - real-time and non-real-time modes run the same program identically.

Differential monitor over worker processes: the same data-defined programs
(vf/prog.py) are run (1) in an NRT process, (2) again in a second fresh NRT
process and (3) in an RT process under injected jitter.  The driver compares,
per program: the per-routine sequences of (resumption index, logical seconds
relative to the program start, beats, drawn random values, values received
through flow variables / inner routines) and the multiset of (bundle id,
relative timetag) between RT and NRT (1e-9 s + timetag resolution); and the
raw score bytes + complete logs between the two NRT runs (bit-identical).
A fourth kind of shard checks seed independence inside one NRT process: adding
or removing draws in *other* (differently seeded) routines must not change a
seeded routine's draws.

Soundness of the RT side: programs are generated so that their meaning does
not depend on physical time: routines on different clocks never share a
Condition/FlowVar or a random generator, tempo changes / pause / resume / stop
only occur in single-clock programs (one thread => logical order = execution
order), and an RT batch is only compared once every clock queue is empty.
"""

import hashlib
import json
import random
import threading
import time

from vf.common import derive_seed, h64, split, short_tb

LEVEL = 'exploration'
RULE = ("seeded random programs in three families: multi-clock (nested/cross-clock "
        "plays, seeded draws, bundle sends with latencies, inner routines), "
        "single-clock with tempo changes / Condition / FlowVar hand-shakes, "
        "single-clock with pause/resume/stop; every program runs in NRT twice (fresh "
        "processes) and in RT under jitter; non-trivial = program with >= 2 routines "
        "and >= 3 yields whose RT run finished; distinct = hash of the program tree")
ASSUMPTIONS = [
    "programs whose meaning depends on physical time are excluded by construction "
    "(see module doc string)",
    "RT logical times are compared relative to the program's root start with 1e-9 s "
    "(+2^-31 s for timetags) tolerance",
]
MIN_COUNTERS = {
    'quick': {'programs_compared_rt_nrt': 100, 'programs_compared_nrt_nrt': 140,
              'seed_independence_pairs': 100, 'log_entries_compared': 3000},
    'thorough': {'programs_compared_rt_nrt': 30000, 'programs_compared_nrt_nrt': 50000,
                 'seed_independence_pairs': 15000, 'log_entries_compared': 1000000},
}


def plan(tier, seed):
    shards = []
    if tier == 'quick':
        groups, per = 2, 300
        sind = 300
    else:
        groups, per = 16, 9000
        sind = 150000
    for g in range(groups):
        base = dict(group=g, first_case=g * per, n=per)
        shards.append(dict(name=f'nrtA{g}', mode='nrt', kind='nrt', hard_timeout=600, **base))
        shards.append(dict(name=f'nrtB{g}', mode='nrt', kind='nrt', hard_timeout=600,
                           env={'PYTHONHASHSEED': str(1 + g)}, **base))
        # (time-bounded: a shard that cannot finish its programs in time reports the
        # batches it has done instead of being lost at the hard time-out)
        shards.append(dict(name=f'rt{g}', mode='rt', kind='rt', batch=30,
                           p_yield=[0.0, 0.03][g % 2], hard_timeout=900,
                           secs=60 if tier == 'quick' else 600, **base))
    for p, (f, n) in enumerate(split(sind, 2 if tier == 'quick' else 4)):
        shards.append(dict(name=f'seedind{p}', mode='nrt', kind='seedind', first_case=f,
                           n=n, secs=60 if tier == 'quick' else 500, hard_timeout=700))
    return shards


def gen_program(seed, i):
    from vf.prog import Gen
    rng = random.Random(derive_seed(seed, 'C10', 'prog', i))
    fam = i % 3
    if fam == 0:
        g = Gen(rng, rt_safe=True, features=('send', 'rand', 'call', 'yinf', 'ahead', 'tick2'))
        g.all_seeded = True
    elif fam == 1:
        g = Gen(rng, rt_safe=True, features=('tempo', 'cond', 'flow', 'send', 'rand', 'call', 'yinf'))
        g.single_clock = rng.choice([-1, 0, 0])
        g.cond_heavy = rng.random() < 0.5
        if g.single_clock == 0 and rng.random() < 0.4:
            g.features.add('beats')
    else:
        g = Gen(rng, rt_safe=True, features=('pr', 'send', 'rand', 'yinf', 'ahead', 'tick2'))
        g.single_clock = rng.choice([-1, 0])
        if g.single_clock == 0 and rng.random() < 0.5:
            g.features.add('tempo')     # tempo changes while moved tasks are pending
        if g.single_clock == 0 and rng.random() < 0.5:
            # beat counter re-based by a routine of the clock; backwards only: a
            # forward jump makes pending tasks overdue with logical times before
            # the program's start, which non-real-time (start = 0) cannot stamp
            g.features.add('beats')
    # exact arithmetic: dyadic deltas, power-of-two tempos and (in RT) a dyadic
    # start time, so that equal logical times are bit-equal in both modes and
    # ties are ordered by insertion in both (see vf/prog.py DYADIC_DELTAS)
    g.dyadic = True
    g.tempos = [1, 2, 4, 8]
    prog = g.program()
    if fam == 1 and rng.random() < 0.5:
        # several waiters released by one signal: their wake-up order (the order
        # in which they began to wait) is part of the program's meaning
        c = prog['nconds']
        prog['nconds'] = c + 1
        ck = g.single_clock
        nid = g.next_id
        for k in range(rng.randint(2, 7)):
            prog['routines'].append(
                {'id': nid, 'clock': ck, 'free': False, 'seed': rng.randrange(1 << 30),
                 'body': [['y', rng.choice([0, 1 / 1024, 2 / 1024])], ['wait', c],
                          ['send', rng.choice([0, 0.2]), nid * 1000],
                          ['rand', 'rand', 100, None], ['y', 1 / 1024]]})
            nid += 1
        prog['routines'].append(
            {'id': nid, 'clock': ck, 'free': True, 'seed': None,
             'body': [['y', 8 / 1024], ['sig', c]]})
    if fam == 2 and rng.random() < 0.5:
        # a routine that is pending at exactly time t is paused and resumed at t
        # by a routine that runs before it, while a third one is also pending at
        # t: scheduling it again moves it behind the third one in both modes
        ck = g.single_clock
        nid = g.next_id
        a = rng.choice([2 / 1024, 5 / 1024, 10 / 1024])
        b = rng.choice([1 / 1024, 3 / 1024])
        mk = lambda i, extra: {'id': i, 'clock': ck, 'free': True,
                               'seed': rng.randrange(1 << 30),
                               'body': [['y', a]] + extra + [['y', b], ['send', 0, i * 1000 + 1]]}
        ctrl = [['pause', nid + 1], ['resume', nid + 1]]
        if ck == 0:
            # tempo clocks quantise a resume to the next whole beat unless told
            # otherwise: quant 0 = at the current beat (the tie with nid + 2);
            # or both are moved, in the opposite order, to wherever the quant says
            v = rng.randrange(3)
            if v == 0:
                ctrl = [['pause', nid + 1], ['resume', nid + 1, 0]]
            elif v == 1:
                q = rng.choice([0, 1])
                ctrl = [['pause', nid + 1], ['pause', nid + 2],
                        ['resume', nid + 2, q], ['resume', nid + 1, q]]
        if ck == 0 and rng.random() < 0.6:
            # ... and then the tempo changes: real-time queues are keyed in beats
            # and keep their order, the non-real-time scheduler re-keys them
            ctrl.append(['tempo', 0, rng.choice([1, 2, 4, 8])])
        prog['routines'].append(mk(nid, ctrl))
        prog['routines'].append(mk(nid + 1, [['send', 0.2, (nid + 1) * 1000]]))
        prog['routines'].append(mk(nid + 2, [['send', 0.2, (nid + 2) * 1000]]))
        if rng.random() < 0.5:
            prog['routines'].append(mk(nid + 3, [['stop', nid + 2]]))
    if fam in (1, 2) and g.single_clock == 0 and rng.random() < 0.4:
        # a child started on the bar grid (play with quant 4) asks for the next
        # bar at once: it IS on a bar line in logical time, whatever the
        # physical lateness of its wake-up
        nid = max([g.next_id] + [R['id'] + 10 for R in prog['routines']]) + 50
        child = {'id': nid + 1, 'clock': 0, 'free': True, 'seed': None, 'quant': 4,
                 'body': [['nextbar'], ['y', 1 / 1024], ['nextbar'], ['send', 0, (nid + 1) * 1000]]}
        prog['routines'].append({'id': nid, 'clock': 0, 'free': True, 'seed': None,
                                 'body': [['y', rng.choice([1 / 1024, 5 / 1024])],
                                          ['nextbar'], ['play', child]]})
    prog['family'] = ['multi-clock', 'single-clock-tempo-cond', 'single-clock-pause-resume'][fam]
    return prog


def normalize(run):
    """Per-routine sequences + sends, JSON-able."""
    per = {}
    for e in run.log:
        k = e[0]
        if k == 'res':
            per.setdefault(e[1], []).append(['res', e[2], e[3], e[4]])
        elif k in ('rand',):
            per.setdefault(e[1], []).append(['rand', e[2], e[3]])
        elif k == 'fval':
            per.setdefault(e[1], []).append(['fval', e[2], e[3]])
        elif k == 'call':
            per.setdefault(e[1], []).append(['call', e[2], e[3]])
        elif k in ('send', 'msg'):
            per.setdefault(e[1], []).append([k, e[2], e[-1]])
        elif k in ('pause', 'resume', 'stop'):
            per.setdefault(e[1], []).append([k, e[2], e[3], e[4]])
        elif k == 'nextbar':
            per.setdefault(e[1], []).append(['nextbar', e[2], e[3]])
        elif k in ('yinf', 'resumed-after-inf'):
            per.setdefault(e[1], []).append([k] + list(e[2:]))
        elif k in ('end', 'exc'):
            per.setdefault(e[1], []).append(list(e[:1]) + list(e[2:]))
        elif k in ('tempo', 'beats'):
            per.setdefault(e[1], []).append([k, e[2], e[3], e[4]])
        elif k == 'tick':
            # one task object on two clocks: a sequence per clock (the order
            # between two clock threads is physical)
            per.setdefault(f'{e[1]}.tick{e[2]}.{e[3]}', []).append(['tick', e[4]])
    return {str(k): v for k, v in per.items()}


def global_order(run):
    """Execution order of all logged events (routine id, kind): within one
    clock thread / in NRT it is fully determined by the program."""
    return [[e[1] if not isinstance(e[1], str) else -1, e[0]] for e in run.log
            if e[0] in ('res', 'send', 'msg', 'rand', 'sig', 'fset', 'end', 'tempo',
                        'pause', 'resume', 'stop')]


# ---------------------------------------------------------------------------
def run_nrt(spec, acc):
    from vf.prog import Run
    from vf import osc
    from sc3.base.main import main
    cfg = spec['shard']
    out = {}
    for i in range(cfg['first_case'], cfg['first_case'] + cfg['n']):
        prog = gen_program(spec['seed'], i)
        main.reset()
        r = Run(prog, 'nrt', tag=i % 20000)
        try:
            r.start()
            score = main.process()
            raw = bytes(score.raw)
            lst = score.list
        except Exception as e:
            out[str(i)] = {'error': short_tb(e)}
            acc.violation(f'C10/nrt-run-raised/{type(e).__name__}',
                          {'case': i, 'program': prog, 'tb': short_tb(e)})
            continue
        sends = []
        for b in lst:
            for m in b[1:]:
                if isinstance(m, list) and m and m[0] == '/vf':
                    sends.append([m[1] % 100000, b[0]])
        out[str(i)] = {'log': normalize(r), 'sends': sorted(sends),
                       'glog': global_order(r), 'raw_sha': hashlib.sha256(raw).hexdigest(), 'raw_len': len(raw),
                       'errors': [e[:2] for e in r.errors]}
        acc.case(h64(json.dumps(prog, sort_keys=True)), nontrivial=False)
        acc.count('nrt_runs')
    acc.extra['progs'] = out


def run_rt(spec, acc):
    import sys
    from vf.prog import Run
    from vf import osc
    from vf.inject import Injector
    from vf.props.C08 import clock_codes
    from sc3.base.main import main
    from sc3.base import clock as clk
    cfg = spec['shard']
    inj = Injector(clock_codes(), spec['seed'])
    inj.p_yield = cfg['p_yield']
    inj.start()
    if cfg['p_yield']:
        sys.setswitchinterval(5e-5)
    captured = []
    iface = main._osc_interface

    def rec_send(msg, target):
        captured.append(bytes(msg.dgram))
    iface._send = rec_send
    out = {}
    # "arbitrary physical jitter": slow tasks on AppClock (GUI-style work, 1-5 ms
    # each, every 10 ms) while the programs run on the other clocks
    import random as _random
    from sc3.base.functions import Function
    jr = _random.Random(spec['seed'] + 11)
    app_stop = [False]
    app_tasks = [0]

    def app_slow():
        time.sleep(jr.uniform(0.001, 0.005))
        app_tasks[0] += 1
        return None if app_stop[0] else 0.01
    clk.AppClock.sched(0, Function(app_slow))
    cases = list(range(cfg['first_case'], cfg['first_case'] + cfg['n']))
    try:
        t_stop = time.time() + cfg.get('secs', 600)
        for b0 in range(0, len(cases), cfg['batch']):
            if time.time() > t_stop:
                acc.count('rt_batches_not_started_in_time',
                          (len(cases) - b0 + cfg['batch'] - 1) // cfg['batch'])
                break
            batch = cases[b0:b0 + cfg['batch']]
            runs = []
            del captured[:]
            for i in batch:
                prog = gen_program(spec['seed'], i)
                runs.append((i, Run(prog, 'rt', tag=i % 20000), prog))
            at = (int(main.elapsed_time() * 1024) + 80) / 1024.0
            for _, r, _ in runs:
                r.start(at=at)
            # wait for quiescence: all programs done or every clock queue empty
            t0 = time.time()
            quiet = False
            while time.time() - t0 < 30:
                time.sleep(0.05)
                with main._main_lock:
                    alld = all(r.done for _, r, _ in runs)
                    if alld:
                        quiet = True
                        break
                    if time.time() - t0 > 0.5:
                        q = clk.SystemClock._task_queue.empty() and all(
                            c._task_queue.empty() for _, r, _ in runs for c in r.clocks
                            if c.running())
                        started = all(r.T0 is not None for _, r, _ in runs)
                        if q and started:
                            quiet = True
                            break
            time.sleep(0.02)
            with main._main_lock:
                caps = list(captured)
                snap = [(i, r, p) for i, r, p in runs]
            sends_by_tag = {}
            for d in caps:
                try:
                    pk = osc.decode(d)
                except osc.OscError:
                    continue
                if isinstance(pk, osc.Bundle):
                    for el in pk.elements:
                        if isinstance(el, osc.Msg) and el.addr == '/vf':
                            sends_by_tag.setdefault(el.args[0] // 100000, []).append(
                                [el.args[0] % 100000, pk.timetag])
                elif pk.addr == '/vf':
                    sends_by_tag.setdefault(pk.args[0] // 100000, []).append(
                        [pk.args[0] % 100000, None])
            for i, r, prog in snap:
                if not quiet:
                    out[str(i)] = {'inconclusive': 'batch not quiescent after 30 s'}
                    acc.count('rt_runs_not_quiescent')
                    r.stop_clocks()
                    continue
                off = clk.SystemClock.elapsed_time_to_osc(r.T0)
                sends = []
                for sid, tt in sends_by_tag.get(i % 20000, []):
                    sends.append([sid, None if tt is None else
                                  ('imm' if tt == 1 else (tt - off) / 2.0 ** 32)])
                out[str(i)] = {'log': normalize(r), 'sends': sorted(sends, key=lambda x: x[0]),
                               'glog': global_order(r), 'done': r.done, 'errors': [e[:2] for e in r.errors],
                               'max_late': r.max_late}
                acc.count('rt_runs')
                acc.maxi('max_rt_lateness_s', r.max_late)
                r.stop_clocks()
    finally:
        app_stop[0] = True
        acc.count('rt_slow_appclock_tasks', app_tasks[0])
        inj.stop()
        try:
            del iface._send
        except Exception:
            pass
    acc.count('injected_yields', inj.injected)
    acc.extra['progs'] = out
    acc.case(h64(('rt', cfg['name'])), nontrivial=False)


def run_seedind(spec, acc):
    from vf.prog import Gen, Run
    from vf.common import iter_cases, case_rng
    from sc3.base.main import main
    import copy
    for i in iter_cases(spec):
        rng = case_rng(spec['seed'], 'C10', 'seedind', i)
        # variant A: every routine has its own seed; variant B: only some do -
        # a routine without a seed shares the generator of the routine it was
        # created in (its family), and ended routines are reset and played
        # again by routines of other families
        family_variant = i % 2 == 1
        g = Gen(rng, rt_safe=False, nrt_only=True,
                features=('rand', 'call', 'replay') if family_variant else ('rand', 'call'))
        g.all_seeded = not family_variant
        prog = g.program()
        forced = None
        if family_variant and rng.random() < 0.6:
            # a seeded routine P creates an unseeded child C (C draws from P's
            # generator); C ends; a routine X of another family draws, then
            # resets and plays C again: C still draws from its own family
            nid = g.next_id
            C = {'id': nid + 1, 'clock': -1, 'free': True, 'seed': None,
                 'body': [['rand', 'rand', 100, None], ['y', 0.25],
                          ['rand', 'linrand', 100, None]]}
            P = {'id': nid, 'clock': -1, 'free': True, 'seed': rng.randrange(1 << 30),
                 'body': [['rand', 'rand', 100, None], ['play', C], ['y', 0.1],
                          ['rand', 'rand2', 100, None]]}
            X = {'id': nid + 2, 'clock': rng.choice([-1, -2]), 'free': True,
                 'seed': rng.choice([None, rng.randrange(1 << 30)]),
                 'body': [['rand', 'rand', 100, None], ['y', 1.0],
                          ['rand', 'rand', 100, None], ['replay', nid + 1],
                          ['rand', 'rand', 100, None]]}
            if X['seed'] is None:       # top level routines are seeded: wrap
                X = {'id': nid + 3, 'clock': -1, 'free': True,
                     'seed': rng.randrange(1 << 30),
                     'body': [['rand', 'rand', 100, None], ['play', X]]}
            prog['routines'] += [P, X]
            forced = nid + 1
        # collect routines with draws
        allr = []

        def walk(R):
            allr.append(R)
            for s in R['body']:
                if s[0] == 'play':
                    walk(s[1])
        for R in prog['routines']:
            walk(R)
        # family = nearest ancestor-or-self with a seed of its own
        fam = {}

        def walkf(R, f):
            f = R['id'] if R.get('seed') is not None else f
            fam[R['id']] = f
            for s in R['body']:
                if s[0] == 'play':
                    walkf(s[1], f)
        for R in prog['routines']:
            walkf(R, None)
        withrand = [R for R in allr if any(s[0] == 'rand' for s in R['body'])
                    and fam[R['id']] is not None]
        if not withrand or len(allr) < 2:
            continue
        target = rng.choice(withrand)['id'] if forced is None else forced
        prog2 = copy.deepcopy(prog)
        allr2 = []

        def walk2(R):
            allr2.append(R)
            for s in R['body']:
                if s[0] == 'play':
                    walk2(s[1])
        for R in prog2['routines']:
            walk2(R)
        changed = 0
        for R in allr2:
            if R['id'] == target or fam[R['id']] == fam[target]:
                continue        # draws of the target's own family are part of its stream
            # add and remove draws in the other routines
            nb = []
            for s in R['body']:
                if s[0] == 'rand' and rng.random() < 0.5:
                    changed += 1
                    continue
                nb.append(s)
                if rng.random() < 0.4:
                    nb.append(['rand', rng.choice(['rand', 'rand2', 'linrand']), 100, None])
                    changed += 1
            R['body'] = nb
        if not changed:
            continue
        draws = []
        for pg in (prog, prog2):
            main.reset()
            r = Run(pg, 'nrt', tag=i)
            try:
                r.start()
                main.process()
            except Exception as e:
                acc.violation(f'C10/nrt-run-raised/{type(e).__name__}',
                              {'case': i, 'program': pg, 'tb': short_tb(e)})
                draws = None
                break
            draws.append([e for e in r.log if e[0] == 'rand' and e[1] == target])
        if draws is None:
            continue
        acc.count('seed_independence_pairs')
        acc.count('seed_independence_pairs_family_variant', int(family_variant))
        acc.count('seed_independence_replays', sum(
            1 for e in r.log if e[0] == 'replay' and e[3] == 'replayed'))
        acc.case(h64(json.dumps([prog, prog2], sort_keys=True)), nontrivial=bool(draws[0]))
        if draws[0] != draws[1]:
            acc.violation('C10/seeded-routine-draws-depend-on-other-routines',
                          {'case': i, 'target': target, 'program': prog,
                           'variant': prog2, 'draws': draws})
        elif acc.want_sample():
            acc.sample({'seed_independence_case': i, 'target_routine': target,
                        'draws': draws[0][:4], 'other_routines_changed': changed})


def run_shard(spec, acc):
    kind = spec['shard']['kind']
    if kind == 'nrt':
        run_nrt(spec, acc)
    elif kind == 'rt':
        run_rt(spec, acc)
    else:
        run_seedind(spec, acc)


# ---------------------------------------------------------------------------
# driver side: differential comparison
# ---------------------------------------------------------------------------

TOL = 1e-9


def _close(a, b, tol=TOL):
    if isinstance(a, float) or isinstance(b, float):
        if a is None or b is None or isinstance(a, str) or isinstance(b, str):
            return a == b
        return abs(a - b) <= tol * max(1.0, abs(a), abs(b))
    if isinstance(a, list) and isinstance(b, list):
        return len(a) == len(b) and all(_close(x, y, tol) for x, y in zip(a, b))
    return a == b


def finalize(results, tier, seed):
    by = {}
    for r in results:
        sp = r['shard_spec']
        if sp['kind'] in ('nrt', 'rt') and r.get('ok'):
            by.setdefault(sp['group'], {})[sp['name'][:4].rstrip('0123456789')] = \
                (r.get('extra') or {}).get('progs', {})
    fin = {'violations': {}, 'counters': {}, 'evaluations': 0, 'nontrivial': [],
           'samples': [], 'inconclusive': []}

    def viol(key, w):
        ent = fin['violations'].setdefault(key, {'count': 0, 'witnesses': []})
        ent['count'] += 1
        if len(ent['witnesses']) < 3:
            ent['witnesses'].append({'witness': w, 'shard_spec': None})

    def cnt(k, n=1):
        fin['counters'][k] = fin['counters'].get(k, 0) + n

    for g, d in sorted(by.items()):
        A, B, R = d.get('nrtA'), d.get('nrtB'), d.get('rt')
        if A is None:
            fin['inconclusive'].append(f'group {g}: NRT reference shard missing')
            continue
        for i, a in A.items():
            if 'error' in a:
                continue
            prog = gen_program(seed, int(i))
            fam = prog['family']
            fin['evaluations'] += 1
            # --- determinism: two fresh NRT processes (different hash seeds) ---
            if B is not None and i in B and 'error' not in B[i]:
                b = B[i]
                cnt('programs_compared_nrt_nrt')
                if a['raw_sha'] != b['raw_sha']:
                    viol(f'C10/nrt-score-bytes-differ-between-fresh-runs/{fam}',
                         {'case': int(i), 'program': prog, 'a': a['sends'], 'b': b['sends']})
                elif a['log'] != b['log']:
                    viol(f'C10/nrt-log-differs-between-fresh-runs/{fam}',
                         {'case': int(i), 'program': prog})
                elif a['glog'] != b['glog']:
                    k = next((j for j, (x, y) in enumerate(zip(a['glog'], b['glog']))
                              if x != y), min(len(a['glog']), len(b['glog'])))
                    viol(f'C10/nrt-execution-order-differs-between-fresh-runs/{fam}',
                         {'case': int(i), 'program': prog, 'at': k,
                          'a': a['glog'][max(0, k - 3):k + 4],
                          'b': b['glog'][max(0, k - 3):k + 4]})
                cnt('global_order_entries_compared', len(a['glog']))
            # --- RT vs NRT ---
            if R is None or i not in R:
                continue
            r = R[i]
            if 'inconclusive' in r:
                cnt('rt_programs_inconclusive')
                continue
            cnt('programs_compared_rt_nrt')
            nrout = len(a['log'])
            nyield = sum(1 for v in a['log'].values() for e in v if e[0] == 'res')
            if nrout >= 2 and nyield >= 5:
                fin['nontrivial'].append(h64(json.dumps(prog, sort_keys=True)))
            bad = None
            for rid in sorted(set(a['log']) | set(r['log'])):
                la, lr = a['log'].get(rid, []), r['log'].get(rid, [])
                cnt('log_entries_compared', max(len(la), len(lr)))
                if len(la) != len(lr):
                    bad = (rid, f'routine {rid}: NRT logged {len(la)} entries, RT {len(lr)}',
                           la[:12], lr[:12])
                    break
                for k, (x, y) in enumerate(zip(la, lr)):
                    if not _close(x, y):
                        bad = (rid, f'routine {rid} entry {k}: NRT {x} RT {y}',
                               la[max(0, k - 3):k + 2], lr[max(0, k - 3):k + 2])
                        break
                if bad:
                    break
            if bad:
                kinds = sorted({e[0] for e in (bad[2] + bad[3])[-3:]})
                viol(f"C10/rt-nrt-log-differs/{fam}/{'+'.join(kinds)}",
                     {'case': int(i), 'program': prog, 'why': bad[1],
                      'nrt': bad[2], 'rt': bad[3], 'rt_errors': r.get('errors'),
                      'nrt_errors': a.get('errors')})
                continue
            # single-clock programs run on one thread: execution order is determined
            if fam != 'multi-clock' and prog['routines'] and \
                    len({R['clock'] for R in prog['routines']}) == 1:
                cnt('global_order_compared_rt_nrt')
            if fam != 'multi-clock' and prog['routines'] and \
                    len({R['clock'] for R in prog['routines']}) == 1 \
                    and a['glog'] != r.get('glog'):
                g2 = r.get('glog') or []
                k = next((j for j, (x, y) in enumerate(zip(a['glog'], g2)) if x != y),
                         min(len(a['glog']), len(g2)))
                viol(f'C10/rt-nrt-execution-order-differs/{fam}',
                     {'case': int(i), 'program': prog, 'at': k,
                      'nrt': a['glog'][max(0, k - 3):k + 4], 'rt': g2[max(0, k - 3):k + 4]})
                continue
            # sends: same ids; NRT time == RT relative timetag (or immediate)
            sa = {s[0]: s[1] for s in a['sends']}
            sr = {s[0]: s[1] for s in r['sends']}
            cnt('sends_compared', len(sa))
            if sorted(sa) != sorted(sr) or len(a['sends']) != len(r['sends']):
                viol(f'C10/rt-nrt-bundles-differ/{fam}',
                     {'case': int(i), 'program': prog, 'nrt': a['sends'], 'rt': r['sends']})
                continue
            # send log gives latency: find immediates
            for sid, t_n in sa.items():
                t_r = sr[sid]
                if t_r in (None, 'imm'):
                    continue
                if abs(t_n - t_r) > 1e-9 + 2 ** -31 + 1e-9 * abs(t_n):
                    viol(f'C10/rt-nrt-bundle-time-differs/{fam}',
                         {'case': int(i), 'program': prog, 'id': sid, 'nrt': t_n, 'rt': t_r})
                    break
            if len(fin['samples']) < 2 and nrout >= 2 and len(json.dumps(prog)) < 900:
                fin['samples'].append({'case': int(i), 'program': prog,
                                       'nrt_log': a['log'], 'rt_log': r['log']})
    return fin
