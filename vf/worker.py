"""Worker subprocess entry: python -m vf.worker <spec.json>

Initialises sc3 (from $VERIF_REPO) in the mode the shard asks for and runs
vf.props.<prop>.run_shard(spec, acc).  Always writes a result file; an
exception escaping run_shard is reported as an *internal error* (the driver
turns that into INCONCLUSIVE, never into a verdict about the property).
"""

import faulthandler
import importlib
import json
import os
import sys
import threading
import time


def main():
    spec = json.load(open(sys.argv[1]))
    out = spec['out']
    from vf.common import Acc, REPO, short_tb
    shard = spec['shard']
    acc = Acc(spec['prop'], shard['name'], spec['seed'], spec['tier'])
    result = None
    # wall-clock watchdog: dumps stacks and exits; the driver sees no/partial
    # result -> inconclusive shard.
    hard = float(shard.get('hard_timeout', 600))
    faulthandler.enable()
    faulthandler.dump_traceback_later(hard, exit=True)

    def partial():
        # a few seconds before the hard time-out: what the monitors have seen so
        # far, so that violations observed by a shard that then hangs are not lost
        # (ok=False: its counters never count towards "held")
        for _ in range(20):
            try:
                r = acc.dump()
                break
            except RuntimeError:
                time.sleep(0.01)
        else:
            return
        r['ok'] = False
        r['internal_error'] = (f'hard time-out of {hard:.0f} s: partial result written '
                               'by the worker watchdog')
        try:
            with open(out + '.partial', 'w') as f:
                json.dump(r, f)
            if not os.path.exists(out):
                os.replace(out + '.partial', out)
        except Exception:
            pass
    wd = threading.Timer(max(1.0, hard - 8.0), partial)
    wd.daemon = True
    wd.start()
    cov = None
    if os.environ.get('VF_COV_DIR'):
        # coverage survey (tooling, `python -m vf.covsurvey`): which lines of the
        # library the workloads reach.  Never set by ./check itself.
        import coverage
        cov = coverage.Coverage(
            data_file=os.path.join(os.environ['VF_COV_DIR'], f".cov.{spec['prop']}"),
            data_suffix=True, source=[os.path.join(REPO, 'sc3')],
            concurrency=['thread'], config_file=False)
        cov.start()
    try:
        mode = shard.get('mode', 'nrt')
        if mode in ('rt', 'nrt'):
            import sc3
            assert os.path.realpath(sc3.__file__).startswith(
                os.path.realpath(REPO) + os.sep), (sc3.__file__, REPO)
            if mode == 'rt':
                base = int(shard.get('port_base', 0)) or (
                    20000 + (os.getpid() * 61) % 30000)
                sc3.LIB_PORT = base
                sc3.LIB_PORT_RANGE = 50
            sc3.init(mode, verbosity=shard.get('verbosity', 'CRITICAL'),
                     blocking=True)
        mod = importlib.import_module('vf.props.' + spec['prop'])
        mod.run_shard(spec, acc)
        result = acc.dump()
        result['ok'] = True
    except BaseException as e:  # noqa
        result = acc.dump()
        result['ok'] = False
        result['internal_error'] = short_tb(e, 12)
    finally:
        faulthandler.cancel_dump_traceback_later()
        wd.cancel()
        if cov is not None:
            try:
                cov.stop()
                cov.save()
            except Exception:
                pass
        tmp = out + '.tmp'
        with open(tmp, 'w') as f:
            json.dump(result, f)
        os.replace(tmp, out)
    sys.stdout.flush()
    sys.stderr.flush()
    # RT mode leaves non-daemon clock threads; do not wait for them.
    os._exit(0)


if __name__ == '__main__':
    main()
