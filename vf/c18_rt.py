"""C18 real-time shard: responder operations CONCURRENT with incoming datagrams.

The harness thread creates / enables / disables / frees / one-shots responders,
replaces their functions, toggles `permanent` and runs CmdPeriod WHILE datagrams
it has just sent over loop-back UDP (or written to a TCP connection of the
library) are received by the library's receive thread and dispatched by the
SystemClock thread.  A schedule injector (vf/inject.py, random yields at
statement boundaries of the dispatcher / responder / registry code, in
whichever thread executes them) widens the set of interleavings; threads are
preemptive, so no interleaving is produced that the program could not have.

Interval semantics.  A global counter stamps: start a / end b of every
operation (harness thread), the send s of every datagram (before the socket
call), and every callback invocation and raw delivery (clock thread).  The
dispatch of message m is over at e(m) = the first stamp of anything observed
for a LATER datagram of the same transport (one socket / one connection is
FIFO and the clock thread dispatches one message after the other), at the
latest the sentinel that closes the round.  Then

  * operations with b < s(m) completed before m was sent: must be visible;
  * operations with a > e(m) started after m's dispatch: must not matter;
  * the others are concurrent with m: m may see any prefix of them.

So m sees responder r in one of the model states S[i..j] (i = operations
completed before s, j = operations started before e); r must be invoked if
every state says 'must', must stay silent if every state says 'not', else
either.  One-shot firing is followed with a set of possible worlds per
responder (fired / not fired), narrowed by every later message; an empty set
is the violation.  A message concurrent with CmdPeriod.run() (which clears the
SystemClock queue) may be dropped as a whole.  Nothing may be invoked twice,
per-path registration order holds for responders no concurrent operation
touches, nothing may be logged as raised by the clock or the receive threads,
no operation may raise, and the sentinel of every round must arrive.

Domain restrictions (soundness): enable() is not generated for a one-shot
responder that was enabled at any time of the current round (it may have
fired and freed itself: enable() after free() is outside the documentation);
responder functions do not raise and perform no operations here (the
sequential shard does both); one transport per round."""

import collections
import itertools
import sys
import threading
import time

from . import osc
from . import c18_gen as gen
from .c18_hist import HistoryRunner, Stop, _j
from .c18_rig import same_value, tb_sites, exc_name, CANARY
from .common import short_tb

SENTINEL = '/__vf/rt'
UID0 = 1000000

# Functions that keep the responder tables (dispatcher lists, the 'function'
# notification, the CmdPeriod registration, the class-level set).  A KeyError /
# ValueError raised by one of them - in the clock thread or in the operating
# thread - while an operation runs concurrently with a dispatch is the same
# mechanism whichever of them notices it first: a removal / replacement that
# two threads perform on the same tables without excluding each other.
BOOKKEEPING = {'NotificationCenter.unregister', 'SystemAction.remove',
               'SystemAction._do_action', 'AbstractWrappingDispatcher.remove',
               'AbstractWrappingDispatcher.add',
               'AbstractWrappingDispatcher.update_func_for_func_proxy',
               'AbstractWrappingDispatcher._entry_index',   # (proposed fix C18-shared-function-order)
               'AbstractResponderFunc.free', 'AbstractResponderFunc.disable'}


def raise_key(side, exc, site, opname=None):
    if exc in ('KeyError', 'ValueError', 'IndexError') and site in BOOKKEEPING:
        return 'C18/concurrent/unsynchronised-responder-bookkeeping'
    if side == 'op':
        return f'C18/concurrent/op-raises/{opname}/{exc}/{site}'
    return f'C18/concurrent/dispatch-raises/{exc}/{site}'


def inner_codes(code):
    out = []
    for c in code.co_consts:
        if hasattr(c, 'co_code'):
            out.append(c)
            out.extend(inner_codes(c))
    return out


def injector_codes():
    """Code objects of the dispatch path, the responder operations and the
    registries they use."""
    from .inject import func_code
    from sc3.base import responders as rpd, _oscinterface as osci
    from sc3.base import systemactions as sac, model as mdl
    A, W, D, P = (rpd.AbstractResponderFunc, rpd.AbstractWrappingDispatcher,
                  rpd.OscMessageDispatcher, rpd.OscMessagePatternDispatcher)
    fs = [D.__call__, P.__call__, W.add, W.remove, W.update_func_for_func_proxy,
          D.wrap_func, D.register, D.unregister, D.get_keys_for_func_proxy,
          A.enable, A.disable, A.free, A.one_shot, A._one_shot_func,
          A.func.fset, A.permanent.fset, A._AbstractResponderFunc__on_cmd_period,
          rpd.OscFunc.__init__, rpd.OscArgsMatcher.__call__,
          rpd.OscFuncAddrMessageMatcher.__call__,
          osci.OscInterface._msg_dispatch, osci.OscInterface._handle_request,
          osci.OscInterface.add_recv_func, osci.OscInterface.remove_recv_func,
          sac.SystemAction.add, sac.SystemAction.remove, sac.SystemAction._do_action,
          sac.CmdPeriod.run,
          mdl.NotificationCenter.notify, mdl.NotificationCenter.register,
          mdl.NotificationCenter.unregister,
          mdl.NotificationCenter.registration_exists]
    codes = []
    for f in fs:
        c = func_code(f)
        codes.append(c)
        codes.extend(inner_codes(c))
    return codes


class RtRig:
    """Per worker: stamped observation of deliveries, the two transports."""

    def __init__(self, rig, acc):
        self.rig, self.acc, self.main = rig, acc, rig.main
        self.stamp = itertools.count(1)
        self.log = collections.deque()
        self.sent_ev = threading.Event()
        self.sent_seq = 0
        self.sent_stamps = {}
        self.uid = UID0
        self.udp_addr = tuple(rig.udp_client())
        self.peer = None
        rig.main.add_osc_recv_func(self._raw)

    def _raw(self, msg, time_, addr, port):
        st = next(self.stamp)
        if msg and msg[0] == SENTINEL:
            self.sent_stamps[msg[1]] = st
            if msg[1] == self.sent_seq:
                self.sent_ev.set()
            return
        if msg and msg[0] == CANARY:
            return
        self.log.append((st, 'raw', list(msg), time_, (addr.hostname, addr.port), port))

    def connect_tcp(self):
        # (other programs hold the first local port(s) the connection would
        # take: its receive port is a later one of the range, and it is the
        # kernel of the accepting side that says which - Peer.port)
        from .c18_tcp import Peer
        if self.peer is not None:
            self.peer.close()
        self.n_tcp = getattr(self, 'n_tcp', 0) + 1
        self.peer = Peer(self.rig, block=1 + self.n_tcp % 2, explicit=self.n_tcp % 3 == 0)
        if self.peer.ok and self.peer.walked:
            self.acc.count('rt_tcp_connections_behind_held_ports')
        return self.peer.ok

    def endpoint(self, transport):
        """-> (sender address the library will see, receive port)"""
        if transport == 'tcp':
            return tuple(self.peer.addr), self.peer.port
        return self.udp_addr, self.rig.port

    def send(self, d, transport):
        if transport == 'tcp':
            from .c18_tcp import frame
            self.peer.conn.sendall(frame(d))
        else:
            self.rig.sock.sendto(d, ('127.0.0.1', self.rig.port))

    def reset_after_violation(self, runner):
        """The tables may be inconsistent after the defect just reported and
        datagrams of the stopped round may still be in flight: give the next
        history fresh default dispatchers (a documented class attribute), take
        every dispatcher of the stopped one out of the receive functions and
        let both transports drain."""
        from sc3.base import responders as rpd, _oscinterface as osci
        from sc3.base.systemactions import CmdPeriod
        try:
            for f in list(osci.OscInterface._recv_functions):
                if isinstance(f, rpd.AbstractDispatcher):
                    osci.OscInterface._recv_functions.discard(f)
                    f.registered = False
            rpd.OscFunc._default_dispatcher = rpd.OscMessageDispatcher()
            rpd.OscFunc._default_matching_dispatcher = rpd.OscMessagePatternDispatcher()
            mine = {id(o) for o in runner.objs.values()}
            for a in list(CmdPeriod._actions):
                if id(getattr(a, '__self__', None)) in mine:
                    CmdPeriod._actions.pop(a, None)
            for obj in runner.objs.values():
                obj.enabled = False
                rpd.OscFunc._all_func_proxies.discard(obj)
        except Exception:
            self.acc.count('rt_reset_after_violation_failed')
        self.quiesce('udp')
        if self.peer is not None and self.peer.ok and self.peer.alive():
            if self.quiesce('tcp') is None:
                self.peer.ok = False
        self.log.clear(); self.rig.errs.clear()

    def quiesce(self, transport):
        """Sentinel behind everything sent so far -> its stamp (None: the
        receiver did not deliver it)."""
        for timeout in (5.0, 5.0, 30.0):
            self.sent_seq += 1
            self.sent_ev.clear()
            try:
                self.send(osc.enc_msg(SENTINEL, self.sent_seq), transport)
            except OSError:
                return None
            if self.sent_ev.wait(timeout):
                return self.sent_stamps[self.sent_seq]
            self.acc.count('rt_sentinel_retries')
        return None


class RtRunner(HistoryRunner):
    def __init__(self, rt, model, rng, acc, case):
        super().__init__(rt.rig, model, rng, acc, case, udp=True)
        rt.rig.on_invoke = None
        self.rt = rt
        self.senders = [rt.udp_addr]
        if rt.peer is not None:
            pa = tuple(rt.peer.addr)
            self.senders.append(pa)
            self.src_pool = self.src_pool + [pa, (pa[0], None)]
            self.ports = self.ports + [rt.peer.port]
        self.ports_usable = False      # one transport end point per round
        self.round_no = 0
        self.round_info = None
        self.clock_step = False
        self.last_touched = None
        self.feat = dict(self.feat, concurrent=0, must=0, rounds=0, tcp=0)

    # ------------------------------------------------------------ real side
    def make_cb(self, rid, ver, nparams):
        log, stamp = self.rt.log, self.rt.stamp

        def record(msg, time_=None, addr=None, port=None):
            log.append((next(stamp), 'inv', rid, ver, list(msg), time_,
                        None if addr is None else (addr.hostname, addr.port), port))
        if nparams == 4:
            def cb(msg, time, addr, port):
                record(msg, time, addr, port)
        elif nparams == 3:
            def cb(msg, time, addr):
                record(msg, time, addr)
        elif nparams == 'var':
            def cb(*args):
                record(*args)
        elif nparams == 2:
            def cb(msg, time):
                record(msg, time)
        else:
            def cb(msg):
                record(msg)
        return cb

    def _new_spec(self):
        spec = super()._new_spec()
        spec.pop('raises', None)
        return spec

    # ------------------------------------------------------------ reporting
    def violation(self, key, **w):
        if not key.startswith('C18/concurrent/'):
            key = 'C18/concurrent/' + key[4:]
        if self.clock_step:
            self.acc.mark_inconclusive('host clock stepped during a real-time round')
            raise Stop(key)
        w.update({'case': self.case, 'round': self.round_no,
                  'round_info': self.round_info, 'history': self.log[-30:],
                  'responders': [r.describe() for r in self.model.resps.values()][:20]})
        self.acc.violation(key, w)
        raise Stop(key)

    # ------------------------------------------------------------ a round
    def pick_op(self, states, enabled_in_round):
        rng, m = self.rng, self.model
        alive = [r for r in m.resps.values() if not r.freed]
        weights = {'create': 3.0 if len(alive) < 8 else 0.0, 'free': 2.0, 'disable': 1.5,
                   'enable': 2.0, 'one_shot': 1.5, 'set_func': 1.5, 'set_perm': 0.5,
                   'cmd_period': 0.25}
        names, ws = zip(*weights.items())
        for _ in range(8):
            name = rng.choices(names, ws)[0]
            if name == 'create':
                return ('create', self._new_spec())
            if name == 'cmd_period':
                return ('cmd_period',)
            if not alive:
                continue
            if name == 'enable':
                s0 = states[0].resps
                cands = [r for r in alive if not r.enabled and (
                    not r.one_shot or (r.rid in s0 and not s0[r.rid].enabled
                                       and r.rid not in enabled_in_round))]
            elif name == 'disable':
                cands = [r for r in alive if r.enabled]
            else:
                cands = alive
            if not cands:
                continue
            # prefer responders that share a path with others (order, removal)
            t = rng.choice(cands)
            if name == 'set_perm':
                return ('set_perm', t.rid, rng.random() < 0.7)
            return (name, t.rid)
        return ('create', self._new_spec())

    def round(self, transport, quiet=False, probes=None):
        rt, rng, m, acc = self.rt, self.rng, self.model, self.acc
        rig = rt.rig
        self.round_no += 1
        states = [m.clone()]
        ops, msgs = [], []
        enabled_in_round = set()
        rt.log.clear(); rig.errs.clear(); rig.raw.clear(); rig.inv.clear()
        rig.pred.clear()
        sender, port = rt.endpoint(transport)
        if probes is not None:
            plan = [('probe', p) for p in probes]
        else:
            plan = ['msg'] * rng.randint(3, 9)
            if not quiet:
                plan += ['op'] * rng.choice([1, 1, 2, 2, 3, 4])
            rng.shuffle(plan)
            if rng.random() < 0.7:
                plan.insert(0, 'msg')          # judged against the state before
        self.round_info = {'transport': transport}
        w0, m0 = time.time(), time.monotonic()
        t0 = rt.main.elapsed_time()
        first = True
        for step in plan:
            if step == 'op':
                op = self.pick_op(states, enabled_in_round)
                self.log.append(['op', _j(op)])
                a = next(rt.stamp)
                try:
                    done = self._real_op(op)
                except Exception as e:
                    self.round_info['ops'] = [_j(o[2]) for o in ops] + [_j(op)]
                    sites = tb_sites(e)
                    where = sites[-1][1] if sites else 'harness'
                    self._logged_errors()       # a raise in the clock thread names the cause
                    self.violation(raise_key('op', exc_name(e), where, op[0]),
                                   raised_in='operation ' + op[0], exc=exc_name(e),
                                   site=where, tb=short_tb(e))
                b = next(rt.stamp)
                self.check_failed_residue()     # a creation that had to fail
                if done:
                    self._model_op(op)
                    acc.count('rt_ops/' + op[0])
                    if op[0] == 'create':
                        enabled_in_round.add(op[1]['rid'])
                        self.last_touched = op[1]['rid']
                    elif op[0] != 'cmd_period':
                        self.last_touched = op[1]
                        if op[0] == 'enable':
                            enabled_in_round.add(op[1])
                    ops.append((a, b, op))
                    states.append(m.clone())
            else:
                target = None
                if first and self.last_touched is not None:
                    r = m.resps.get(self.last_touched)
                    if r is not None and r.enabled:
                        target = r
                first = False
                if isinstance(step, tuple):
                    batch = [(step[1], [1, 'probe'])]
                else:
                    batch = [self.gen_for(target)]
                    if rng.random() < 0.2:
                        batch.append(self.gen_for(None))
                recs = []
                for addr, args in batch:
                    rt.uid += 1
                    recs.append({'uid': rt.uid, 'addr': addr, 'args': list(args) + [rt.uid]})
                if len(recs) == 1:
                    d = osc.enc_msg(recs[0]['addr'], *recs[0]['args'])
                else:
                    d = osc.enc_bundle(1, *[osc.enc_msg(x['addr'], *x['args']) for x in recs])
                s = next(rt.stamp)
                try:
                    rt.send(d, transport)
                except OSError as e:
                    acc.count('rt_send_errors')
                    if transport == 'tcp':
                        rt.peer.ok = False
                    break
                for x in recs:
                    x['s'] = s
                    msgs.append(x)
                self.log.append(['dgram', [[x['addr']] + _j(x['args']) for x in recs]])
            k = rng.random()
            if k < 0.3:
                time.sleep(0)
            elif k < 0.45:
                time.sleep(rng.uniform(0, 0.0005))
        sent = rt.quiesce(transport)
        t1 = rt.main.elapsed_time()
        w1, m1 = time.time(), time.monotonic()
        self.clock_step = abs((w1 - w0) - (m1 - m0)) > 0.005
        self.round_info = {'transport': transport, 'ops': [[a, b, _j(op)] for a, b, op in ops],
                           'msgs': [[x['s'], x['addr']] + _j(x['args']) for x in msgs]}
        acc.count('rt_rounds')
        acc.count('rt_rounds/' + transport)
        self.feat['rounds'] += 1
        # what the template predicates were evaluated with (before the error
        # log: a predicate given a foreign value may have raised)
        self.check_predicate_calls(list(rig.pred), [x['args'] for x in msgs])
        self._logged_errors()
        if sent is None:
            alive = rt.peer.alive() if transport == 'tcp' else rig.itf._udp_thread.is_alive()
            self.violation('C18/concurrent/receiver-dead/' + transport,
                           receive_thread_alive=alive)
        self.judge(states, ops, msgs, sender, port, t0, t1, sent, transport)

    def gen_for(self, target):
        """(addr, args) of one message; target: a responder it should reach."""
        rng = self.rng
        if target is not None:
            addr = gen.pattern_for(rng, target.path) if target.kind == 'match' \
                and rng.random() < 0.5 else target.path
            return addr, gen.args_for_template(rng, target.template)
        addr, args, _, _ = self._gen_message()
        return addr, list(args)

    def _logged_errors(self):
        """Anything the clock / receive threads logged as an error."""
        errs = list(self.rt.rig.errs)
        if not errs:
            return
        e = errs[0]
        if e['exc']:
            site = e['sites'][-1][1] if e['sites'] else e['logger']
            self.violation(raise_key('dispatch', e['exc'], site),
                           raised_in='dispatch (clock thread)', exc=e['exc'], site=site,
                           err=e, n_errors=len(errs))
        self.violation(f"C18/concurrent/receiver-error/{e['logger']}", err=e)

    # ------------------------------------------------------------ the oracle
    def judge(self, states, ops, msgs, sender, port, t0, t1, sent, transport):
        acc, feat = self.acc, self.feat
        entries = list(self.rt.log)
        by_uid = {x['uid']: {'raw': [], 'inv': []} for x in msgs}
        for ent in entries:
            msg = ent[2] if ent[1] == 'raw' else ent[4]
            uid = msg[-1] if len(msg) > 1 else None
            slot = by_uid.get(uid) if isinstance(uid, int) else None
            if slot is None:
                self.violation('C18/concurrent/' + ('delivered-unknown-message'
                               if ent[1] == 'raw' else 'invocation-for-unknown-message'),
                               entry=_j(list(ent))[:6])
            slot[ent[1]].append(ent)
        # e(m): first stamp observed for anything sent later
        e_of = [None] * len(msgs)
        running = sent
        for q in range(len(msgs) - 1, -1, -1):
            e_of[q] = running
            slot = by_uid[msgs[q]['uid']]
            for ent in slot['raw'] + slot['inv']:
                if ent[0] < running:
                    running = ent[0]
        # stamps of operations during which something was invoked (evidence)
        for a, b, op in ops:
            if any(a < ent[0] < b for ent in entries):
                acc.count('rt_ops_overlapping_a_dispatch')
        rids = sorted({rid for st in states for rid in st.resps})
        worlds = {rid: {False} for rid in rids}
        fired = set()
        for q, x in enumerate(msgs):
            s, e = x['s'], e_of[q]
            i = sum(1 for a, b, op in ops if b < s)
            j = sum(1 for a, b, op in ops if a < e)
            window = ops[i:j]
            cp = any(op[0] == 'cmd_period' for _, _, op in window)
            touched = set()
            for _, _, op in window:
                if op[0] == 'create':
                    touched.add(op[1]['rid'])
                elif op[0] != 'cmd_period':
                    touched.add(op[1])
            addr, args = x['addr'], x['args']
            slot = by_uid[x['uid']]
            acc.count('rt_messages')
            acc.count('rt_messages/' + transport)
            if j > i:
                acc.count('rt_messages_concurrent_with_op')
                feat['concurrent'] += 1
            w = {'msg': [addr] + _j(args), 'sent_at': s, 'dispatch_over_by': e,
                 'ops_completed_before': i, 'ops_started_before_end': j}
            # -- delivery to a plain receive function
            if len(slot['raw']) > 1:
                self.violation('C18/concurrent/message-delivered-twice', **w)
            if not slot['raw']:
                if cp:
                    acc.count('rt_open/dropped-by-concurrent-cmdperiod')
                else:
                    self.violation('C18/concurrent/message-not-delivered/' + transport, **w)
            for ent in slot['raw']:
                _, _, rmsg, rtime, raddr, rport = ent
                if not (rmsg[0] == addr and same_value(rmsg[1:], args)):
                    self.violation('C18/concurrent/wrong-args/msg', got=_j(rmsg), **w)
                if not (isinstance(rtime, float) and t0 - 1e-6 <= rtime <= t1 + 1e-6):
                    self.violation('C18/concurrent/wrong-args/time', got=rtime, t0=t0, t1=t1, **w)
                if rport != port:
                    self.violation('C18/concurrent/recv-port/not-the-port-the-datagram-'
                                   'arrived-on/' + transport, got=rport, arrived_on=port, **w)
                if tuple(raddr) != tuple(sender) or rport != port:
                    self.violation('C18/concurrent/wrong-args/sender-or-port',
                                   got=[raddr, rport], expected=[sender, port], **w)
            # -- responders
            counts = {}
            for ent in slot['inv']:
                counts[ent[2]] = counts.get(ent[2], 0) + 1
            for rid in counts:
                if rid not in worlds:
                    self.violation('C18/concurrent/unexpected-invocation/unknown-responder',
                                   rid=rid, **w)
            for rid in rids:
                c = counts.get(rid, 0)
                vs = []
                for k in range(i, j + 1):
                    r = states[k].resps.get(rid)
                    if r is None:
                        vs.append(('not', False))
                    else:
                        vs.append((states[k].verdict(r, addr, args, sender, port),
                                   r.one_shot))
                last = next((states[k].resps[rid] for k in range(j, -1, -1)
                             if rid in states[k].resps), None) or states[-1].resps[rid]
                if c > 1:
                    self.violation(f'C18/concurrent/invoked-twice/{last.kind}', rid=rid,
                                   count=c, **w)
                new = set()
                for wd in worlds[rid]:
                    if wd:
                        if c == 0:
                            new.add(True)
                        continue
                    for v, one in vs:
                        if c == 1 and v in ('must', 'either'):
                            new.add(bool(one))
                        if c == 0 and (v in ('not', 'either') or cp):
                            new.add(False)
                kinds = {v for v, _ in vs}
                if kinds == {'must'} and not cp and False in worlds[rid]:
                    acc.count('rt_verdicts/must')
                    feat['must'] += 1 if c == 1 else 0
                elif kinds == {'not'}:
                    if any(states[k].resps[rid].enabled for k in range(i, j + 1)
                           if rid in states[k].resps):
                        acc.count('rt_verdicts/not-although-enabled')
                elif len(kinds) > 1 or cp:
                    acc.count('rt_verdicts/open-by-concurrency')
                if not new:
                    if c == 1 and worlds[rid] == {True}:
                        why = 'invoked-after-one-shot-fired'
                    elif c == 1:
                        r0 = states[i].resps.get(rid)
                        why = 'before-it-was-created' if r0 is None else \
                            states[i].why_not(r0, addr, args, sender, port)
                    else:
                        why = last.kind
                    self.violation('C18/concurrent/' + ('unexpected-invocation/' if c
                                   else 'missed-invocation/') + why, rid=rid,
                                   verdicts_in_window=[v for v, _ in vs],
                                   worlds=sorted(worlds[rid]),
                                   invoked=[ent[2] for ent in slot['inv']],
                                   responder=last.describe(), **w)
                if c == 1 and True in new:
                    fired.add(rid)
                worlds[rid] = new
            acc.count('rt_invocations_checked', len(slot['inv']))
            # -- arguments, function version
            for ent in slot['inv']:
                _, _, rid, ver, msg, time_, a, p = ent
                allowed = {states[k].resps[rid].fver for k in range(i, j + 1)
                           if rid in states[k].resps}
                if ver not in allowed:
                    self.violation('C18/concurrent/wrong-function-version', rid=rid, got=ver,
                                   allowed=sorted(allowed), **w)
                if not (msg[0] == addr and same_value(msg[1:], args)):
                    self.violation('C18/concurrent/wrong-args/msg', got=_j(msg), **w)
                if time_ is not None and not (isinstance(time_, float)
                                              and t0 - 1e-6 <= time_ <= t1 + 1e-6):
                    self.violation('C18/concurrent/wrong-args/time', got=time_, **w)
                if a is not None and (tuple(a) != tuple(sender)
                                      or (p is not None and p != port)):
                    self.violation('C18/concurrent/wrong-args/sender-or-port', got=[a, p],
                                   expected=[sender, port], **w)
            # -- per-path registration order (responders no concurrent op touches)
            if not cp:
                seq = [ent[2] for ent in slot['inv'] if ent[2] not in touched
                       and ent[2] in states[i].resps]
                for u in range(len(seq)):
                    for v in range(u + 1, len(seq)):
                        if seq[u] == seq[v]:
                            continue
                        if states[i].order_constrained(seq[v], seq[u]):
                            self.violation('C18/concurrent/order/'
                                           + states[i].resps[seq[u]].kind, got=seq,
                                           path=states[i].resps[seq[u]].path, **w)
                        elif states[i].order_constrained(seq[u], seq[v]):
                            acc.count('rt_order_pairs_checked')
        # -- quiescent: follow the observation, compare the public flags
        m = self.model
        for rid in rids:
            r = m.resps.get(rid)
            obj = self.objs.get(rid)
            if r is None or obj is None:
                continue
            wd = worlds[rid]
            if wd == {True} or (wd == {True, False} and r.enabled and not obj.enabled):
                if wd != {True}:
                    acc.count('rt_open/one-shot-firing-resolved-by-flag')
                if not r.spent:
                    m.fired(rid)
                    acc.count('rt_one_shots_fired')
            elif wd == {True, False} and not r.freed:
                # disabled by now and nobody can tell whether it fired (and
                # freed itself) first: retire it, with nothing in flight
                acc.count('rt_open/ambiguous-one-shot-retired')
                try:
                    obj.free()
                except Exception as e:
                    sites = tb_sites(e)
                    self.violation(raise_key('op', exc_name(e), sites[-1][1] if sites
                                             else 'harness', 'free'),
                                   raised_in='operation free (nothing in flight)',
                                   tb=short_tb(e), quiescent=True)
                m.free(rid)
        self.check_enabled_flags('after-round')

    # ------------------------------------------------------------ driver
    def run(self, transports):
        rng, m = self.rng, self.model
        try:
            for _ in range(rng.randint(1, 4)):
                op = ('create', self._new_spec())
                self.log.append(['op', _j(op)])
                if self._real_op(op):
                    self._model_op(op)
                self.check_failed_residue()
            for _ in range(rng.randint(3, 10)):
                tr = rng.choice(transports)
                if tr == 'tcp' and not (self.rt.peer.ok and self.rt.peer.alive()):
                    tr = 'udp'
                if tr == 'tcp':
                    self.feat['tcp'] += 1
                self.round(tr)
            # epilogue: everything freed (nothing in flight) must stay silent
            for r in list(m.resps.values()):
                if not r.freed:
                    op = ('free', r.rid)
                    self.log.append(['op', _j(op)])
                    try:
                        self._real_op(op)
                    except Exception as e:
                        sites = tb_sites(e)
                        self.violation(raise_key('op', exc_name(e), sites[-1][1] if sites
                                                 else 'harness', 'free'),
                                       raised_in='operation free (nothing in flight)',
                                       tb=short_tb(e), quiescent=True)
                    self._model_op(op)
            self.check_enabled_flags('after-free-all')
            self.round('udp', probes=sorted({r.path for r in m.resps.values()}))
            self.acc.count('rt_epilogue_rounds')
            from sc3.base.systemactions import CmdPeriod
            mine = {id(o) for o in self.objs.values()}
            left = [a for a in list(CmdPeriod._actions)
                    if id(getattr(a, '__self__', None)) in mine]
            if left:
                self.violation('C18/concurrent/cmdperiod-residue/'
                               'freed-responder-still-registered', count=len(left))
            return True
        except Stop:
            self.rt.reset_after_violation(self)
            return False
        finally:
            self.cleanup_ports()


def run(spec, acc):
    from .c18_rig import Rig
    from .common import iter_cases, case_rng, h64
    from .model_dispatch import DispatchModel, selftest
    from .inject import Injector
    selftest(); gen.selftest(); osc.selftest()
    cfg = spec['shard']
    rig = Rig(steps=False)          # the injector needs the sys.monitoring tool id
    rig.udp_client()
    rt = RtRig(rig, acc)
    transports = ['udp', 'udp', 'udp']
    if rt.connect_tcp():
        transports.append('tcp')
    else:
        acc.count('rt_tcp_unavailable')
    inj = Injector(injector_codes(), spec['seed'] * 7919 + cfg.get('first_case', 0))
    inj.p_yield = cfg.get('p_yield', 0.25)
    inj.max_sleep = cfg.get('max_sleep', 0.0003)
    inj.start()
    old_switch = sys.getswitchinterval()
    sys.setswitchinterval(2e-5)
    try:
        for i in iter_cases(spec):
            rng = case_rng(spec['seed'], 'C18', 'histrt', i)
            if 'tcp' in transports and not (rt.peer.ok and rt.peer.alive()):
                acc.count('rt_tcp_reconnects')
                if not rt.connect_tcp():
                    transports = [t for t in transports if t != 'tcp']
            runner = RtRunner(rt, DispatchModel(), rng, acc, i)
            clean = runner.run(transports)
            f = runner.feat
            acc.case(h64(repr(runner.log)), nontrivial=f['concurrent'] > 0 and f['must'] > 0)
            acc.count('rt_histories')
            acc.count('rt_histories_clean' if clean else 'rt_histories_stopped_at_violation')
            if acc.want_sample() and clean and f['concurrent'] and len(runner.log) < 40:
                acc.sample({'case': i, 'kind': 'histrt', 'last_round': runner.round_info,
                            'history': runner.log[-25:]})
    finally:
        sys.setswitchinterval(old_switch)
        acc.count('rt_injected_yields', inj.injected)
        hits = inj.hits
        acc.count('rt_injector_lines_hit', len(hits))
        acc.count('rt_injector_line_events', sum(hits.values()))
        inj.stop()
        if rt.peer is not None:
            rt.peer.close()
