"""C12 'near' shards: quantisation and meter queries with reference beats at
sub-musical distances from grid / bar lines, judged by the exact rational
oracle of vf/c12_exact.py.  sc3 objects are handed in by the caller.

Class of behaviour (round 9): the reference beat - an explicit argument or the
current beat of the calling routine - lies ON a line, 1 ... 16 ulp or 1e-15 ...
1e-6 beats BEFORE or AFTER it (absolute, or relative to the beat count), on
fresh clocks and after meter changes made at fractional beats (0.3, 1/3, 7.3
...), at small and at large beat counts (up to ~1e12, where an ulp is 1e-4
beats), with whole, fractional, tiny (1e-9) and huge (1e9) quants, phases 0,
fractions of the quant, tiny, and next to +-quant.  Ordinary musical deltas
(1, 0.5, 1/3 ...) never put a beat there, and a tolerance oracle of 1e-9
cannot decide there; any "snap to the line when close" / "<= instead of <" /
epsilon slip in next_time_on_grid, next_bar, bar, beat_in_bar, beats2bars,
bars2beats, time_to_next_beat, or in the play(quant) / play_next_bar
scheduling that uses them lives exactly there.

A program (JSON-able):
  {'clock': {'tempo':, 'beats':, 'seconds':},
   'phases': [ {'pre': delta | None,      root yields it first (fractional beat)
                'changes': [['bpb', v] | ['tempo', v] | ['beats', {'rel': x}]],
                'settle': delta | None,   yielded after the changes
                'probes': [probe, ...],   explicit reference beats
                'wakes': [ {'aim': ['bar'] | ['grid', q, p], 'j': lines ahead,
                            'off': offspec, 'ops': [op, ...]}, ... ]} ]}
  probe = ['grid', q, p, refspec] | ['nextbar', refspec] | ['bars', refspec]
        | ['bars2', K, offspec]
  refspec = {'k': line index, 'off': offspec} | {'far': beat}
  offspec = ['ulps', n] | ['abs', x] | ['rel', f] | ['on']
  op (current beat is the reference) = ['nextbar'] | ['grid', q, p] | ['barnow']
        | ['ttnb', quant_spec] | ['play', how, quant_spec]
  q may be the token 'bpb' (the meter valid at run time).
The root routine aims its wake-ups at line + offset (yield target - beats),
reads the beat it actually woke on and uses THAT as the exact reference; the
children it plays record the beat they first wake on, judged with the noise of
the beats -> seconds -> beats round trip of the scheduler added.
"""

import math
from fractions import Fraction as Fr

from vf import c12_exact as X
from vf.common import short_tb, tb_sites

HOWS = ['clock.play', 'routine.play', 'clock.play-function',
        'clock.play_next_bar', 'clock.play_next_bar-function']


# -- generators ---------------------------------------------------------------

def gen_off(rng):
    c = rng.random()
    if c < 0.1:
        return ['on']
    sign = rng.choice([1, -1])
    if c < 0.3:
        return ['ulps', sign * rng.choice([1, 1, 1, 2, 3, 4, 8, 16])]
    if c < 0.75:
        return ['abs', sign * 10 ** rng.uniform(-15, -5.5)]
    return ['rel', sign * 10 ** rng.uniform(-16, -7)]


def apply_off(line, off):
    how = off[0]
    if how == 'on':
        return line
    if how == 'ulps':
        n = off[1]
        to = math.inf if n > 0 else -math.inf
        for _ in range(abs(n)):
            line = math.nextafter(line, to)
        return line
    if how == 'abs':
        return line + off[1]
    return line + off[1] * max(1.0, abs(line))


def gen_q(rng, bpb, rt=False, tempo=1.0, play=False):
    if rt:
        hi = 0.08 * tempo
        q = rng.choice(['bpb', 1, 2, 0.5, 0.25, 1.5, 1 / 3, 0.7,
                        rng.uniform(0.05, 1.0) * hi])
        v = bpb if q == 'bpb' else q
        return q if v <= hi else hi * rng.choice([1, 0.5, 0.25])
    c = rng.random()
    if c < 0.03:
        return rng.choice([0, 0.0])
    if c < 0.25:
        return 'bpb'
    if c < 0.5:
        return rng.choice([1, 2, 3, 4, 8, 16, 1.0, 4.0, 0.5, 0.25, 1.5, 0.125,
                           6, 12, 5, 7])
    if c < 0.68:
        return rng.choice([0.1, 0.2, 0.3, 1 / 3, 0.7, 2.4, 0.75, 2.5, 1e-2,
                           bpb / 2, bpb / 3, bpb * 2])
    if c < 0.8 and not play:
        return 10 ** rng.uniform(-9, -2)
    if c < 0.92 and not play:
        return 10 ** rng.uniform(3, 9)
    return rng.uniform(0.01, 64)


def gen_p(rng, q):
    if q == 0:
        return 0
    c = rng.random()
    if c < 0.4:
        return rng.choice([0, 0.0])
    if c < 0.65:
        p = q * rng.choice([0.5, 0.25, 0.75, -0.5, -0.25, -0.75, 0.125, 1 / 3])
    elif c < 0.78:
        p = rng.choice([1, -1]) * q * 10 ** rng.uniform(-12, -6)
    elif c < 0.86:
        p = rng.choice([1, -1]) * math.nextafter(float(q), 0.0)
    else:
        p = rng.uniform(-q, q)
    return p if -q < p < q else 0


def gen_k(rng, q):
    c = rng.random()
    if c < 0.55:
        return rng.randint(-4, 64)
    if c < 0.75:
        return rng.choice([1, -1]) * rng.randint(100, 10 ** 4)
    m = 10 ** rng.uniform(4, 12)
    return rng.choice([1, 1, -1]) * int(m / max(float(q), 1e-12))


def gen_refspec(rng, q):
    if rng.random() < 0.06:
        return {'far': rng.choice([rng.uniform(-1e6, 1e6), rng.uniform(-50, 50),
                                   float(rng.randint(-1000, 1000)),
                                   rng.randint(-100, 100)])}
    return {'k': gen_k(rng, q), 'off': gen_off(rng)}


def quant_spec(rng, q, p):
    c = rng.random()
    if p == 0 and c < 0.35:
        return q
    if c < 0.65:
        return [q, p]
    return {'q': q, 'p': p}


def _num_q(q, bpb):
    return bpb if q == 'bpb' else q


def gen_near_program(rng, rt):
    if rt:
        tempo = rng.choice([20, 50.0, 100, rng.uniform(10, 200)])
        clock = {'tempo': tempo, 'seconds': None,
                 'beats': rng.choice([None, 0, 3.5, 100.25,
                                      rng.uniform(-50, 50)])}
        delta = lambda: rng.uniform(0.002, 0.02) * tempo
    else:
        tempo = rng.choice([1, 1, 1.0, 2, 0.5, 1.5, 140 / 60, 100.0,
                            10 ** rng.uniform(-2, 2)])
        clock = {'tempo': rng.choice([tempo, tempo, None]),
                 'seconds': rng.choice([None, None, None, 0.5]),
                 'beats': rng.choice([None, 0, 0, 2.5, 7.3, 1e6 + 0.3,
                                      float(2 ** 40) + 0.5,
                                      rng.uniform(-1e3, 1e3),
                                      rng.uniform(-1e6, 1e6)])}
        if clock['tempo'] is None:
            tempo = 1.0
        delta = lambda: rng.choice([0.3, 1 / 3, 0.1, 2.5, 7.3, 0.7, 1.1, 1e-3,
                                    5.5, 1, rng.uniform(0.01, 8)])
    bpb = 4.0
    phases = []
    for ph in range(rng.randint(1, 2) if rt else rng.randint(1, 4)):
        phase = {'pre': None, 'changes': [], 'settle': None, 'probes': [],
                 'wakes': []}
        if ph > 0 or rng.random() < 0.65:
            phase['pre'] = delta()
            if rng.random() < 0.85:
                hi = 0.1 * tempo if rt else 64
                v = rng.choice([3, 4, 5, 6, 7, 2, 1, 12, 3.0, 3.5, 0.5, 2.5, 9,
                                1 / 3, 0.1, rng.uniform(0.5, 16)])
                if v > hi:
                    v = hi * rng.choice([1, 0.5])
                phase['changes'].append(['bpb', v])
                bpb = float(v)
            if rng.random() < 0.3:
                v = rng.choice([20, 60.0, rng.uniform(10, 200)]) if rt else \
                    rng.choice([1, 2, 0.5, 3.0, 10 ** rng.uniform(-2, 2)])
                phase['changes'].append(['tempo', v])
                tempo = v
            if rng.random() < 0.2:
                # non-real-time: forwards only - a task that is already
                # scheduled keeps its beat (documented), so after a jump
                # backwards the root would wake that many beats later, out
                # of the OSC time tag range of the rendered score
                v = {'rel': rng.uniform(-0.02, 0.02) * tempo} if rt else \
                    {'rel': rng.choice([rng.uniform(0, 10), 1e6 + 0.7,
                                        float(2 ** 36) + 0.25,
                                        10 ** rng.uniform(3, 11)])}
                phase['changes'].append(['beats', v])
            rng.shuffle(phase['changes'])
            if any(c[0] != 'bpb' for c in phase['changes']) \
                    or rng.random() < 0.3:
                phase['settle'] = delta()
        for _ in range(rng.randint(8, 16) if rt else rng.randint(20, 60)):
            c = rng.random()
            if c < 0.45:
                q = gen_q(rng, bpb)
                p = gen_p(rng, _num_q(q, bpb))
                phase['probes'].append(
                    ['grid', q, p, gen_refspec(rng, _num_q(q, bpb))])
            elif c < 0.8:
                phase['probes'].append(['nextbar', gen_refspec(rng, bpb)])
            elif c < 0.92:
                phase['probes'].append(['bars', gen_refspec(rng, bpb)])
            else:
                phase['probes'].append(
                    ['bars2', rng.choice([1, -1]) * rng.choice(
                        [rng.randint(0, 64), rng.randint(100, 10 ** 6)]),
                     gen_off(rng)])
        for _ in range(rng.randint(2, 4) if rt else rng.randint(2, 8)):
            if rng.random() < 0.55:
                aim, aq, ap = ['bar'], 'bpb', 0
            else:
                aq = gen_q(rng, bpb, rt, tempo, play=True)
                if aq == 0:
                    aq = 1
                ap = gen_p(rng, _num_q(aq, bpb))
                aim = ['grid', aq, ap]
            j = rng.choice([0, 0, 1, 1, 2, 3])
            if rt:
                j = min(j, 1)
            elif rng.random() < 0.12:
                # far ahead; the score of a non-real-time run must stay
                # inside the OSC time tag range (seconds < 2**32)
                j = int(10 ** rng.uniform(3, 8) * min(1.0, tempo)
                        / max(_num_q(aq, bpb), 1e-3))
            ops = []
            for _ in range(rng.randint(2, 6)):
                c = rng.random()
                if c < 0.45 or rng.random() < 0.7:
                    q, p = aq, ap
                else:
                    q = gen_q(rng, bpb, rt, tempo, play=True)
                    p = gen_p(rng, _num_q(q, bpb))
                if c < 0.25:
                    ops.append(['nextbar'])
                elif c < 0.45:
                    ops.append(['grid', q, p])
                elif c < 0.57:
                    ops.append(['barnow'])
                elif c < 0.67:
                    ops.append(['ttnb', quant_spec(rng, q, p)])
                else:
                    how = rng.choice(HOWS)
                    if not how.startswith('clock.play_next_bar') \
                            and aim == ['bar'] and rng.random() < 0.5:
                        q, p = 'bpb', 0
                    ops.append(['play', how, quant_spec(rng, q, p)])
            phase['wakes'].append({'aim': aim, 'j': j, 'off': gen_off(rng),
                                   'ops': ops})
        phases.append(phase)
    return {'clock': clock, 'phases': phases}


def features(prog):
    f = {'meter_changes': 0, 'probes': 0, 'wakes': 0, 'plays': 0}
    for ph in prog['phases']:
        f['meter_changes'] += sum(c[0] == 'bpb' for c in ph['changes'])
        f['probes'] += len(ph['probes'])
        f['wakes'] += len(ph['wakes'])
        f['plays'] += sum(op[0] == 'play' for w in ph['wakes']
                          for op in w['ops'])
    return f


# -- interpreter ----------------------------------------------------------------

def quant_qp(spec):
    if spec is None:
        return 1, 0         # Quant.as_quant(None) is Quant(1, 0)
    if isinstance(spec, dict):
        return spec['q'], spec['p']
    if isinstance(spec, list):
        return spec[0], spec[1]
    return spec, 0


class NearRun:
    def __init__(self, prog, mode, sc, counts):
        self.prog, self.mode, self.sc, self.counts = prog, mode, sc, counts
        self.bads = []
        self.finished = False
        self.internal = None
        self.clk = None
        self.children = []
        self.where = None
        self.max_b = 0.0
        self.max_s = 0.0
        self.tempo = 1.0
        self.case = None

    def n(self, name, k=1):
        self.counts[name] = self.counts.get(name, 0) + k

    def bad(self, key, **detail):
        detail['where'] = self.where
        self.bads.append((key, detail))

    @property
    def stop(self):
        return bool(self.bads)

    def call(self, what, fn, *a, **kw):
        try:
            return True, fn(*a, **kw)
        except Exception as e:
            site = tb_sites(e)
            self.bad(f'C12/exact/raises/{what}/{type(e).__name__}',
                     site=site[-1] if site else None, tb=short_tb(e))
            return False, None

    def seen(self, s=None, b=None):
        if s is not None and X.num(s):
            self.max_s = max(self.max_s, abs(s))
        if b is not None and X.num(b):
            self.max_b = max(self.max_b, abs(b))

    def map_noise(self, *beats):
        """Noise of one beats -> seconds -> beats round trip of the scheduler
        (reference points of the map are (second, beat) pairs that were
        current at some change, or the constructor's)."""
        self.seen(b=max(abs(v) for v in beats))
        return X.noise(2 * self.max_b, 2 * self.tempo * (self.max_s + 1.0))

    # -- set-up
    def start(self):
        if self.mode == 'rt':
            with self.sc.main._main_lock:
                self._start()
        else:
            self._start()

    def _start(self):
        sc, spec = self.sc, self.prog['clock']
        ok, clk = self.call('TempoClock', sc.TempoClock, spec['tempo'],
                            spec['beats'], spec['seconds'])
        if not ok:
            return
        self.clk = clk
        self.tempo = 1.0 if spec['tempo'] is None else float(spec['tempo'])
        self.seen(spec['seconds'] or 0.0, spec['beats'] or 0.0)
        self.seen(sc.main.elapsed_time())
        run = self

        def body(inval):
            try:
                yield from run._body(inval)
            except BaseException as e:      # harness error, never a verdict
                if not isinstance(e, GeneratorExit):
                    run.internal = short_tb(e, 10)
                raise

        self.root = sc.Routine(body)
        self.call('play', self.root.play, clk)

    def meter(self):
        clk = self.clk
        return clk.base_bar_beat, clk.beats_per_bar, clk.base_bar

    def now(self):
        clk = self.clk
        s, b = clk.seconds, clk.beats
        self.seen(s, b)
        return b

    # -- the routine
    def _body(self, inval):
        clk = self.clk
        for pi, ph in enumerate(self.prog['phases']):
            self.where = {'phase': pi, 'at': 'changes'}
            if ph['pre'] is not None:
                yield ph['pre']
            self.now()
            for ch in ph['changes']:
                self.change(ch)
                if self.stop:
                    return
            if ph['settle'] is not None:
                yield ph['settle']
            self.now()
            for qi, probe in enumerate(ph['probes']):
                self.where = {'phase': pi, 'probe': qi, 'op': probe}
                getattr(self, 'probe_' + probe[0])(*probe[1:])
                if self.stop:
                    return
            for wi, wk in enumerate(ph['wakes']):
                self.where = {'phase': pi, 'wake': wi, 'aim': wk}
                b = self.now()
                target = self.aim(wk, b)
                d = target - b
                if not (d >= 0) or d == math.inf:
                    self.n('exact_wakes_not_aimed')
                    continue
                yield d
                b = self.now()
                self.n('exact_near_wakeups')
                for oi, op in enumerate(wk['ops']):
                    self.where = {'phase': pi, 'wake': wi, 'aim': wk,
                                  'op_index': oi, 'op': op,
                                  'woke_at_beat': repr(b)}
                    getattr(self, 'op_' + op[0])(b, *op[1:])
                    if self.stop:
                        return
            # let the children wake before the map is changed again
            self.where = {'phase': pi, 'at': 'waiting for played tasks'}
            for _ in range(3):
                pend = [c for c in self.children if c['wake'] is None]
                if not pend:
                    break
                b = self.now()
                until = max(c['latest'] for c in pend)
                yield max(until - b, 0.0) + 0.01 * self.tempo * (
                    1.0 if self.mode == 'rt' else 0.0) + 1e-3
            self.now()
            self.judge_children()
            if self.stop:
                return
        self.finished = True

    def change(self, ch):
        clk = self.clk
        name, v = ch
        if name == 'bpb':
            def f():
                clk.beats_per_bar = v
            ok, _ = self.call('beats_per_bar', f)
            if ok:
                self.n('exact_meter_changes')
                if clk.base_bar_beat != math.floor(clk.base_bar_beat):
                    self.n('exact_meter_changes_at_fractional_beat')
        elif name == 'tempo':
            def f():
                clk.tempo = v
            ok, _ = self.call('tempo', f)
            if ok:
                self.tempo = max(self.tempo, float(v))
                self._cur_tempo = float(v)
        else:
            if isinstance(v, dict):
                v = clk.beats + v['rel']

            def f():
                clk.beats = v
            self.seen(b=v)
            self.call('beats-setter', f)

    def q_of(self, q):
        return self.clk.beats_per_bar if q == 'bpb' else q

    def resolve(self, refspec, q, p, bbb):
        if 'far' in refspec:
            return refspec['far']
        line = bbb + p + refspec['k'] * (q if q else 1.0)
        ref = apply_off(line, refspec['off'])
        return ref if X.num(ref) else line

    def aim(self, wk, b):
        """The beat of the line wk['j'] lines after the next one, + offset
        (plain float arithmetic: only an aim, the wake-up beat is read)."""
        bbb, bpb, _ = self.meter()
        if wk['aim'][0] == 'bar':
            q, p = bpb, 0
        else:
            q, p = self.q_of(wk['aim'][1]), wk['aim'][2]
        k = math.ceil((b - bbb - p) / q) + wk['j']
        while True:
            t = apply_off(bbb + p + k * q, wk['off'])
            if t >= b:
                return t
            k += 1

    def count_side(self, fn, info, bbb):
        self.n(f'exact_{fn}_checked')
        self.n(f'exact_{fn}_ref_{info["side"]}')
        if info.get('no_rounding'):
            self.n(f'exact_{fn}_no_rounding_possible')
            if info['side'] == 'on_line':
                self.n(f'exact_{fn}_no_rounding_possible_ref_on_line')
        if bbb != math.floor(bbb):
            self.n(f'exact_{fn}_after_meter_change_at_fractional_beat')

    # -- explicit reference beats
    def probe_grid(self, q, p, refspec):
        clk = self.clk
        bbb = clk.base_bar_beat
        q = self.q_of(q)
        ref = self.resolve(refspec, q, p, bbb)
        ok, r = self.call('next_time_on_grid', clk.next_time_on_grid, q, p, ref)
        if not ok:
            return
        info = X.grid_judge(r, q, p, ref, bbb)
        self.count_side('grid', info, bbb)
        if q and q < 1e-2:
            self.n('exact_grid_tiny_quant')
        if q >= 1e3:
            self.n('exact_grid_huge_quant')
        if abs(ref) >= 1e5:
            self.n('exact_grid_large_beat_count')
        if not info['ok']:
            self.bad(f'C12/exact/next-time-on-grid/{info["why"]}', quant=q,
                     phase=p, ref=repr(ref), result=repr(r),
                     base_bar_beat=repr(bbb), text=info['text'])

    def probe_nextbar(self, refspec):
        clk = self.clk
        bbb, bpb, bb = self.meter()
        beat = self.resolve(refspec, bpb, 0, bbb)
        ok, r = self.call('next_bar', clk.next_bar, beat)
        if not ok:
            return
        info = X.next_bar_judge(r, beat, bbb, bpb, bb)
        self.count_side('next_bar', info, bbb)
        if abs(beat) >= 1e5:
            self.n('exact_next_bar_large_beat_count')
        if not info['ok']:
            self.bad(f'C12/exact/next-bar/{info["why"]}', beat=repr(beat),
                     result=repr(r), base_bar_beat=repr(bbb), beats_per_bar=bpb,
                     base_bar=bb, text=info['text'])

    def probe_bars(self, refspec):
        clk = self.clk
        bbb, bpb, bb = self.meter()
        beat = self.resolve(refspec, bpb, 0, bbb)
        ok, x = self.call('beats2bars', clk.beats2bars, beat)
        if not ok:
            return
        self.n('exact_bar_conversions_checked')
        why = X.beats2bars_judge(x, beat, bbb, bpb, bb)
        if why:
            self.bad(f'C12/exact/{why[0]}', text=why[1], base_bar_beat=repr(bbb),
                     beats_per_bar=bpb, base_bar=bb)
            return
        ok, back = self.call('bars2beats', clk.bars2beats, x)
        if not ok:
            return
        why = X.bars2beats_judge(back, x, bbb, bpb, bb)
        if why:
            self.bad(f'C12/exact/{why[0]}', text=why[1], base_bar_beat=repr(bbb),
                     beats_per_bar=bpb, base_bar=bb)
            return
        nz = X.bar_noise(beat, bbb, bpb, bb, back)
        if abs(Fr(back) - Fr(beat)) > 2 * nz:
            self.bad('C12/exact/bars-beats-not-inverse', beat=repr(beat),
                     bars=repr(x), back=repr(back), noise=float(nz))

    def probe_bars2(self, K, off):
        clk = self.clk
        bbb, bpb, bb = self.meter()
        y = apply_off(float(K), off)
        ok, beat = self.call('bars2beats', clk.bars2beats, y)
        if not ok:
            return
        self.n('exact_bar_conversions_checked')
        why = X.bars2beats_judge(beat, y, bbb, bpb, bb)
        if why:
            self.bad(f'C12/exact/{why[0]}', text=why[1], base_bar_beat=repr(bbb),
                     beats_per_bar=bpb, base_bar=bb)
            return
        ok, back = self.call('beats2bars', clk.beats2bars, beat)
        if not ok:
            return
        why = X.beats2bars_judge(back, beat, bbb, bpb, bb)
        if why:
            self.bad(f'C12/exact/{why[0]}', text=why[1], base_bar_beat=repr(bbb),
                     beats_per_bar=bpb, base_bar=bb)
            return
        nz = X.bar_noise(beat, bbb, bpb, bb) + X.noise(Fr(y) * Fr(bpb))
        if abs(Fr(back) - Fr(y)) * Fr(bpb) > 2 * nz:
            self.bad('C12/exact/bars-beats-not-inverse', bars=repr(y),
                     beat=repr(beat), back=repr(back), noise=float(nz))

    # -- the current beat as the reference
    def op_nextbar(self, b):
        clk = self.clk
        bbb, bpb, bb = self.meter()
        ok, r = self.call('next_bar', clk.next_bar)
        if not ok:
            return
        info = X.next_bar_judge(r, b, bbb, bpb, bb)
        self.count_side('next_bar_now', info, bbb)
        if not info['ok']:
            self.bad(f'C12/exact/next-bar/{info["why"]}/current-beat',
                     beats=repr(b), result=repr(r), base_bar_beat=repr(bbb),
                     beats_per_bar=bpb, base_bar=bb, text=info['text'])
        return r

    def op_grid(self, b, q, p):
        clk = self.clk
        bbb = clk.base_bar_beat
        q = self.q_of(q)
        ok, r = self.call('next_time_on_grid', clk.next_time_on_grid, q, p)
        if not ok:
            return
        info = X.grid_judge(r, q, p, b, bbb)
        self.count_side('grid_now', info, bbb)
        if not info['ok']:
            self.bad(f'C12/exact/next-time-on-grid/{info["why"]}/current-beat',
                     quant=q, phase=p, beats=repr(b), result=repr(r),
                     base_bar_beat=repr(bbb), text=info['text'])
        return r

    def op_barnow(self, b):
        clk = self.clk
        bbb, bpb, bb = self.meter()
        ok, vals = self.call('bar', lambda: (clk.bar(), clk.beat_in_bar()))
        if not ok:
            return
        info = X.next_bar_judge(b, b, bbb, bpb, bb)     # only for the side
        self.count_side('bar_now', info, bbb)
        why = X.bar_judge(vals[0], vals[1], b, bbb, bpb, bb)
        if why:
            self.bad(f'C12/exact/{why[0]}', text=why[1], beats=repr(b),
                     base_bar_beat=repr(bbb), beats_per_bar=bpb, base_bar=bb)

    def _quant_obj(self, spec):
        if isinstance(spec, dict):
            return self.sc.Quant(self.q_of(spec['q']), spec['p'])
        if isinstance(spec, list):
            return (self.q_of(spec[0]), spec[1])
        return self.q_of(spec)

    def op_ttnb(self, b, spec):
        clk = self.clk
        bbb = clk.base_bar_beat
        q, p = quant_qp(spec)
        q = self.q_of(q)
        ok, t = self.call('time_to_next_beat', clk.time_to_next_beat,
                          self._quant_obj(spec))
        if not ok:
            return
        if not X.num(t):
            self.bad('C12/exact/time-to-next-beat/not-a-number', result=repr(t))
            return
        # t = next_time_on_grid - beats, one more rounding
        at = Fr(t) + Fr(b)
        info = X.grid_judge(float(at), q, p, b, bbb, extra=X.noise(b, at))
        self.count_side('ttnb', info, bbb)
        if not info['ok']:
            self.bad(f'C12/exact/time-to-next-beat/{info["why"]}', quant=q,
                     phase=p, beats=repr(b), result=repr(t),
                     base_bar_beat=repr(bbb), text=info['text'])

    def op_play(self, b, how, spec):
        sc, clk = self.sc, self.clk
        bbb, bpb, bb = self.meter()
        next_bar = how.startswith('clock.play_next_bar')
        if next_bar:
            q, p = bpb, 0
            ideal = X.next_bar_judge(b, b, bbb, bpb, bb)['ideal']
        else:
            q, p = quant_qp(spec)
            q = self.q_of(q)
            g = X.grid_judge(b, q, p, b, bbb)
            ideal = g.get('ideal', b + p)
        # "play() with a quant schedules exactly there": where the clock
        # itself says the next grid point / bar line is, asked (and judged)
        # in the same wake-up
        says = self.op_nextbar(b) if next_bar else self.op_grid(b, q, p)
        if self.stop:
            return
        rec = dict(how=how, spec=spec, q=q, p=p, ref=b, bbb=bbb, bpb=bpb,
                   base_bar=bb, next_bar=next_bar, wake=None, says=says,
                   latest=max(ideal, says) + q, where=self.where)
        run = self

        def wake(c):
            rec['wake'] = (c.seconds, c.beats)

        if how.endswith('-function'):
            def task(fn, c):
                wake(c)
        else:
            def child(inval):
                wake(inval[1])
            task = sc.Routine(child)
        if next_bar:
            ok, _ = self.call('play_next_bar', clk.play_next_bar, task)
        elif how == 'routine.play':
            ok, _ = self.call('play', task.play, clk, self._quant_obj(spec))
        else:
            ok, _ = self.call('play', clk.play, task, self._quant_obj(spec))
        if ok:
            self.children.append(rec)

    def judge_children(self):
        for rec in self.children:
            fn = 'play_next_bar' if rec['next_bar'] else 'play'
            name = 'play-next-bar' if rec['next_bar'] else 'play-quant'
            self.where = rec['where']
            if rec['wake'] is None:
                self.bad(f'C12/exact/{name}-first-wake/never', play=_pub(rec))
                continue
            s, w = rec['wake']
            self.seen(s, w)
            extra = self.map_noise(w, rec['ref'])
            if rec['next_bar']:
                info = X.next_bar_judge(w, rec['ref'], rec['bbb'], rec['bpb'],
                                        rec['base_bar'], extra=extra)
            else:
                info = X.grid_judge(w, rec['q'], rec['p'], rec['ref'],
                                    rec['bbb'], extra=extra)
            self.count_side(fn, info, rec['bbb'])
            if not info['ok']:
                self.bad(f'C12/exact/{name}-first-wake/{info["why"]}',
                         play=_pub(rec), woke_at_beat=repr(w),
                         woke_at_second=repr(s), played_at_beat=repr(rec['ref']),
                         text=info['text'])
            elif abs(Fr(w) - Fr(rec['says'])) > extra:
                self.bad(f'C12/exact/{name}-first-wake/not-where-'
                         + ('next-bar' if rec['next_bar'] else
                            'next-time-on-grid') + '-says',
                         play=_pub(rec), woke_at_beat=repr(w),
                         woke_at_second=repr(s), played_at_beat=repr(rec['ref']),
                         round_trip_noise=float(extra))
        self.children = []


def _pub(rec):
    return {k: (repr(v) if isinstance(v, float) else v)
            for k, v in rec.items() if k != 'where'}


# -- shard runners --------------------------------------------------------------

def _nontrivial(feat):
    return feat['probes'] >= 10 and feat['wakes'] >= 2


def _report(acc, run, i):
    key, detail = run.bads[0]
    acc.violation(key, {'case': i, 'program_clock': run.prog['clock'],
                        'detail': detail, 'program': run.prog
                        if len(repr(run.prog)) < 6000 else '(long)'})


def run_near(spec, acc, sc):
    from vf.common import iter_cases, case_rng, h64
    if spec['shard']['mode'] == 'rt':
        return run_near_rt(spec, acc, sc)
    counts = {}
    for i in iter_cases(spec):
        rng = case_rng(spec['seed'], 'C12', 'near', i)
        prog = gen_near_program(rng, False)
        feat = features(prog)
        acc.case(h64(repr(prog)), nontrivial=_nontrivial(feat))
        sc.main.reset()
        run = NearRun(prog, 'nrt', sc, counts)
        run.start()
        if not run.stop:
            sc.main.process()
        if run.internal:
            raise RuntimeError('harness error in routine body, case %d:\n%s'
                               % (i, run.internal))
        if run.stop:
            _report(acc, run, i)
        elif not run.finished:
            acc.violation('C12/exact/routine-did-not-complete',
                          {'case': i, 'program': prog, 'where': run.where})
        else:
            counts['exact_programs_finished'] = counts.get(
                'exact_programs_finished', 0) + 1
            if acc.want_sample() and len(repr(prog)) < 3000:
                acc.sample({'case': i, 'program': prog})
    for k, v in counts.items():
        acc.count(k, v)


def run_near_rt(spec, acc, sc):
    import time
    from vf.common import iter_cases, case_rng, h64
    counts = {}
    cases = list(iter_cases(spec))
    deadline = time.time() + spec['shard'].get('secs', 30)
    batch = 8
    for at in range(0, len(cases), batch):
        if time.time() > deadline:
            break
        runs = []
        for i in cases[at:at + batch]:
            rng = case_rng(spec['seed'], 'C12', 'rtn', i)
            prog = gen_near_program(rng, True)
            acc.case(h64(repr(prog)), nontrivial=_nontrivial(features(prog)))
            run = NearRun(prog, 'rt', sc, counts)
            run.case = i
            run.start()
            runs.append(run)
        t_end = time.time() + 8.0

        def pending(r):
            return not (r.stop or r.internal or r.clk is None or r.finished)
        while time.time() < t_end and any(pending(r) for r in runs):
            time.sleep(0.01)
        with sc.main._main_lock:
            late = [r for r in runs if pending(r)]
        for r in runs:
            if r.clk is not None:
                try:
                    r.clk.stop()
                except Exception:
                    pass
        for r in runs:
            if r.internal:
                raise RuntimeError('harness error in routine body, case %d:\n%s'
                                   % (r.case, r.internal))
            if r in late:
                acc.count('rt_exact_programs_unfinished')
            elif r.stop:
                _report(acc, r, r.case)
            else:
                acc.count('rt_exact_programs_finished')
    for k, v in counts.items():
        acc.count('rt_' + k, v)
    unfinished = acc.counters.get('rt_exact_programs_unfinished', 0)
    if unfinished > 0.2 * max(1, acc.counters.get('rt_exact_programs_finished',
                                                   0)):
        acc.mark_inconclusive(
            f'{unfinished} real-time near-line programs did not finish')
