"""C08 - real-time clocks wake every task once, on time, in order, and survive errors.

Trace monitor over wake-ups recorded by the tasks themselves (they run under
the library's main lock, so the wake log of all clocks is totally ordered),
checked offline against a priority-queue reference model with interval
semantics, plus:
  * stress workload: many scheduler threads (plain threads, tasks on other
    clocks, OSC callbacks over loop-back) against SystemClock, AppClock and
    several TempoClocks with tempo changes, ties, raising tasks, random-yield
    injection at statement boundaries of the clock loops (sys.monitoring);
  * park-one sweep: the clock thread (or the scheduling thread) is held at one
    chosen statement of the clock loop / scheduling functions while a racing
    call makes a new task the earliest one; the task must still be awakened
    promptly although an unrelated decoy deadline lies one hour ahead;
  * clear()/stop() scenarios; lock-discipline assertion in every wake-up.
"""

import random
import functools
import threading
import time

from vf.common import derive_seed, h64, short_tb

LEVEL = 'exploration'
RULE = ("stress: seeded random scheduling histories from 4-12 concurrent scheduler "
        "threads / tasks on other clocks / OSC callbacks with random-yield injection; "
        "park-one sweep: one case per (function, statement, parked thread, racing "
        "call, queue state). A stress task instance is non-trivial when it was "
        "scheduled across threads and had a tie or was scheduled ahead of the "
        "clock's sleeping head; a park case is non-trivial when the park point was "
        "actually reached; distinct = (clock kind, scheduling form, source kind, "
        "delta class, plan shape) for stress and the case tuple for park")
ASSUMPTIONS = [
    "time.time() does not step during a run (guarded: HostWatch makes the shard inconclusive)",
    "a task that is due is awakened within 3 s (park) / 6 s (stress) unless the host is "
    "starved (HostWatch oversleep > 1 s => inconclusive, never a violation)",
    "TempoClock.stop() is asynchronous: 'cancelled' is checked from the moment running() is False",
]
MIN_COUNTERS = {
    'quick': {'wakes_checked': 1500, 'order_pairs_checked': 200,
              'park_points_reached': 25, 'raising_tasks': 20,
              'clear_cases': 6, 'lock_owned_checks': 1500, 'move_cases': 6,
              'moved_while_pending': 20, 'tempo_changes_from_plain_thread': 1000,
              'map_change_cases': 12, 'cmdperiod_in_task_cases': 4,
              'task_errors_logged': 100, 'tasks_scheduled_again_after_clear': 30},
    'thorough': {'wakes_checked': 50000, 'order_pairs_checked': 5000,
                 'park_points_reached': 150, 'raising_tasks': 500,
                 'clear_cases': 40, 'lock_owned_checks': 50000, 'move_cases': 40,
                 'moved_while_pending': 500, 'tempo_changes_from_plain_thread': 20000,
                 'map_change_cases': 300, 'cmdperiod_in_task_cases': 20,
                 'task_errors_logged': 1500, 'tasks_scheduled_again_after_clear': 300},
}

LATE_STRESS = 6.0
LATE_PARK = 3.0


def plan(tier, seed):
    shards = []
    if tier == 'quick':
        cfgs = [
            dict(secs=7, nthreads=6, ntempo=2, p_yield=0.02, burners=2, max_tasks=1600,
                 unlocked_tempo=True),
            dict(secs=7, nthreads=10, ntempo=3, p_yield=0.0, burners=0, max_tasks=1600),
        ]
        for i, c in enumerate(cfgs):
            shards.append(dict(name=f'stress{i}', mode='rt', kind='stress',
                               hard_timeout=90, **c))
        for ck in ('SystemClock', 'AppClock', 'TempoClock'):
            shards.append(dict(name=f'park-{ck}', mode='rt', kind='park', clock=ck,
                               max_cases=90, secs=45, hard_timeout=150))
        for k in range(2):      # two rounds each (rounds 0-1 and 2-3)
            shards.append(dict(name=f'clear{k}', mode='rt', kind='clear', rounds=2,
                               first_round=2 * k, hard_timeout=120))
        for part in range(3):
            shards.append(dict(name=f'mapchange{part}', mode='rt', kind='mapchange', rounds=2,
                               part=part, parts=3, secs=40, hard_timeout=120))
    else:
        for i in range(12):
            shards.append(dict(
                name=f'stress{i}', mode='rt', kind='stress', secs=50,
                nthreads=[4, 8, 12, 16][i % 4], ntempo=[1, 3, 6][i % 3],
                p_yield=[0.0, 0.01, 0.05, 0.15][(i // 2) % 4],
                burners=[0, 2, 8][i % 3], max_tasks=40000, unlocked_tempo=i % 2 == 0,
                hard_timeout=600))
        for ck in ('SystemClock', 'AppClock', 'TempoClock'):
            for part in range(2):
                shards.append(dict(name=f'park-{ck}-{part}', mode='rt', kind='park',
                                   clock=ck, max_cases=100000, secs=420, part=part,
                                   parts=2, hard_timeout=600))
        for i in range(4):
            shards.append(dict(name=f'clear{i}', mode='rt', kind='clear', rounds=14,
                               hard_timeout=700))
        for part in range(3):
            shards.append(dict(name=f'mapchange{part}', mode='rt', kind='mapchange', rounds=40,
                               part=part, parts=3, secs=420, hard_timeout=600))
    return shards


EXC = {}


def _excs():
    if not EXC:
        class VfInjected(Exception):
            pass
        EXC.update(ValueError=ValueError, KeyError=KeyError,
                   ZeroDivisionError=ZeroDivisionError, RuntimeError=RuntimeError,
                   StopIteration=StopIteration, VfInjected=VfInjected,
                   AttributeError=AttributeError, OSError=OSError)
    return EXC


class H:
    """Harness: creates tasks, performs scheduling calls, records events."""

    def __init__(self):
        from vf.rt import Log, HostWatch
        from sc3.base.main import main
        from sc3.base import clock as clk
        self.main = main
        self.clk = clk
        self.log = Log()
        self.recs = {}
        self._ids = iter(range(1, 10 ** 9))
        self._idlock = threading.Lock()
        self.watch = HostWatch()
        self.watch.start()
        self.clocks = []
        self.errors = []
        from vf.lockmon import LockMon
        self.lockmon = LockMon().install()
        self.watch_thread_deaths()
        # "an exception raised by one task is logged": the records of the clocks'
        # logger are counted by exception class (the worker silences the library's
        # log output, so the level of this logger is set here)
        import logging
        self.raised = {}
        self.logged = {}
        h = self

        class _Count(logging.Handler):
            def emit(self, record):
                et = record.exc_info[0].__name__ if record.exc_info and record.exc_info[0] \
                    else 'no-exception-info'
                h.logged[et] = h.logged.get(et, 0) + 1
        lg = logging.getLogger('sc3.base.clock')
        lg.setLevel(logging.ERROR)
        lg.propagate = False
        lg.addHandler(_Count())

    def start_hang_monitor(self, acc, spec, limit=12.0):
        """A scheduling call (sched / sched_abs / play / tempo change) that does not
        return is a deadlock in the library, not a harness problem: it is
        reported with the function the stuck thread sits in, the accumulator is
        written out and the worker exits (the process could not be joined)."""
        import json as _json
        import os as _os
        import sys as _sys
        h = self

        def innermost_sc3(frame):
            name = None
            while frame is not None:
                fn = frame.f_code.co_filename
                if '/sc3/' in fn and name is None:
                    name = frame.f_code.co_qualname
                frame = frame.f_back
            return name

        def monitor():
            while True:
                time.sleep(1.0)
                now = h.main.elapsed_time()
                stuck = [r for r in h.all_recs()
                         if r['c0'] is not None and r['c1'] is None and now - r['c0'] > limit]
                stuck += [r for r in h.all_recs()
                          if r.get('moving') and now - r['moving'] > limit]
                if not stuck or h.watch.max_oversleep > 2.0:
                    continue
                frames = _sys._current_frames()
                sites = sorted({innermost_sc3(f) for f in frames.values()} - {None})
                r = stuck[0]
                acc.violation(
                    f"C08/scheduling-call-hangs/{r['ckind']}",
                    {'rec': _rec_repr(r), 'stuck_calls': len(stuck),
                     'threads_inside_sc3': sites, 'shard': spec['shard']['name']})
                acc.count('hang_monitor_fired')
                res = acc.dump()
                res['ok'] = True
                tmp = spec['out'] + '.tmp'
                with open(tmp, 'w') as f:
                    _json.dump(res, f)
                _os.replace(tmp, spec['out'])
                _os._exit(0)
        threading.Thread(target=monitor, daemon=True, name='vf-hang-monitor').start()

    def watch_thread_deaths(self):
        """An exception that escapes a clock's thread ends the clock for the
        rest of the process; threading.excepthook sees it."""
        self.deaths = []
        prev = threading.excepthook

        def hook(args):
            name = getattr(args.thread, 'name', '?') or '?'
            if name.startswith(('SystemClock', 'AppClock', 'TempoClock')):
                tb = args.exc_traceback
                site = '?'
                while tb is not None:
                    if 'sc3' in tb.tb_frame.f_code.co_filename:
                        site = tb.tb_frame.f_code.co_name
                    tb = tb.tb_next
                self.deaths.append((name.split(' ')[0], args.exc_type.__name__, site,
                                    repr(args.exc_value)[:200]))
            else:
                prev(args)
        threading.excepthook = hook

    def report_logged(self, acc):
        time.sleep(0.05)
        for et, n in sorted(self.raised.items()):
            acc.count('raising_wakeups_of_functions_and_objects', n)
            got = self.logged.get(et, 0)
            acc.count('task_errors_logged', min(got, n))
            if got < n:
                acc.violation(f'C08/raising-task-not-logged/{et}',
                              {'raised': n, 'logged_with_that_exception': got,
                               'all_logged': dict(self.logged)})

    def report_lockmon(self, acc):
        self.report_logged(acc)
        for ck, exc, site, val in getattr(self, 'deaths', [])[:5]:
            acc.violation(f'C08/clock-thread-killed-by-exception/{ck}/{exc}@{site}',
                          {'thread': ck, 'exception': val})
        acc.count('clock_thread_death_checks')
        acc.count('tasks_that_returned_inf', INF_RETURNS[0])
        INF_RETURNS[0] = 0
        acc.count('queue_accesses_lock_checked', self.lockmon.checked)
        self.lockmon.checked = 0
        for (meth, caller), n in sorted(self.lockmon.bad.items()):
            acc.violation(f'C08/queue-access-without-main-lock/{caller}',
                          {'queue_method': meth, 'caller': caller, 'count': n})
        self.lockmon.bad.clear()

    # ---- clocks -------------------------------------------------------
    def kind(self, clock):
        if clock is self.clk.SystemClock:
            return 'SystemClock'
        if clock is self.clk.AppClock:
            return 'AppClock'
        return 'TempoClock'

    def cname(self, clock):
        k = self.kind(clock)
        return k if k != 'TempoClock' else f'TempoClock#{clock._vf_id}'

    def new_tempo(self, tempo, vid):
        c = self.clk.TempoClock(tempo)
        c._vf_id = vid
        return c

    # ---- tasks --------------------------------------------------------
    def new_rec(self, clock, how, val, plan, kind, src, decoy=False, ahead=None):
        with self._idlock:
            tid = next(self._ids)
        if kind == 'defer':
            plan = [dict(plan[0]) if plan else {}]
            if not plan[0].get('raise'):
                plan[0]['ret'] = None       # what the wrapper hands to the clock
        rec = dict(tid=tid, clock=clock, ckind=self.kind(clock), cname=self.cname(clock),
                   how=how, val=val, plan=plan, kind=kind, src=src, decoy=decoy,
                   ahead=(ahead if ahead is not None else
                          (val if how == 'rel' else 1.0 if how == 'play' else 0.0)),
                   end_seqs={}, nwakes=0, c0=None, c1=None, c0_seq=None, c1_seq=None, error=None)
        self.recs[tid] = rec
        return rec

    def _on_wake(self, rec, clock):
        main = self.main
        k = rec['nwakes']
        rec['nwakes'] = k + 1
        phys = main.elapsed_time()
        owned = main._main_lock._is_owned()
        logical = main.current_tt._seconds
        beats = eb = None
        if rec['ckind'] == 'TempoClock':
            try:
                beats = clock.beats
                eb = clock.elapsed_beats()
            except Exception:
                pass
        self.log.add('wake', rec['tid'], k, phys, logical, beats, eb, owned,
                     threading.current_thread().name, clock is rec['clock'])
        plan = rec['plan']
        step = plan[k] if k < len(plan) else {'ret': None}
        if step.get('raise') and rec['kind'] in ('tk', 'fn', 'defer'):
            self.raised[step['raise']] = self.raised.get(step['raise'], 0) + 1
        for ch in step.get('children', ()):
            self.sched_from_task(rec, k, logical, ch)
        if step.get('clear'):
            # the task clears its own clock (everything pending is cancelled)
            try:
                rec['clock'].clear()
                self.log.add('clear', self.cname(rec['clock']), 'task')
            except Exception as e:
                self.errors.append(('clear-in-task', repr(e)))
        tempo = step.get('tempo')
        if tempo is not None:
            tc, val = tempo
            try:
                tc.tempo = val
                self.log.add('tempo', self.cname(tc), val, 'task')
            except Exception as e:
                self.errors.append(('tempo-in-task', repr(e)))
        # a numeric return re-inserts the task after everything scheduled above
        rec['end_seqs'][k] = self.log.seq()
        return step

    def make_item(self, rec):
        h = self
        kind = rec['kind']
        if kind == 'tk':
            class Tk:
                def __init__(self):
                    # any object with __awake__ is a task for sched(); half of
                    # them look like the library's own (a `func` attribute),
                    # half are plain user objects
                    if rec['tid'] % 2 == 0:
                        # (a bound method, a partial or a callable object: users wrap
                        # such callables by hand)
                        self.func = [self.body, functools.partial(self.body),
                                     _CallableObject()][(rec['tid'] // 2) % 3]
                    self._clock = None

                def body(self):
                    pass

                def __awake__(self, clock):
                    step = h._on_wake(rec, clock)
                    if step.get('raise'):
                        raise _excs()[step['raise']]('vf injected')
                    return _ret(step)
            return Tk()
        if kind == 'fn':
            def vf_task(item, clock):
                step = h._on_wake(rec, clock)
                if step.get('raise'):
                    raise _excs()[step['raise']]('vf injected')
                return _ret(step)
            return vf_task
        if kind == 'defer':
            # handed to the library's defer(): called without arguments, its
            # return value is dropped (a number must NOT re-schedule it)
            def vf_deferred():
                step = h._on_wake(rec, rec['clock'])
                if step.get('raise'):
                    raise _excs()[step['raise']]('vf injected')
                return 0.002
            return vf_deferred
        if kind == 'rout':
            from sc3.base.stream import Routine

            def vf_rout(inval):
                while True:
                    _, clock = inval
                    step = h._on_wake(rec, clock)
                    if step.get('raise'):
                        raise _excs()[step['raise']]('vf injected')
                    if step.get('ret') is None:
                        return
                    if not _is_num(step['ret']):
                        yield _ret(step)        # not a delta: the routine is not
                        return                  # re-scheduled by the clock
                    inval = yield step['ret']
            return Routine(vf_rout)
        raise ValueError(kind)

    # ---- scheduling calls --------------------------------------------
    def do_sched(self, clock, how, val, plan, kind, src, decoy=False, ahead=None):
        rec = self.new_rec(clock, how, val, plan, kind, src, decoy, ahead)
        item = self.make_item(rec)
        rec['item'] = item
        rec['c0_seq'] = self.log.seq()
        rec['c0'] = self.main.elapsed_time()
        tcrel = how == 'rel' and rec['ckind'] == 'TempoClock' and not decoy
        if tcrel:
            # relative scheduling on a tempo clock is in beats: the task is due at
            # the clock's beat at the caller's time plus the delta (read before and
            # after the call: one value inside a task, an interval from a thread)
            # (a plain thread's time is the physical present; an unlocked
            # `clock.beats` there could see a routine that a clock thread runs)
            # (read under the library's lock: another plain thread changes the
            # tempo of these clocks, and an unlocked conversion could combine the
            # old base with the new tempo)
            def _locked_elapsed_beats():
                with self.main._main_lock:
                    return clock.elapsed_beats()
            rd = _locked_elapsed_beats if src[0] == 'thread' else (lambda: clock.beats)
            try:
                rec['b0'] = rd()
            except Exception:
                tcrel = False
        try:
            if how == 'rel' and kind == 'defer':
                self.clk.defer(item, val, clock)
            elif how == 'rel':
                clock.sched(val, item)
            elif how == 'abs':
                clock.sched_abs(val, item)
            elif how == 'play':
                item.play(clock)
            else:
                raise ValueError(how)
        except Exception as e:
            rec['error'] = repr(e)
        finally:
            if tcrel:
                try:
                    rec['b1'] = rd()
                except Exception:
                    rec.pop('b0', None)
            rec['c1'] = self.main.elapsed_time()
            rec['c1_seq'] = self.log.seq()
        return rec

    def do_move(self, rec, val):
        """Schedules the SAME task object again on its clock while (probably)
        still pending: the clock must move it to the new time."""
        m = dict(val=val, c0_seq=self.log.seq(), c0=self.main.elapsed_time())
        rec['moving'] = m['c0']
        try:
            rec['clock'].sched(val, rec['item'])
        except Exception as e:
            m['error'] = repr(e)
        rec['moving'] = None
        m['c1'] = self.main.elapsed_time()
        m['c1_seq'] = self.log.seq()
        rec.setdefault('moves', []).append(m)
        return m

    def sched_from_task(self, prec, k, logical, ch):
        clock, how, val, plan, kind = ch
        self.do_sched(clock, how, val, plan, kind,
                      ('task', prec['tid'], k, logical, prec['cname']))

    def all_recs(self):
        """Snapshot of the records; tasks on clock threads may add records
        (children) while the harness thread looks at them."""
        for _ in range(50):
            try:
                return list(self.recs.values())
            except RuntimeError:
                time.sleep(0)
        with self.main._main_lock:
            return list(self.recs.values())

    def wakes(self):
        return [e for e in self.log.events if e[1] == 'wake']


# ---------------------------------------------------------------------------
# offline analysis
# ---------------------------------------------------------------------------

class _CallableObject:
    def __call__(self, *a):
        pass


def _is_num(x):
    # what the clocks take for a delta: a finite number, not a bool ('INF' in a
    # plan stands for float('inf') = never)
    return isinstance(x, (int, float)) and not isinstance(x, bool)


INF_RETURNS = [0]


def _ret(step):
    r = step.get('ret')
    if r == 'INF':
        INF_RETURNS[0] += 1
        return float('inf')
    return r


def expected_wakes(plan):
    for i, st in enumerate(plan):
        if st.get('raise') or not _is_num(st.get('ret')):
            return i + 1
    return len(plan) + 1


def analyze(h, acc, late_bound, end_phys, cancelled=None, starved=False,
            label='stress'):
    """cancelled: {tid: reason} instances expected NOT to wake after a point
    (handled by the clear/stop scenarios themselves)."""
    cancelled = cancelled or {}
    wakes = h.wakes()
    by_tid = {}
    for ev in wakes:
        by_tid.setdefault(ev[2], []).append(ev)
    # instance table: one per (tid, k)
    inst = []      # dicts
    viol = acc.violation
    for tid, rec in [(r_['tid'], r_) for r_ in h.all_recs()]:
        ck = rec['ckind']
        evs = by_tid.get(tid, [])
        if rec['error']:
            if 'ClockNotRunning' in rec['error'] and tid in cancelled:
                continue
            viol(f'C08/sched-call-raised/{ck}',
                 {'rec': _rec_repr(rec), 'where': label})
            continue
        if tid in cancelled:
            continue
        if rec.get('moves'):
            _check_moved(rec, evs, acc, late_bound, end_phys, starved, label)
            continue
        exp = expected_wakes(rec['plan'])
        if rec['decoy']:
            if evs:
                viol(f'C08/decoy-fired/{ck}', {'rec': _rec_repr(rec)})
            continue
        ks = [e[3] for e in evs]
        if ks != list(range(len(ks))):
            viol(f'C08/wake-index-disorder/{ck}', {'rec': _rec_repr(rec), 'ks': ks})
        if len(evs) > exp:
            viol(f'C08/woken-too-often/{ck}',
                 {'rec': _rec_repr(rec), 'wakes': len(evs), 'expected': exp,
                  'where': label})
        elif len(evs) < exp:
            # never / not completely woken: only a violation when it was due
            # long enough before the end of the observation window
            due = _due_phys(rec, evs)
            if due is not None and end_phys - due > late_bound:
                if starved:
                    acc.count('late_ignored_starved')
                else:
                    viol(f'C08/not-woken-in-time/{ck}',
                         {'rec': _rec_repr(rec), 'wakes': len(evs), 'expected': exp,
                          'due_phys': due, 'observed_until': end_phys,
                          'where': label})
        prev = None
        for e in evs:
            (seq, _, _, k, phys, logical, beats, eb, owned, thname, same_clock) = e
            acc.count('wakes_checked')
            acc.count('lock_owned_checks')
            if not owned:
                viol(f'C08/lock-not-held-in-wakeup/{ck}',
                     {'rec': _rec_repr(rec), 'k': k, 'thread': thname})
            if not same_clock:
                viol(f'C08/woken-by-wrong-clock/{ck}', {'rec': _rec_repr(rec), 'k': k})
            # never before its scheduled time
            if ck == 'TempoClock':
                if beats is not None and eb is not None and \
                        eb < beats - 1e-9 * max(1.0, abs(beats)):
                    viol(f'C08/early-wakeup/{ck}',
                         {'rec': _rec_repr(rec), 'k': k, 'elapsed_beats': eb,
                          'sched_beats': beats})
            else:
                if phys < logical:
                    viol(f'C08/early-wakeup/{ck}',
                         {'rec': _rec_repr(rec), 'k': k, 'phys': phys,
                          'sched': logical})
            # scheduled time is what the call asked for
            S = beats if ck == 'TempoClock' else logical
            if k == 0:
                _check_sched_time(h, rec, S, logical, acc)
            else:
                ret = rec['plan'][k - 1].get('ret')
                pS = prev[6] if ck == 'TempoClock' else prev[5]
                if ck == 'SystemClock':
                    if S != pS + ret:
                        viol(f'C08/resched-time/{ck}',
                             {'rec': _rec_repr(rec), 'k': k, 'prev': pS, 'delta': ret,
                              'got': S})
                elif ck == 'TempoClock':
                    if pS is not None and S is not None and \
                            abs(S - (pS + ret)) > 1e-7 * max(1.0, abs(S)):
                        viol(f'C08/resched-time/{ck}',
                             {'rec': _rec_repr(rec), 'k': k, 'prev': pS, 'delta': ret,
                              'got': S})
                else:   # AppClock: relative to the physical present (drifts)
                    if S < prev[4] + ret - 1e-9:
                        viol(f'C08/resched-time/{ck}',
                             {'rec': _rec_repr(rec), 'k': k, 'prev_wake_phys': prev[4],
                              'delta': ret, 'got': S})
                acc.count('resched_checked')
            # lateness (bounded progress)
            ready = max(logical if ck != 'TempoClock' else 0.0,
                        rec['c1'] if k == 0 else prev[4])
            if ck != 'TempoClock':
                late = phys - ready
                acc.maxi('max_lateness_s', late)
                if late > late_bound:
                    if starved:
                        acc.count('late_ignored_starved')
                    else:
                        viol(f'C08/late-wakeup/{ck}',
                             {'rec': _rec_repr(rec), 'k': k, 'late_s': late,
                              'where': label})
            inst.append(dict(tid=tid, k=k, seq=seq, S=S, rec=rec, phys=phys,
                             ins_seq=(rec['c1_seq'] if k == 0
                                      else rec['end_seqs'].get(k - 1, seq)),
                             call_seq=(rec['c0_seq'] if k == 0
                                       else rec['end_seqs'].get(k - 1, seq)),
                             tiekey=_tiekey(rec, k, S)))
            prev = e
    _check_order(inst, acc, viol)
    return inst


def _check_moved(rec, evs, acc, late_bound, end_phys, starved, label):
    """A single-shot task that was scheduled again (moved) once."""
    ck = rec['ckind']
    m = rec['moves'][-1]
    acc.count('moved_tasks_checked')
    if m.get('error'):
        acc.violation(f'C08/sched-call-raised/{ck}', {'rec': _rec_repr(rec), 'move': m})
        return
    before = [e for e in evs if e[0] < m['c0_seq']]
    amb = [e for e in evs if m['c0_seq'] <= e[0] <= m['c1_seq']]
    after = [e for e in evs if e[0] > m['c1_seq']]
    for e in evs:
        acc.count('wakes_checked')
        acc.count('lock_owned_checks')
        if not e[8]:
            acc.violation(f'C08/lock-not-held-in-wakeup/{ck}', {'rec': _rec_repr(rec)})
    if len(before) > 1 or len(after) > 1 or len(evs) > 2:
        acc.violation(f'C08/woken-too-often/{ck}/moved-task',
                      {'rec': _rec_repr(rec), 'wakes': len(evs), 'where': label})
        return
    if not before and not amb and len(after) != 1:
        # certainly pending when it was moved: exactly one wake-up, at the new time
        due = m['c1'] + m['val'] * (2.0 if ck == 'TempoClock' else 1.0)
        if not after and end_phys - due > late_bound and not starved:
            acc.violation(f'C08/not-woken-in-time/{ck}/moved-task',
                          {'rec': _rec_repr(rec), 'where': label})
        return
    if after and not before and not amb:
        # moved while pending: bounded progress counts from the move (a clock
        # asleep on the old deadline has to be told about the new, earlier one)
        if ck == 'TempoClock':
            due = m['c1'] + m['val'] * 2.0       # slowest tempo used: 0.5
        else:
            due = max(after[0][5], m['c1'])
        late = after[0][4] - due
        acc.count('moved_lateness_checked')
        if late > late_bound:
            if starved:
                acc.count('late_ignored_starved')
            else:
                acc.violation(f'C08/late-wakeup/{ck}/moved-task',
                              {'rec': _rec_repr(rec), 'late_s': late, 'move': m,
                               'where': label})
    if after and ck != 'TempoClock':
        S = after[0][5]
        if not before and not amb:
            acc.count('moved_while_pending')
        if not (m['c0'] + m['val'] - 1e-6 <= S <= m['c1'] + m['val'] + 1e-6):
            acc.violation(f'C08/sched-time/{ck}/moved-task',
                          {'rec': _rec_repr(rec), 'expected': [m['c0'] + m['val'],
                                                               m['c1'] + m['val']],
                           'got': S})
        if after[0][4] < S:
            acc.violation(f'C08/early-wakeup/{ck}', {'rec': _rec_repr(rec), 'moved': True})
    elif after:
        if not before and not amb:
            acc.count('moved_while_pending')


def _due_phys(rec, evs):
    """Physical time by which the next missing wake-up of rec was certainly due
    (None if unknown).  Tempo clocks: beats ahead / slowest tempo used (0.5)."""
    ck = rec['ckind']
    slow = 2.0 if ck == 'TempoClock' else 1.0      # seconds per unit, worst case
    if evs:
        last = evs[-1]
        ret = rec['plan'][last[3]].get('ret')
        if not _is_num(ret):
            return None
        if ck == 'TempoClock':
            return last[4] + ret * slow
        return max(last[4], last[5] + ret)
    if rec['decoy']:
        return None
    if ck == 'TempoClock':
        return rec['c1'] + rec['ahead'] * slow
    if rec['how'] == 'abs':
        return max(rec['c1'], rec['val'])
    return rec['c1'] + (rec['val'] or 0)


def _check_sched_time(h, rec, S, logical, acc):
    ck = rec['ckind']
    src = rec['src']
    how, val = rec['how'], rec['val']
    if how == 'play':
        how, val = 'rel', 0
        if ck == 'TempoClock':
            return          # quantised: C12's business
    bad = None
    if ck == 'SystemClock':
        if how == 'abs':
            if S != val:
                bad = ('abs', val, S)
        elif src[0] in ('task', 'osc'):
            if S != src[3] + val:
                bad = ('rel-from-task', src[3] + val, S)
        else:
            if not (rec['c0'] + val - 1e-6 <= S <= rec['c1'] + val + 1e-6):
                bad = ('rel-from-thread', [rec['c0'] + val, rec['c1'] + val], S)
    elif ck == 'AppClock':
        if not (rec['c0'] + val - 1e-6 <= S <= rec['c1'] + val + 1e-6):
            bad = ('rel-physical', [rec['c0'] + val, rec['c1'] + val], S)
    else:
        if S is None:
            return
        if how == 'abs':
            if abs(S - val) > 1e-7 * max(1.0, abs(val)):
                bad = ('abs', val, S)
        elif how == 'rel' and 'b0' in rec and 'b1' in rec and not rec.get('moves'):
            # relative: beats at the caller's time plus the delta (later tempo
            # changes move the second, not the beat)
            lo, hi = rec['b0'] + val, rec['b1'] + val
            tol = 1e-7 * max(1.0, abs(hi))
            acc.count('tempo_relative_sched_beats_checked')
            if not (lo - tol <= S <= hi + tol):
                bad = ('rel-beats-from-' + src[0], [lo, hi], S)
    acc.count('sched_time_checked')
    if bad:
        acc.violation(f'C08/sched-time/{ck}/{bad[0]}',
                      {'rec': _rec_repr(rec), 'expected': bad[1], 'got': bad[2]})


def _tiekey(rec, k, S):
    if k != 0:
        return None
    if rec['how'] == 'abs':
        return ('abs', rec['cname'], rec['val'])
    if rec['src'][0] in ('task', 'osc') and rec['how'] == 'rel' and rec['ckind'] != 'AppClock':
        return ('rel', rec['cname'], rec['src'][1], rec['src'][2], rec['val'])
    return None


def _check_order(inst, acc, viol):
    """For every pair (P, W) on one clock with P certainly pending when W woke
    (P's insertion completed before W's wake-up, P woke later): S_P >= S_W, and
    on exact ties P must not have been scheduled strictly before W."""
    per = {}
    for x in inst:
        per.setdefault(x['rec']['cname'], []).append(x)
    import bisect
    for cname, xs in per.items():
        xs.sort(key=lambda x: x['seq'])
        ck = xs[0]['rec']['ckind']
        eps = 1e-7 if ck == 'TempoClock' else 0.0
        later = []        # instances woken later than the current one, sorted by S
        keys = []
        for w in reversed(xs):
            Sw = w['S']
            if Sw is None:
                continue
            # candidates: later-woken with S_P <= S_W (+eps)
            hi = bisect.bisect_right(keys, Sw + eps)
            for j in range(hi):
                p = later[j]
                if p['ins_seq'] >= w['seq']:
                    continue            # not certainly pending when W woke
                acc.count('order_pairs_checked')
                tol = eps * max(1.0, abs(Sw))
                if p['S'] < Sw - tol:
                    viol(f'C08/order/{ck}',
                         {'first_woken': _inst_repr(w), 'pending_earlier': _inst_repr(p)})
                elif abs(p['S'] - Sw) <= tol:
                    acc.count('ties_seen')
                    exact = (p['S'] == Sw) if ck != 'TempoClock' else (
                        p['tiekey'] is not None and p['tiekey'] == w['tiekey'])
                    if exact and p['ins_seq'] < w['call_seq']:
                        acc.count('ties_judged')
                        viol(f'C08/tie-order/{ck}',
                             {'first_woken': _inst_repr(w),
                              'scheduled_earlier_still_pending': _inst_repr(p)})
            pos = bisect.bisect_right(keys, Sw)
            keys.insert(pos, Sw)
            later.insert(pos, w)
    # ties that were woken in the right order are counted too (evidence)
    for cname, xs in per.items():
        xs.sort(key=lambda x: x['seq'])
        for a, b in zip(xs, xs[1:]):
            if a['S'] is not None and a['S'] == b['S'] and a['tid'] != b['tid']:
                acc.count('adjacent_equal_time_wakes')


def _rec_repr(rec):
    return {k: (repr(v) if k in ('clock', 'plan', 'src') else v)
            for k, v in rec.items() if k != 'item'}


def _inst_repr(x):
    return {'tid': x['tid'], 'k': x['k'], 'S': x['S'], 'wake_seq': x['seq'],
            'ins_seq': x['ins_seq'], 'call_seq': x['call_seq'],
            'rec': _rec_repr(x['rec'])}


# ---------------------------------------------------------------------------
# stress workload
# ---------------------------------------------------------------------------

def clock_codes():
    from sc3.base import clock as clk, _taskq, stream as stm
    from vf.inject import func_code
    fs = [clk.SystemClock._run, clk.SystemClock._sched_add, clk.SystemClock.sched,
          clk.SystemClock.sched_abs, clk.SystemClock.clear,
          clk.TempoClock._run, clk.TempoClock._sched_add, clk.TempoClock.sched,
          clk.TempoClock.sched_abs, clk.TempoClock.clear,
          clk.TempoClock._calc_sched_beats,
          clk.AppClock._run, clk.AppClock.sched, clk.AppClock._tick,
          clk.AppClock.clear, clk.Scheduler.sched, clk.Scheduler._sched_add,
          clk.Scheduler._wakeup, clk.Scheduler.clear,
          stm.Routine.next]
    codes = [func_code(f) for f in fs]
    codes.append(clk.TempoClock.tempo.fset.__code__)
    codes.append(clk.Scheduler.seconds.fset.__code__)
    return codes


def gen_plan(rng, clocks, p_raise, depth=0):
    n = rng.choice([1, 1, 1, 2, 3])
    steps = []
    for i in range(n):
        st = {}
        last = i == n - 1
        if rng.random() < p_raise:
            st['raise'] = rng.choice(sorted(_excs()))
            steps.append(st)
            return steps
        # the last value is not a delta: None, or something that is not a
        # number for the clocks (a bool is not)
        st['ret'] = (rng.choice([None] * 8 + ['x', True, False, [0.001], 'INF']) if last
                     else rng.choice([0, 0, 0.001, 0.004, 0.01, 0.02]))
        if depth < 2 and rng.random() < 0.25:
            ch = []
            for _ in range(rng.randint(1, 2)):
                c = rng.choice(clocks)
                ch.append((c, 'rel', rng.choice([0, 0, 0.002, 0.01, 0.03]),
                           gen_plan(rng, clocks, p_raise, depth + 1),
                           rng.choice(['tk', 'fn', 'rout', 'tk', 'fn', 'rout', 'defer'])))
            st['children'] = ch
        steps.append(st)
    return steps


def run_stress(spec, acc):
    from vf.inject import Injector, Burners
    cfg = spec['shard']
    seed = derive_seed(spec['seed'], 'C08', cfg['name'], spec.get('attempt', 0))
    rng0 = random.Random(seed)
    h = H()
    h.start_hang_monitor(acc, spec)
    main, clk = h.main, h.clk
    tempos = [h.new_tempo(rng0.choice([0.5, 1, 2, 4, 8]), i)
              for i in range(cfg['ntempo'])]
    clocks = [clk.SystemClock, clk.AppClock] + tempos
    inj = Injector(clock_codes(), seed)
    inj.p_yield = cfg['p_yield']
    inj.start()
    burn = Burners(cfg['burners'])
    burn.start()
    import sys
    if cfg['p_yield'] > 0:
        sys.setswitchinterval(1e-5)
    for c in clocks:
        if h.kind(c) == 'TempoClock':
            h.do_sched(c, 'rel', 3600.0 * 16, [{'ret': None}], 'tk',
                       ('thread', 'main'), decoy=True)
        else:
            h.do_sched(c, 'rel', 3600.0, [{'ret': None}], 'tk', ('thread', 'main'),
                       decoy=True)
    # OSC loop-back scheduler: callbacks run as SystemClock tasks, the
    # scheduling of the dispatch happens in the UDP receive thread
    from sc3.base.responders import OscFunc
    from sc3.base.netaddr import NetAddr
    osc_rng = random.Random(seed + 1)

    def on_osc(msg, *_):
        c = osc_rng.choice(clocks)
        # callbacks run as SystemClock tasks at the message's logical time
        h.do_sched(c, 'rel', osc_rng.choice([0, 0.005, 0.02]),
                   gen_plan(osc_rng, clocks, 0.1), osc_rng.choice(['tk', 'fn']),
                   ('osc', msg[1], 0, main.current_tt._seconds, 'SystemClock'))
    of = OscFunc(on_osc, '/vfk')
    me = NetAddr('127.0.0.1', main._osc_interface.port)

    t_end = time.time() + cfg['secs']
    total = [0]
    max_tasks = cfg['max_tasks']

    def worker(wi):
        rng = random.Random(seed * 1000 + wi)
        while time.time() < t_end and total[0] < max_tasks:
            c = rng.choice(clocks)
            ck = h.kind(c)
            op = rng.random()
            try:
                if op < 0.04 and tempos:
                    tc = rng.choice(tempos)
                    val = rng.choice([0.5, 1, 2, 3, 4, 8, 16])
                    if cfg.get('unlocked_tempo') and rng.random() < 0.5:
                        tc.tempo = val          # plain REPL-style use
                        h.log.add('tempo', h.cname(tc), val, 'thread-unlocked')
                    else:
                        with main._main_lock:
                            tc.tempo = val
                        h.log.add('tempo', h.cname(tc), val, 'thread-locked')
                elif op < 0.07:
                    me.send_msg('/vfk', total[0])
                elif op < 0.12:
                    # schedule one task, then schedule the same object again while
                    # it is still pending (it must move, not multiply or vanish)
                    total[0] += 1
                    r0 = h.do_sched(c, 'rel', rng.choice([0.06, 0.1, 0.2]),
                                    [{'ret': None}], 'tk', ('thread', wi))
                    time.sleep(rng.choice([0, 0.001, 0.005]))
                    h.do_move(r0, rng.choice([0.01, 0.03, 0.15, 0.3]))
                else:
                    total[0] += 1
                    plan = gen_plan(rng, clocks, 0.08)
                    kind = rng.choice(['tk', 'fn', 'rout'])
                    if rng.random() < 0.12:
                        # the library's defer(func, delta, clock) convenience
                        h.do_sched(c, 'rel', rng.choice([0, 0.003, 0.02, 0.05]), plan,
                                   'defer', ('thread', wi))
                    elif ck != 'AppClock' and rng.random() < 0.45:
                        # absolute, quantised -> many exact ties across threads
                        if ck == 'SystemClock':
                            now = main.elapsed_time()
                            t = (int(now * 25) + rng.randint(1, 4)) / 25.0
                            if rng.random() < 0.2:
                                # a time point at or just behind the present: due at
                                # once, at the logical time that was asked for
                                t = now + rng.choice([-0.01, -0.001, 0.0, 0.0005])
                            h.do_sched(c, 'abs', t, plan, kind, ('thread', wi))
                        else:
                            b = c.elapsed_beats()
                            t = (int(b * 8) + rng.randint(1, 6)) / 8.0
                            if rng.random() < 0.2:
                                t = b + rng.choice([-0.02, -0.001, 0.0, 0.001])
                            h.do_sched(c, 'abs', t, plan, kind, ('thread', wi),
                                       ahead=t - b)
                    elif kind == 'rout' and rng.random() < 0.3 and ck != 'TempoClock':
                        h.do_sched(c, 'play', None, plan, kind, ('thread', wi))
                    else:
                        h.do_sched(c, 'rel', rng.choice(
                            [-0.01, 0, 0, 0.001, 0.005, 0.01, 0.02, 0.05, 0.1]),
                            plan, kind, ('thread', wi))
            except Exception as e:
                h.errors.append(('worker', short_tb(e)))
            time.sleep(rng.choice([0, 0, 0.0005, 0.002, 0.004]))

    ths = [threading.Thread(target=worker, args=(i,), daemon=True)
           for i in range(cfg['nthreads'])]
    for t in ths:
        t.start()
    for t in ths:
        t.join()
    # quiescence: everything finite is due within ~0.4 s (tempo >= 0.5: 6/8 beat
    # = 1.5 s); observe for LATE_STRESS + margin
    deadline = time.time() + LATE_STRESS + 2.5
    while time.time() < deadline:
        time.sleep(0.25)
        pend = sum(1 for r in h.all_recs()
                   if not r['decoy'] and not r['error']
                   and r['nwakes'] < expected_wakes(r['plan']))
        if pend == 0:
            break
    time.sleep(0.3)
    end_phys = main.elapsed_time()
    inj.stop()
    burn.stop()
    of.free()
    alive = {}
    alive['SystemClock'] = clk.SystemClock._thread.is_alive()
    alive['AppClock'] = clk.AppClock._thread.is_alive()
    for t in tempos:
        alive[h.cname(t)] = t.running()
    for name, ok in alive.items():
        if not ok:
            acc.violation(f"C08/clock-thread-dead/{name.split('#')[0]}",
                          {'clock': name, 'errors': h.errors[:3]})
    starved = h.watch.max_oversleep > 1.0 or h.watch.max_step > 0.05
    if starved:
        acc.mark_inconclusive(f'host starved: oversleep={h.watch.max_oversleep:.2f}s '
                              f'step={h.watch.max_step:.3f}s')
    # tempo clocks: lateness unknown in seconds; "due" approximated (see _due_phys)
    inst = analyze(h, acc, LATE_STRESS, end_phys, starved=starved, label=cfg['name'])
    for e in h.errors[:5]:
        acc.violation('C08/harness-call-raised/' + e[0], {'error': e[1]})
    _account(h, inst, acc, inj)
    h.report_lockmon(acc)
    for t in tempos:
        t.stop()


def _account(h, inst, acc, inj=None):
    for rec in h.all_recs():
        if rec['decoy']:
            continue
        plan = rec['plan']
        shape = (len(plan), any(s.get('raise') for s in plan),
                 any(s.get('children') for s in plan))
        vclass = None if rec['val'] is None else (
            0 if rec['val'] == 0 else 1 if rec['how'] == 'rel' else 2)
        nontrivial = rec['src'][0] in ('thread', 'osc', 'task')
        acc.case(h64((rec['ckind'], rec['how'], rec['src'][0], vclass, rec['kind'],
                      shape)), nontrivial=nontrivial)
        if any(s.get('raise') for s in plan):
            acc.count('raising_tasks')
        acc.count(f"tasks_{rec['ckind']}")
        acc.count(f"sched_from_{rec['src'][0]}")
        if rec['kind'] == 'defer':
            acc.count('deferred_functions')
    if inj is not None:
        acc.count('injected_yields', inj.injected)
        acc.count('monitored_line_hits', sum(inj.hits.values()))
        acc.counters['max_distinct_lines_hit'] = max(
            acc.counters.get('max_distinct_lines_hit', 0), len(inj.hits))
    acc.maxi('max_host_oversleep_s', h.watch.max_oversleep)
    if acc.want_sample():
        some = [r for r in h.all_recs() if not r['decoy']][:3]
        acc.sample({'tasks': [_rec_repr(r) for r in some],
                    'first_wakes': [list(map(str, e)) for e in h.wakes()[:4]]})


# ---------------------------------------------------------------------------
# park-one sweep
# ---------------------------------------------------------------------------

def park_targets(ck):
    from sc3.base import clock as clk
    from vf.inject import func_code, code_lines
    if ck == 'SystemClock':
        clock_fs = [clk.SystemClock._run]
        sched_fs = [clk.SystemClock.sched, clk.SystemClock.sched_abs,
                    clk.SystemClock._sched_add]
    elif ck == 'AppClock':
        clock_fs = [clk.AppClock._run, clk.AppClock._tick]
        sched_fs = [clk.AppClock.sched, clk.Scheduler.sched, clk.Scheduler._sched_add]
    else:
        clock_fs = [clk.TempoClock._run]
        sched_fs = [clk.TempoClock.sched, clk.TempoClock.sched_abs,
                    clk.TempoClock._sched_add, clk.TempoClock._calc_sched_beats]
    out = []
    for who, fs in (('clock', clock_fs), ('sched', sched_fs)):
        for f in fs:
            c = func_code(f)
            for ln in code_lines(c):
                out.append((who, c, ln))
    if ck == 'TempoClock':
        c = clk.TempoClock.tempo.fset.__code__
        for ln in code_lines(c):
            out.append(('sched', c, ln))
    return out


def run_park(spec, acc):
    from vf.inject import Injector, Park
    cfg = spec['shard']
    ck = cfg['clock']
    seed = derive_seed(spec['seed'], 'C08', cfg['name'])
    rng = random.Random(seed)
    h = H()
    h.start_hang_monitor(acc, spec, limit=15.0)
    main, clk = h.main, h.clk
    targets = park_targets(ck)
    all_codes = list({id(c): c for _, c, _ in targets}.values())
    inj = Injector(all_codes, seed)
    inj.start()
    if ck == 'SystemClock':
        racings = ['rel', 'abs', 'play', 'from-task']
    elif ck == 'AppClock':
        racings = ['rel', 'play', 'from-task']
    else:
        racings = ['rel', 'abs', 'from-task', 'tempo-up', 'play']
    states = ['decoy', 'empty']

    def legal(who, r, s, nth):
        return not (who == 'sched' and r == 'from-task') \
            and not (who == 'sched' and nth == 2) \
            and not (r == 'tempo-up' and s == 'empty')

    points = [(who, c, ln, nth) for (who, c, ln) in targets for nth in (1, 2)
              if not (who == 'sched' and nth == 2)]
    if 'parts' in cfg:
        points = points[cfg['part']::cfg['parts']]
    rng.shuffle(points)
    from collections import deque
    # probe every point once with a plain relative sched; a point at which the
    # racing call completed WHILE the thread was parked is "open" (a real
    # window for interleavings) and is expanded with every racing call x state
    # first; closed points get their remaining combinations afterwards.
    queue = deque((pt, 'rel', rng.choice(states)) for pt in points)
    # every racing call x queue state at least once, whatever the park point
    for r in racings + (['tempo-up'] * 3 if 'tempo-up' in racings else []):
        for st_ in states:
            pt = rng.choice(points)
            if legal(pt[0], r, st_, pt[3]):
                queue.appendleft((pt, r, st_))
            else:
                cands = [q for q in points if legal(q[0], r, st_, q[3])]
                if cands:
                    queue.appendleft((rng.choice(cands), r, st_))
    later = deque()
    done_cases = set()
    t_stop = time.time() + cfg['secs']
    tempo_n = [0]
    ncases = 0
    while (queue or later) and time.time() < t_stop and ncases < cfg['max_cases']:
        pt, racing, state = queue.popleft() if queue else later.popleft()
        who, code, line, nth = pt
        key = (who, id(code), line, nth, racing, state)
        if key in done_cases:
            continue
        done_cases.add(key)
        ncases += 1
        res = park_case(h, inj, ck, who, code, line, racing, state, acc, tempo_n, nth)
        if racing == 'rel' and res is not None:
            combos = [(r, s) for r in racings for s in states if legal(who, r, s, nth)]
            rng.shuffle(combos)
            if res.get('open'):
                acc.count('park_open_points')
                if acc.want_sample() or True:
                    acc.extra.setdefault('open_points', []).append(
                        f"{who}:{code.co_qualname}:{line}:visit{nth}")
                for r, s in combos:
                    queue.appendleft((pt, r, s))
            else:
                for r, s in combos:
                    later.append((pt, r, s))
    acc.count('park_cases_left_unexplored', len(queue) + len(later))
    inj.stop()
    h.report_lockmon(acc)
    acc.maxi('max_host_oversleep_s', h.watch.max_oversleep)
    acc.counters['max_distinct_lines_hit'] = len(inj.hits)


def park_case(h, inj, ck, who, code, line, racing, state, acc, tempo_n, nth=1):
    from vf.inject import Park
    main, clk = h.main, h.clk
    h.recs.clear()
    h.log.events.clear()
    h.watch.reset()
    if ck == 'SystemClock':
        clock = clk.SystemClock
    elif ck == 'AppClock':
        clock = clk.AppClock
    else:
        tempo_n[0] += 1
        clock = h.new_tempo(1.0, tempo_n[0])
    clock_thread = clock._thread
    cancelled = {}
    if ck != 'TempoClock':
        clock.clear()
    if state == 'decoy':
        h.do_sched(clock, 'rel', 3600.0, [{'ret': None}], 'tk', ('thread', 'main'),
                   decoy=True)
    pend = None
    if racing == 'tempo-up':
        # a pending task 4 beats (4 s) ahead; the racing call raises the tempo so
        # that it becomes due in ~20 ms
        pend = h.do_sched(clock, 'rel', 4.0, [{'ret': None}], 'tk', ('thread', 'main'))
    time.sleep(0.02)      # let the clock thread go to sleep on its condition
    racer_thread = []
    is_open = False

    racer_started = threading.Event()

    def racer():
        racer_thread.append(threading.current_thread())
        racer_started.set()
        if racing == 'rel':
            h.do_sched(clock, 'rel', 0.01, [{'ret': None}], 'tk', ('thread', 'racer'))
        elif racing == 'abs':
            now = clock.elapsed_beats() if ck == 'TempoClock' else main.elapsed_time()
            h.do_sched(clock, 'abs', now + 0.01, [{'ret': None}], 'fn',
                       ('thread', 'racer'), ahead=0.01)
        elif racing == 'play':
            h.do_sched(clock, 'play', None, [{'ret': None}], 'rout', ('thread', 'racer'))
        elif racing == 'from-task':
            other = clk.SystemClock if ck != 'SystemClock' else clk.AppClock
            h.do_sched(other, 'rel', 0, [{'ret': None, 'children': [
                (clock, 'rel', 0.01, [{'ret': None}], 'tk')]}], 'tk',
                ('thread', 'racer'))
        elif racing == 'tempo-up':
            with main._main_lock:
                clock.tempo = 200.0
            h.log.add('tempo', h.cname(clock), 200.0, 'racer')

    if who == 'clock':
        pred = (lambda th: th is clock_thread)
    else:
        pred = (lambda th: racer_thread and th is racer_thread[0]) if racing != 'from-task' \
            else (lambda th: th is not clock_thread)
    park = inj.arm(Park(code, line, pred, hold=1.0, nth=nth))
    rt = threading.Thread(target=racer, daemon=True)
    if who == 'clock':
        # make the clock thread run through its loop once: a kick task due now
        h.do_sched(clock, 'rel', 0, [{'ret': None}], 'tk', ('thread', 'kick'))
        reached = park.reached.wait(0.1)
        rt.start()
        racer_started.wait(1.0)
        rt.join(0.05)           # finishes only if the park point is outside the lock
        if reached and not rt.is_alive():
            if racing == 'from-task':
                # the racing call proper is issued by the other clock's task
                t1 = time.time()
                while time.time() - t1 < 0.3 and not any(
                        r['src'][0] == 'task' and r['c1'] is not None
                        for r in h.all_recs()):
                    time.sleep(0.001)
            is_open = not park.release.is_set() and any(
                r['src'][0] == ('task' if racing == 'from-task' else 'thread')
                and r['src'][1] != 'kick' and r['c1'] is not None and not r['decoy']
                and r['src'][1] != 'main'
                for r in h.all_recs()) or racing == 'tempo-up'
        park.release.set()
        rt.join(5)
    else:
        rt.start()
        reached = park.reached.wait(0.1)
        if reached:
            # while the scheduler is held, let the clock thread cycle
            time.sleep(0.02)
        park.release.set()
        rt.join(5)
    inj.disarm_all()
    if rt.is_alive():
        acc.violation(f'C08/scheduling-call-hangs/{ck}',
                      {'case': _case_repr(who, code, line, racing, state, nth)})
        return None
    # wait for every non-decoy task
    t0 = time.time()
    while time.time() - t0 < LATE_PARK:
        if all(r['decoy'] or r['error'] or r['nwakes'] >= expected_wakes(r['plan'])
               for r in h.all_recs()):
            break
        time.sleep(0.002)
    waited = time.time() - t0
    missing = [r for r in h.all_recs() if not r['decoy'] and not r['error']
               and r['nwakes'] < expected_wakes(r['plan'])]
    starved = h.watch.max_oversleep > 0.5 or h.watch.max_step > 0.05
    kicked = None
    if missing and not starved:
        # does an unrelated later scheduling wake it up?  (diagnostic detail)
        h.do_sched(clock, 'rel', 0, [{'ret': None}], 'tk', ('thread', 'late-kick'))
        time.sleep(0.3)
        kicked = all(r['nwakes'] >= expected_wakes(r['plan']) for r in missing)
        for r in missing[:1]:
            acc.violation(
                f"C08/lost-wakeup/{r['ckind']}/parked-in-{code.co_qualname}",
                {'case': _case_repr(who, code, line, racing, state, nth),
                 'park_reached': bool(reached), 'prev_line': park.prev_line,
                 'waited_s': waited, 'woken_by_unrelated_later_sched': kicked,
                 'task': _rec_repr(r)})
    elif missing and starved:
        acc.count('park_cases_starved')
    end_phys = main.elapsed_time()
    # everything else (order, exactly once, early, lock) on this little history
    for r in missing:
        cancelled[r['tid']] = 'reported'
    analyze(h, acc, LATE_PARK, end_phys, cancelled=cancelled, starved=starved,
            label='park')
    acc.case(h64(_case_repr(who, code, line, racing, state, nth)), nontrivial=bool(reached))
    acc.count('park_cases')
    if reached:
        acc.count('park_points_reached')
        acc.count(f'park_reached_{who}')
    if acc.want_sample() and reached:
        acc.sample({'park_case': _case_repr(who, code, line, racing, state, nth),
                    'prev_line': park.prev_line, 'waited_s': round(waited, 4)})
    if ck == 'TempoClock':
        clock.stop()
    if is_open:
        acc.count('park_cases_racing_call_completed_while_parked')
    return {'reached': bool(reached), 'open': bool(is_open)}


def _case_repr(who, code, line, racing, state, nth=1):
    return {'visit': nth, 'parked': who, 'function': code.co_qualname, 'line': line,
            'racing_call': racing, 'queue': state}


# ---------------------------------------------------------------------------
# clear / stop scenarios
# ---------------------------------------------------------------------------

_AGAIN_MISSED = [0]


def run_clear(spec, acc):
    cfg = spec['shard']
    seed = derive_seed(spec['seed'], 'C08', cfg['name'])
    rng = random.Random(seed)
    h = H()
    h.start_hang_monitor(acc, spec)
    main, clk = h.main, h.clk
    vid = [0]
    for rnd in range(cfg.get('first_round', 0), cfg.get('first_round', 0) + cfg['rounds']):
        for ck in ('SystemClock', 'AppClock', 'TempoClock', 'TempoClock-stop',
                   'TempoClock-stop2'):
            ck, ck_full = ck.rstrip('2'), ck
            h.recs.clear()
            h.log.events.clear()
            h.watch.reset()
            if ck == 'SystemClock':
                clock = clk.SystemClock
            elif ck == 'AppClock':
                clock = clk.AppClock
            else:
                vid[0] += 1
                clock = h.new_tempo(rng.choice([1, 2, 4]), vid[0])
            n = rng.randint(5, 40)
            before = []

            def w(k):
                r = random.Random(seed + rnd * 100 + k)
                for _ in range(n // 4 + 1):
                    before.append(h.do_sched(
                        clock, 'rel', r.choice([0.15, 0.2, 0.3, 0.5]),
                        [{'ret': 0.01}, {'ret': None}], r.choice(['tk', 'fn', 'rout']),
                        ('thread', k)))
            ths = [threading.Thread(target=w, args=(k,)) for k in range(4)]
            for t in ths:
                t.start()
            for t in ths:
                t.join()
            # single-shot task objects that are pending at the clear and scheduled
            # AGAIN afterwards (the same objects): each must be awakened then
            again = [h.do_sched(clock, 'rel', rng.choice([0.4, 0.6]), [{'ret': None}],
                                rng.choice(['tk', 'rout']), ('thread', 'r'))
                     for _ in range(3)]
            # some tasks that fire before the clear (they must be unaffected)
            early = [h.do_sched(clock, 'rel', 0, [{'ret': None}], 'tk', ('thread', 'e'))
                     for _ in range(3)]
            time.sleep(0.05)
            c0 = h.log.seq()
            if ck == 'TempoClock-stop':
                if rnd % 2 and ck_full == 'TempoClock-stop':
                    # stop() called by a task that another clock is awakening
                    # (that thread owns the library lock): the other clocks go on
                    from sc3.base.functions import Function
                    stopper = rng.choice([clk.SystemClock, clk.AppClock])
                    acc.count('stop_called_from_a_task_of_another_clock')

                    def make_call_stop(victim):
                        def call_stop():        # (no parameters: the library
                            victim.stop()       # passes arguments by count)
                        return Function(call_stop)
                    stopper.sched(0, make_call_stop(clock))
                    time.sleep(0.05)
                else:
                    # the other public ways of stopping tempo clocks
                    way = 'stop' if ck_full == 'TempoClock-stop' else \
                        ['stop_all', 'cmd-period', 'cmd-period-permanent'][rnd % 3]
                    acc.count('stopped_by/' + way)
                    if way == 'stop':
                        clock.stop()
                    elif way == 'stop_all':
                        clk.TempoClock.stop_all()
                    else:
                        from sc3.base.systemactions import CmdPeriod
                        clock.permanent = way.endswith('permanent')
                        CmdPeriod.run()     # clears every clock, stops the non-permanent ones
                t0 = time.time()
                keeps_running = ck == 'TempoClock-stop' and getattr(clock, 'permanent', False)
                while clock.running() and not keeps_running and time.time() - t0 < 3:
                    time.sleep(0.001)
                if keeps_running:
                    time.sleep(0.05)
                    if not clock.running():
                        acc.violation('C08/permanent-clock-stopped-by-cmd-period/TempoClock',
                                      {'round': rnd})
                elif clock.running():
                    acc.violation('C08/stop-does-not-stop/TempoClock', {'round': rnd})
            elif rnd % 2:
                # clear() called by a task of the clock itself, which then ends
                # normally or fails; tasks scheduled afterwards go on as usual
                # (they re-schedule themselves by the deltas they return)
                acc.count('clear_called_from_a_task_of_the_clock')
                clr = h.do_sched(clock, 'rel', 0, [rng.choice([
                    {'clear': True, 'ret': None}, {'clear': True, 'raise': 'ValueError'},
                    {'clear': True, 'ret': 'x'}])], rng.choice(['tk', 'fn']), ('thread', 'c'))
                t0 = time.time()
                while not clr['nwakes'] and time.time() - t0 < 20:
                    time.sleep(0.002)
                time.sleep(0.01)
                if not clr['nwakes']:
                    # the clearing task has not run yet (starved host, or the clock
                    # is gone - which the other rounds report): nothing to judge
                    acc.count('clear_task_not_awakened_within_20s')
                    continue
            else:
                clock.clear()
            c1 = h.log.seq()
            after = []
            if ck != 'TempoClock-stop':
                after = [h.do_sched(clock, 'rel', 0.01, [{'ret': 0.01}, {'ret': 0.005},
                                                         {'ret': None}],
                                    rng.choice(['tk', 'fn', 'rout']),
                                    ('thread', 'a')) for _ in range(3)]
            else:
                # the process-wide clocks are not affected by stopping a TempoClock
                # (a permanent clock that was only cleared goes on as well)
                after = [h.do_sched(c2, 'rel', 0.01, [{'ret': None}], 'tk', ('thread', 'a'))
                         for c2 in (clk.SystemClock, clk.AppClock)
                         + ((clock,) if clock.running() else ())]
            cancelled = {}
            if ck != 'TempoClock-stop':
                moved = [(r, h.do_move(r, rng.choice([0.02, 0.05]))) for r in again]
                t0 = time.time()
                # (20 s: bounded progress on any host; once a task was missed the
                # later rounds of this shard wait 1.5 s, or the shard would not end)
                while time.time() - t0 < (1.5 if _AGAIN_MISSED[0] else 20) and not all(
                        any(e[2] == r['tid'] and e[0] > m['c1_seq'] for e in h.wakes())
                        for r, m in moved):
                    time.sleep(0.01)
                for r, m in moved:
                    acc.count('tasks_scheduled_again_after_clear')
                    if m.get('error') or any(e[2] == r['tid'] and e[0] > m['c1_seq']
                                             for e in h.wakes()):
                        continue        # (a raising sched call is reported by analyze)
                    if getattr(h, 'deaths', None):
                        break           # the clock thread is gone: reported elsewhere
                    if _AGAIN_MISSED[0] and (h.watch.overloaded or h.watch.max_oversleep > 0.5):
                        acc.count('late_ignored_starved')
                        continue
                    _AGAIN_MISSED[0] += 1
                    acc.violation(f'C08/not-woken-in-time/{ck}/scheduled-again-after-clear',
                                  {'round': rnd, 'task': _rec_repr(r), 'waited_s': 20,
                                   'clear': 'from-a-task' if rnd % 2 else 'from-a-thread'})
            else:
                for r in again:
                    cancelled[r['tid']] = 'stopped'
            # (after a clear from a task the self-re-scheduling tasks are watched for
            # longer than the bounded-progress limit: a lost re-queue must show)
            time.sleep(0.75 if not (rnd % 2 and ck != 'TempoClock-stop') else LATE_PARK + 0.3)
            for r in before:
                cancelled[r['tid']] = 'cleared'
                late = [e for e in h.wakes() if e[2] == r['tid'] and e[0] > c1]
                if late:
                    acc.violation(
                        f"C08/woken-after-{'stop' if 'stop' in ck else 'clear'}/"
                        f"{ck.split('-')[0]}",
                        {'round': rnd, 'task': _rec_repr(r), 'n_pending': len(before)})
                    break
            analyze(h, acc, LATE_PARK, main.elapsed_time(), cancelled=cancelled,
                    starved=h.watch.max_oversleep > 0.5, label='clear')
            acc.count('clear_cases')
            acc.count('cleared_tasks', len(before))
            acc.case(h64((ck, n, rnd)), nontrivial=True)
            if ck != 'TempoClock-stop':
                move_case(h, acc, clock, ck, rng, rnd)
                for _ in range(3):
                    tie_move_case(h, acc, clock, ck, rng, rnd)
                same_function_case(h, acc, clock, ck, rng, rnd)
                inf_return_case(h, acc, clock, ck, rng, rnd)
                if getattr(h, 'deaths', None) and ck != 'TempoClock':
                    # a process-wide clock is gone: nothing after this can be judged
                    h.report_lockmon(acc)
                    return
            elif ck_full == 'TempoClock-stop':
                vid[0] += 1
                tempo_hammer_case(h, acc, rng, vid[0])
                vid[0] += 1
                h.watch.reset()
                etempo_case(h, acc, rng, vid[0])
            if ck == 'TempoClock' or (ck_full == 'TempoClock-stop2' and clock.running()):
                clock.stop()
            if ck_full == 'TempoClock-stop2':
                for where in ('own', 'other'):
                    vid[0] += 1
                    cmdperiod_in_task_case(h, acc, rng, vid[0], where)
    h.report_lockmon(acc)
    acc.maxi('max_host_oversleep_s', h.watch.max_oversleep)


def move_case(h, acc, clock, ck, rng, rnd):
    """Deterministic little history: x scheduled, x scheduled again (moved
    earlier or later), y behind them, and finally z: each is awakened once."""
    h.recs.clear()
    h.log.events.clear()
    h.watch.reset()
    single = [{'ret': None}]
    earlier = rng.random() < 0.6
    t_x, t_move = (0.3, 0.1) if earlier else (0.1, 0.3)
    # far: x is the head of the queue with a distant deadline, the clock sleeps
    # on it, then the same object is scheduled again for (almost) now
    far = rnd % 2 == 1
    if far:
        earlier, t_x, t_move = True, 30.0, 0.1
    x = h.do_sched(clock, 'rel', t_x, single, 'tk', ('thread', 'mv'))
    others = [h.do_sched(clock, 'rel', rng.choice([0.05, 0.2, 0.35]), single, 'tk',
                         ('thread', 'mv')) for _ in range(0 if far else rng.randint(0, 3))]
    time.sleep(0.05 if far else rng.choice([0, 0.01]))
    h.do_move(x, t_move)
    if rng.random() < 0.5:
        h.do_move(others[0], 0.25) if others else None
    y = h.do_sched(clock, 'rel', 0.45, single, 'tk', ('thread', 'mv'))
    time.sleep(0.45 * (2.0 if ck == 'TempoClock' else 1.0) + 0.7)
    z = h.do_sched(clock, 'rel', 0.02, single, 'tk', ('thread', 'mv'))
    time.sleep(0.75)
    starved = h.watch.max_oversleep > 0.25 or h.watch.max_step > 0.05 or h.watch.overloaded
    analyze(h, acc, 0.6, h.main.elapsed_time(), starved=starved, label='move')
    acc.count('move_cases')
    acc.count('move_cases_head_moved_earlier', int(far))
    acc.case(h64(('move', ck, rnd, earlier, far)), nontrivial=True)


def tie_move_case(h, acc, clock, ck, rng, rnd):
    """Exact ties: task objects scheduled with sched_abs at two instants, then
    some of them scheduled again (moved) to one of the same instants.  A task is
    awakened once, in order of time, ties in order of the LAST scheduling call of
    each task."""
    if ck == 'AppClock':
        return          # schedules relative to a drifting present: no exact ties
    from sc3.base.functions import Function
    n = rng.randint(2, 6)
    woke = []

    def mk(k):
        def f():
            woke.append(k)
        return Function(f)
    items = [mk(k) for k in range(n)]
    if ck == 'SystemClock':
        t0, d = h.main.elapsed_time() + 0.3, 0.05
    else:
        t0, d = clock.elapsed_beats() + 1.0, 0.125      # tempo >= 1: <= 1 s ahead
    last = {}
    seq = 0
    hist = []
    for k in range(n):
        t = t0 + d * rng.randint(0, 1)
        clock.sched_abs(t, items[k])
        last[k] = (t, seq)
        hist.append(('sched_abs', k, round(t - t0, 6)))
        seq += 1
    for _ in range(rng.randint(1, 4)):
        k = rng.randrange(n)
        t = t0 + d * rng.randint(0, 1)
        clock.sched_abs(t, items[k])
        last[k] = (t, seq)
        hist.append(('again', k, round(t - t0, 6)))
        seq += 1
    exp = sorted(range(n), key=lambda k: last[k])
    t_end = time.time() + 4.0
    while len(woke) < n and time.time() < t_end:
        time.sleep(0.02)
    time.sleep(0.15)
    with h.main._main_lock:
        got = list(woke)
    acc.count('tie_move_cases')
    acc.case(h64(('tie-move', ck, tuple(hist))), nontrivial=True)
    if got != exp:
        what = 'order' if sorted(got) == sorted(exp) else \
            'woken-too-often' if len(got) > len(exp) else 'not-woken-in-time'
        if what == 'not-woken-in-time' and (h.watch.max_oversleep > 0.5):
            acc.count('late_ignored_starved')
            return
        acc.violation(f'C08/{what}/{ck}/moved-task-exact-tie',
                      {'history': hist, 'expected': exp, 'got': got, 'round': rnd})


def inf_return_case(h, acc, clock, ck, rng, rnd):
    """A task that returns (a routine that yields) inf is never awakened again -
    and the clock goes on: with nothing else pending, a task scheduled
    afterwards is awakened."""
    h.recs.clear()
    h.log.events.clear()
    h.watch.reset()
    kind = rng.choice(['tk', 'fn', 'rout'])
    plan = [{'ret': 0.01}, {'ret': 'INF'}] if rng.random() < 0.5 else [{'ret': 'INF'}]
    a = h.do_sched(clock, 'rel', 0.02, plan, kind, ('thread', 'inf'))
    time.sleep(0.35)
    b = h.do_sched(clock, 'rel', 0.02, [{'ret': None}], 'tk', ('thread', 'inf'))
    time.sleep(0.6 if ck == 'TempoClock' else 0.45)
    acc.count('inf_return_cases')
    acc.case(h64(('inf-return', ck, kind, len(plan))), nontrivial=True)
    starved = h.watch.max_oversleep > 0.25 or h.watch.max_step > 0.05
    if a['nwakes'] > len(plan):
        acc.violation(f'C08/woken-too-often/{ck}/after-returning-inf',
                      {'task': _rec_repr(a), 'wakes': a['nwakes']})
    elif b['nwakes'] != 1 and not starved:
        acc.violation(f'C08/not-woken-in-time/{ck}/after-another-task-returned-inf',
                      {'task_that_returned_inf': _rec_repr(a), 'probe': _rec_repr(b),
                       'clock_thread_deaths': list(getattr(h, 'deaths', []))[:2]})


def same_function_case(h, acc, clock, ck, rng, rnd):
    """One ordinary function object (not a Function / Routine instance)
    scheduled several times while the earlier schedulings are still pending:
    every scheduling is its own task - the function is awakened once per
    scheduling, at each of the times."""
    calls = []

    def plain_task():
        calls.append(h.main.elapsed_time())
    n = rng.randint(2, 4)
    delays = sorted(rng.sample([0.08, 0.16, 0.24, 0.32, 0.4], n), reverse=rng.random() < 0.5)
    for d in delays:
        if ck != 'AppClock' and rng.random() < 0.3:
            now = clock.elapsed_beats() if ck == 'TempoClock' else h.main.elapsed_time()
            clock.sched_abs(now + d, plain_task)
        else:
            clock.sched(d, plain_task)
    t_end = time.time() + 3.0
    while len(calls) < n and time.time() < t_end:
        time.sleep(0.02)
    time.sleep(0.2)
    with h.main._main_lock:
        got = len(calls)
    acc.count('same_function_cases')
    acc.case(h64(('same-fn', ck, tuple(delays))), nontrivial=True)
    if got != n:
        if got < n and h.watch.max_oversleep > 0.5:
            acc.count('late_ignored_starved')
            return
        acc.violation(f"C08/{'woken-too-often' if got > n else 'not-woken-in-time'}/{ck}/"
                      'same-function-scheduled-several-times',
                      {'delays': delays, 'schedulings': n, 'invocations': got, 'round': rnd})


def etempo_case(h, acc, rng, vid):
    """etempo() (tempo change at the physical present) from a plain thread
    while a task is pending and the clock sleeps: the beat count continues and
    the task is awakened when its beat is reached at the new tempo."""
    clock = h.new_tempo(1.0, vid)
    time.sleep(rng.choice([0.3, 0.6]))          # the clock has run for a while
    woke = []
    from sc3.base.functions import Function

    def f():
        woke.append((h.main.elapsed_time(), clock.elapsed_beats()))
    b_sched = clock.elapsed_beats()
    ahead = 0.5
    clock.sched_abs(b_sched + ahead, Function(f))
    time.sleep(0.05)
    new_tempo = rng.choice([2.0, 4.0])
    # the two time readings bracket the two beat readings
    t0 = h.main.elapsed_time()
    b0 = clock.elapsed_beats()
    clock.etempo(new_tempo)
    b1 = clock.elapsed_beats()
    t1 = h.main.elapsed_time()
    acc.count('etempo_cases')
    acc.case(h64(('etempo', vid)), nontrivial=True)
    # continuity: between the two readings at most (t1 - t0) * max tempo beats
    if not (b0 - 1e-9 <= b1 <= b0 + (t1 - t0) * max(1.0, new_tempo) + 1e-6):
        acc.violation('C08/beats-not-continuous-across-etempo/TempoClock',
                      {'beats_before': b0, 'beats_after': b1, 'seconds_between': t1 - t0,
                       'new_tempo': new_tempo})
        clock.stop()
        return
    due = t1 + max(0.0, (b_sched + ahead) - b1) / new_tempo
    t_end = time.time() + 4.0
    while not woke and time.time() < t_end:
        time.sleep(0.02)
    if not woke:
        if h.watch.max_oversleep > 0.5:
            acc.count('late_ignored_starved')
        else:
            acc.violation('C08/not-woken-in-time/TempoClock/after-etempo',
                          {'scheduled_beat': b_sched + ahead, 'beats_at_etempo': b1,
                           'new_tempo': new_tempo})
    else:
        late = woke[0][0] - due
        acc.maxi('max_lateness_after_etempo_s', late)
        if woke[0][1] < b_sched + ahead - 1e-9:
            acc.violation('C08/early-wakeup/TempoClock', {'after': 'etempo', 'woke': woke[0],
                                                          'scheduled_beat': b_sched + ahead})
        elif late > 0.6 and not h.watch.max_oversleep > 0.25:
            acc.violation('C08/late-wakeup/TempoClock/after-etempo',
                          {'late_s': late, 'scheduled_beat': b_sched + ahead,
                           'beats_at_etempo': b1, 'new_tempo': new_tempo})
    clock.stop()


def map_change_case(h, acc, rng, vid, how, who):
    """A tempo clock sleeps on a task that is far ahead (8 beats at tempo 1);
    its beat/second map is changed so that the task becomes due soon - by
    `tempo = 16`, `etempo(16)` or a forward jump of `beats` - issued by `who`:
    a plain thread, a task that SystemClock / AppClock / another TempoClock is
    awakening, or a plain thread while SystemClock is busy with a slow task.
    The pending task must be awakened at its new deadline, never before its beat."""
    from sc3.base.functions import Function
    clk = h.clk
    clock = h.new_tempo(1.0, vid)
    other = None
    time.sleep(rng.choice([0.05, 0.2]))
    woke = []

    def f():
        woke.append((h.main.elapsed_time(), clock.elapsed_beats()))
    ahead = 8.0
    target = clock.elapsed_beats() + ahead
    clock.sched_abs(target, Function(f))
    time.sleep(0.15)                    # the clock thread is asleep on it now
    done = threading.Event()
    err = []

    def change():
        try:
            if how == 'tempo':
                clock.tempo = 16.0
            elif how == 'etempo':
                clock.etempo(16.0)
            else:
                clock.beats = clock.beats + (ahead - 0.5)
        except Exception as e:      # noqa
            err.append(repr(e))
        done.set()

    def change_task():              # (no parameters: arguments go by count)
        change()
    if who == 'thread':
        change()
    elif who == 'thread-while-busy':
        def slow():
            time.sleep(0.3)
        clk.SystemClock.sched(0, Function(slow))
        time.sleep(0.1)
        change()
    else:
        if who == 'TempoClock':
            other = h.new_tempo(2.0, vid + 100000)
            other.sched(0, Function(change_task))
        else:
            getattr(clk, who).sched(0, Function(change_task))
        if not done.wait(5.0):
            acc.count('map_change_not_performed')
            clock.stop()
            if other is not None:
                other.stop()
            return
    t1 = h.main.elapsed_time()
    b1 = clock.elapsed_beats()
    acc.count('map_change_cases')
    acc.count(f'map_change/{how}/from-{who}')
    acc.case(h64(('map', how, who, vid)), nontrivial=True)
    if err:
        acc.violation(f'C08/map-change-raised/{how}/from-{who}', {'error': err[0]})
    else:
        new_tempo = 1.0 if how == 'beats' else 16.0
        due = t1 + max(0.0, target - b1) / new_tempo
        # the old deadline is at least 7 s away: a clock that keeps sleeping on it
        # is not awake within 4 s (the new one is at most 0.6 s away)
        t_end = time.time() + 4.0
        while not woke and time.time() < t_end:
            time.sleep(0.01)
        if not woke:
            if h.watch.max_oversleep > 0.5:
                acc.count('late_ignored_starved')
            else:
                acc.violation(f'C08/not-woken-in-time/TempoClock/after-{how}-change/from-{who}',
                              {'scheduled_beat': target, 'beats_after_change': b1,
                               'due_in_s': due - t1})
        else:
            late = woke[0][0] - due
            acc.maxi('max_lateness_after_map_change_s', late)
            if woke[0][1] < target - 1e-6:
                acc.violation('C08/early-wakeup/TempoClock',
                              {'after': how, 'from': who, 'woke': woke[0],
                               'scheduled_beat': target})
            elif late > 0.8 and not h.watch.max_oversleep > 0.25:
                acc.violation(f'C08/late-wakeup/TempoClock/after-{how}-change/from-{who}',
                              {'late_s': late, 'scheduled_beat': target})
    clock.stop()
    if other is not None:
        other.stop()


def run_mapchange(spec, acc):
    cfg = spec['shard']
    seed = derive_seed(spec['seed'], 'C08', cfg['name'])
    rng = random.Random(seed)
    h = H()
    h.start_hang_monitor(acc, spec)
    combos = [(how, who) for how in ('tempo', 'etempo', 'beats')
              for who in ('thread', 'SystemClock', 'AppClock', 'TempoClock',
                          'thread-while-busy')]
    random.Random(derive_seed(spec['seed'], 'C08', 'mapchange')).shuffle(combos)
    combos = combos[cfg['part']::cfg['parts']]
    vid = 5000 + cfg['part'] * 1000
    t_end = time.time() + cfg['secs']
    for rnd in range(cfg['rounds']):
        for how, who in combos:
            if time.time() > t_end:
                break
            vid += 1
            h.watch.reset()
            map_change_case(h, acc, rng, vid, how, who)
    h.report_lockmon(acc)
    acc.maxi('max_host_oversleep_s', h.watch.max_oversleep)


def cmdperiod_in_task_case(h, acc, rng, vid, where):
    """CmdPeriod.run() (clears every clock, stops the non-permanent tempo clocks)
    called by a task: `where` = 'own' - a task of the tempo clock itself, with
    other tasks due at the very same beat behind it and later; 'other' - a task
    of SystemClock that keeps the library lock for 40 ms while a task of the
    tempo clock becomes due.  Everything pending when run() is called is
    cancelled: none of those tasks may be awakened afterwards."""
    from sc3.base.functions import Function
    from sc3.base.systemactions import CmdPeriod
    clk = h.clk
    clock = h.new_tempo(2.0, vid)
    time.sleep(0.05)
    woke = []
    called = []

    def mk(name):
        def f():
            woke.append((name, h.main.elapsed_time()))
        return Function(f)

    def x_own():
        called.append(h.main.elapsed_time())
        CmdPeriod.run()

    def x_other():
        time.sleep(0.04)            # the tempo clock's task becomes due meanwhile
        called.append(h.main.elapsed_time())
        CmdPeriod.run()
    b = clock.elapsed_beats() + 0.3
    if where == 'own':
        clock.sched_abs(b, Function(x_own))
        for name in ('same-beat-1', 'same-beat-2'):
            clock.sched_abs(b, mk(name))
        clock.sched_abs(b + 0.05, mk('later'))
    else:
        t = h.main.elapsed_time() + 0.15
        clk.SystemClock.sched_abs(t, Function(x_other))
        clock.sched_abs(clock.secs2beats(t + 0.02), mk('due-while-caller-runs'))
        clock.sched_abs(clock.secs2beats(t + 0.2), mk('later'))
    t_end = time.time() + 3.0
    while not called and time.time() < t_end:
        time.sleep(0.01)
    time.sleep(0.5)
    acc.count('cmdperiod_in_task_cases')
    acc.count('cmdperiod_in_task_cases/' + where)
    acc.case(h64(('cmdperiod-in-task', where, vid)), nontrivial=True)
    if not called:
        acc.count('cmdperiod_in_task_not_called')
    else:
        after = [w for w in woke if w[1] >= called[0]]
        if after:
            acc.violation(f'C08/woken-after-stop/TempoClock/cmd-period-called-by-a-task-of-'
                          f'{"the-clock-itself" if where == "own" else "another-clock"}',
                          {'awakened_after_the_call': [w[0] for w in after],
                           'seconds_after': [round(w[1] - called[0], 6) for w in after]})
    if clock.running():
        try:
            clock.stop()
        except Exception:
            pass


def tempo_hammer_case(h, acc, rng, vid):
    """A plain thread changes the tempo of a clock (REPL style, no lock of its
    own) as fast as it can while many tasks are due on that clock: every task
    must still find, when it is awakened, that the clock has reached its beat."""
    h.recs.clear()
    h.log.events.clear()
    h.watch.reset()
    clock = h.new_tempo(4.0, vid)
    stop = [False]
    changes = [0]

    def hammer():
        r = random.Random(vid)
        while not stop[0]:
            try:
                clock.tempo = r.choice([2.0, 3.0, 4.0, 6.0, 8.0])
                changes[0] += 1
            except Exception as e:
                h.errors.append(('tempo-hammer', repr(e)))
                return
            if changes[0] % 20 == 0:
                time.sleep(0)
    b0 = clock.elapsed_beats()
    for k in range(150):
        h.do_sched(clock, 'abs', b0 + 0.2 + k * 0.03, [{'ret': 0.01}, {'ret': None}],
                   'tk', ('thread', 'th'), ahead=0.2 + k * 0.03)
    th = threading.Thread(target=hammer, daemon=True)
    th.start()
    time.sleep(1.6)
    stop[0] = True
    th.join(2)
    time.sleep(3.0)     # slowest tempo 2: 4.7 beats / 2 = 2.4 s in total
    starved = h.watch.max_oversleep > 0.5 or h.watch.max_step > 0.05
    analyze(h, acc, LATE_PARK, h.main.elapsed_time(), starved=starved, label='tempo-hammer')
    acc.count('tempo_hammer_cases')
    acc.count('tempo_changes_from_plain_thread', changes[0])
    acc.case(h64(('tempo-hammer', vid)), nontrivial=changes[0] > 100)
    for e in h.errors[:2]:
        acc.violation('C08/harness-call-raised/' + e[0], {'error': e[1]})
    del h.errors[:]
    clock.stop()


def run_shard(spec, acc):
    kind = spec['shard']['kind']
    if kind == 'stress':
        run_stress(spec, acc)
    elif kind == 'park':
        run_park(spec, acc)
    elif kind == 'clear':
        run_clear(spec, acc)
    elif kind == 'mapchange':
        run_mapchange(spec, acc)
