"""Reference model for C12 (does NOT import sc3): the affine beat<->second map
of a tempo clock, its meter reference, and the quantisation grid oracle.

Map:    beats(s) = (s - base_secs) * tempo + base_beats
        secs(b)  = (b - base_beats) / tempo + base_secs
tempo change at second s   : re-base at (s, beats(s)), then tempo := v
beats := v at second s     : re-base at (s, v)
Meter:  bars(b) = (b - base_bar_beat) / beats_per_bar + base_bar
meter change at beat b     : base_bar := integer bar number next to bars(b)
                             (any rounding is accepted by the monitor),
                             base_bar_beat := b, beats_per_bar := v
Grid:   points base_bar_beat + phase + k * quant, k integer.
"""

import math

EPS = 2.220446049250313e-16


class TempoMap:
    def __init__(self, tempo, base_beats, base_secs):
        self.tempo = float(tempo)
        self.base_beats = float(base_beats)
        self.base_secs = float(base_secs)
        self.changes = 0
        # magnitudes seen, for the rounding bound
        self.max_tempo = self.tempo
        self.min_tempo = self.tempo
        self.max_abs_secs = abs(self.base_secs)
        self.max_abs_beats = abs(self.base_beats)
        # meter
        self.bpb = 4.0
        self.base_bar = 0.0
        self.base_bar_beat = 0.0

    def copy(self):
        m = TempoMap(self.tempo, self.base_beats, self.base_secs)
        m.__dict__.update(self.__dict__)
        return m

    # -- map
    def beats(self, s):
        return (s - self.base_secs) * self.tempo + self.base_beats

    def secs(self, b):
        return (b - self.base_beats) / self.tempo + self.base_secs

    def _seen(self, s=None, b=None):
        if s is not None:
            self.max_abs_secs = max(self.max_abs_secs, abs(s))
        if b is not None:
            self.max_abs_beats = max(self.max_abs_beats, abs(b))

    def set_tempo(self, v, s):
        b = self.beats(s)
        self._seen(s, b)
        self.base_secs, self.base_beats, self.tempo = float(s), b, float(v)
        self.max_tempo = max(self.max_tempo, self.tempo)
        self.min_tempo = min(self.min_tempo, self.tempo)
        self.changes += 1

    def rebase(self, v, s, b):
        """Adopt a new line through (s, b) with tempo v (real-time etempo: the
        instant of the change is only known to lie in an interval)."""
        self._seen(s, b)
        self.base_secs, self.base_beats, self.tempo = float(s), float(b), float(v)
        self.max_tempo = max(self.max_tempo, self.tempo)
        self.min_tempo = min(self.min_tempo, self.tempo)
        self.changes += 1

    def set_beats(self, v, s):
        self._seen(s, v)
        self.base_secs, self.base_beats = float(s), float(v)
        self.changes += 1

    # -- tolerances -----------------------------------------------------
    # Both the clock and this model evaluate an affine map in IEEE doubles;
    # every re-basing rounds a second and a beat value.  A rounding error of
    # one ulp of the largest second value seen is worth tempo * ulp beats and
    # vice versa.  The bound allows 16 ulp per change on top of the
    # 1e-9 relative + 1e-9 absolute tolerance of the design.
    def tol_beats(self, *vals):
        mag = max([1.0, self.max_abs_beats] + [abs(v) for v in vals])
        cond = 16 * EPS * (self.changes + 2) * (
            self.max_abs_beats + self.max_tempo * (self.max_abs_secs + 1.0))
        return 1e-9 * mag + 1e-9 + cond

    def tol_secs(self, *vals):
        mag = max([1.0, self.max_abs_secs] + [abs(v) for v in vals])
        cond = 16 * EPS * (self.changes + 2) * (
            self.max_abs_secs + (self.max_abs_beats + 1.0) / self.min_tempo)
        return 1e-9 * mag + 1e-9 + cond

    # -- meter
    def bars(self, b):
        return (b - self.base_bar_beat) / self.bpb + self.base_bar

    def bars2beats(self, bars):
        return (bars - self.base_bar) * self.bpb + self.base_bar_beat

    def set_meter(self, v, b, observed_base_bar):
        """The integer bar number chosen by the clock is adopted (any rounding
        of the running bar number is allowed); returns None or a complaint."""
        x = self.bars(b)
        why = None
        tol = 1e-9 * max(1.0, abs(x))
        if observed_base_bar != math.floor(observed_base_bar):
            why = f'base_bar {observed_base_bar} is not a whole number'
        elif not (math.floor(x - tol) <= observed_base_bar <= math.ceil(x + tol)):
            why = (f'base_bar {observed_base_bar} is not next to the running '
                   f'bar number {x}')
        self.base_bar = float(observed_base_bar)
        self.base_bar_beat = float(b)
        self.bpb = float(v)
        return why


def _whole(v):
    return abs(v) < 2.0 ** 31 and v == math.floor(v)


def grid_tol(*vals):
    return 1e-9 * max([1.0] + [abs(v) for v in vals]) + 1e-9


def grid_check(result, quant, phase, ref, base_bar_beat, tol_extra=0.0,
               ref_hi=None, direct=False):
    """Oracle for next_time_on_grid: None when `result` is an allowed answer,
    else (mechanism, text).  Accepts a result within tolerance of a grid point,
    not before ref (minus tolerance) and less than one quantum after it.
    When the reference beat is only known to lie in [ref, ref_hi] (real time,
    call from outside a routine) both ends are given.  direct=True: `result`
    is the value returned for exactly these arguments (not a beat that went
    through conversions), which makes the whole-number case exact."""
    if ref_hi is None:
        ref_hi = ref
    if not isinstance(result, (int, float)) or isinstance(result, bool) \
            or result != result:
        return 'not-a-number', f'result {result!r}'
    tol = grid_tol(result, ref, base_bar_beat, quant, phase) + tol_extra
    if quant == 0:
        if not (ref + phase - tol <= result <= ref_hi + phase + tol):
            return 'quant-zero', f'{result} != ref + phase = {ref + phase}'
        return None
    if direct and ref == ref_hi and all(_whole(v) for v in (quant, phase, ref,
                                                 base_bar_beat)):
        # whole numbers: nothing is rounded anywhere, the answer is exact
        pp = int(phase) % int(quant)
        x = int(ref) - int(base_bar_beat) - pp
        want = -((-x) // int(quant)) * int(quant) + int(base_bar_beat) + pp
        if result != want:
            return ('before-reference' if result < ref else
                    'not-earliest' if result > want else 'off-grid'), \
                f'{result} != {want} (whole-number case)'
        return None
    if result < ref - tol:
        return 'before-reference', f'{result} < ref {ref}'
    if result - ref_hi >= quant + tol:
        return 'not-earliest', (f'{result} is {result - ref_hi} after ref '
                                f'{ref_hi}, quant {quant}')
    x = (result - base_bar_beat - phase) / quant
    d = abs(x - round(x)) * quant
    if d > tol:
        return 'off-grid', (f'{result} is {d} away from the grid '
                            f'{base_bar_beat} + {phase} + k * {quant}')
    return None
