"""C18 receive port: 'with the message, its time, sender and PORT'.

Class of behaviour (round 9): the receive port handed to responders, and
compared with their recv_port filter, must be the port the datagram really
arrived on - also when the library did not get the port it asked for first.
The library walks a range of candidate ports at start-up (sc3.LIB_PORT,
sc3.LIB_PORT_RANGE) and for every TCP connection (lang_port() + 1 ..., or the
local_port argument of NetAddr.connect); which port the socket ended up on is
kept in the interface's own bookkeeping, and that bookkeeping - not the socket -
is what every receive function is given.  In the other shards the first
candidate is always free, so the walk never takes a step.

This shard starts the library itself (worker mode 'none'): before sc3.init
other programs (UDP sockets of the harness) hold the first k candidate ports,
so the main interface is bound k or more ports further on.  Truth is what the
kernel says (getsockname of the interface's socket, the remote port the
accepting side of a TCP connection sees) and what the harness observes from
outside: a datagram sent to a held port is read by the harness' own socket and
must not be dispatched, one sent to the bound port must be, with that port.
Then the ordinary histories (vf/c18_hist.py: responders with and without
recv_port filter, extra ports opened by responders, over _handle_request and
over loop-back UDP) and TCP frames (vf/c18_tcp.py: connections whose first
candidate ports are held by listening sockets of the harness) run against this
library instance; every expectation uses the true port."""

import os
import socket
import time

from . import osc
from .common import REPO


def start_library(acc, held, rng_base):
    """Other programs hold the first `held` candidate ports -> (base, blockers)"""
    import sc3
    assert os.path.realpath(sc3.__file__).startswith(
        os.path.realpath(REPO) + os.sep), (sc3.__file__, REPO)
    localhost = socket.gethostbyname('localhost')
    for attempt in range(20):
        base = 20000 + (os.getpid() * 61 + 977 * attempt + rng_base) % 30000
        blockers = []
        try:
            for k in range(held):
                s = socket.socket(socket.AF_INET, socket.SOCK_DGRAM)
                blockers.append(s)
                s.bind((localhost, base + k))
                s.setblocking(False)
            break
        except OSError:
            for s in blockers:
                s.close()
            continue
    else:
        raise RuntimeError('no run of free UDP ports found')
    sc3.LIB_PORT = base
    sc3.LIB_PORT_RANGE = held + 40
    sc3.init('rt', verbosity='CRITICAL', blocking=True)
    return base, blockers


def drain(sock):
    out = []
    try:
        while True:
            out.append(sock.recvfrom(65536)[0])
    except (BlockingIOError, OSError):
        pass
    return out


def run(spec, acc):
    from . import c18_hist, c18_tcp
    cfg = spec['shard']
    held = int(cfg.get('held', 1))
    base, blockers = start_library(acc, held, spec['seed'])
    from .c18_rig import Rig, CANARY
    from sc3.base.netaddr import NetAddr
    rig = Rig()
    acc.count('port_library_started_behind_held_ports')
    acc.count('port_candidates_held', held)
    acc.count('port_walk_steps', rig.port - base)
    w = {'first_candidate': base, 'held_by_others': [base + k for k in range(held)],
         'bound_port': rig.port, 'interface_port': rig.itf.port,
         'lang_port': NetAddr.lang_port()}
    if rig.port in w['held_by_others']:
        acc.mark_inconclusive('the library is bound to a port the harness holds')
        return
    # -- from outside: where do datagrams arrive? --------------------------
    rig.udp_client()
    seen = []
    rig.main.add_osc_recv_func(
        lambda msg, time_, addr, port: seen.append((list(msg), port))
        if msg and msg[0] == '/__vf/port' else None)
    for k, b in enumerate(blockers):
        rig.sock.sendto(osc.enc_msg('/__vf/port', base + k), ('127.0.0.1', base + k))
    rig.sock.sendto(osc.enc_msg('/__vf/port', rig.port), ('127.0.0.1', rig.port))
    rig.mon.arm(256)
    ok = rig._canary(True, 10.0) or rig._canary(True, 30.0)
    if not ok:
        acc.violation('C18/receiver-dead/after-start-up-behind-held-ports', w)
        return
    end = time.monotonic() + 2.0
    got_by_others = []
    while time.monotonic() < end and len(got_by_others) < len(blockers):
        for b in blockers:
            got_by_others += drain(b)
        time.sleep(0.001)
    acc.count('port_datagrams_read_by_the_other_programs', len(got_by_others))
    w['dispatched'] = seen[:6]
    stray = [m for m, p in seen if m[1] != rig.port]
    if stray:
        acc.violation('C18/recv-port/datagram-for-a-port-held-by-others-dispatched', w)
    mine = [(m, p) for m, p in seen if m[1] == rig.port]
    acc.count('port_outside_probes')
    if len(mine) != 1:
        acc.violation('C18/recv-port/datagram-for-the-bound-port-not-dispatched-once', w)
    elif mine[0][1] != rig.port:
        acc.violation('C18/recv-port/main/not-the-port-the-datagram-arrived-on'
                      '/after-range-walk', w)
    if NetAddr.lang_port() != rig.port:
        # (what a user filters on; the deliveries below decide)
        acc.count('observed_lang_port_is_not_the_bound_port')
    # -- histories and TCP frames against this instance --------------------
    n, secs = cfg.get('n', 300), cfg.get('secs', 30)
    first = cfg.get('first_case', 0)
    t0 = time.time()

    def sub(n_, share, offset):
        left = max(3.0, secs * share)
        return dict(spec, shard=dict(cfg, n=n_, first_case=10_000_000 * (held + 1)
                                     + offset + first, secs=left))
    c18_hist.run(sub(max(1, n * 5 // 10), 0.45, 0), acc, udp=False, rig=rig)
    c18_hist.run(sub(max(1, n * 1 // 10), 0.25, 1_000_000), acc, udp=True, rig=rig)
    c18_tcp.run(sub(max(1, n * 4 // 10), 0.30, 2_000_000), acc, rig=rig, every=25)
    acc.count('port_shard_seconds', int(time.time() - t0))
    for name in ('hist_messages', 'invocations_checked', 'udp_datagrams', 'tcp_frames',
                 'tcp_connections_behind_held_ports', 'tcp_recv_port_filter_checks',
                 'recv_ports_opened_by_creation'):
        acc.count('port_shard/' + name, acc.counters.get(name, 0))
    for b in blockers:
        b.close()
