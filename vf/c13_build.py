"""AST (vf/model_patterns) -> real sc3 pattern objects, stream drivers and the
immutability snapshot used by C13.  Imports sc3 lazily (worker only)."""

import copy
import operator
import signal

from vf.model_patterns import isnode, COLLECT, PRED, INF, iv, Inval, OMIT


class RealTimeout(Exception):
    pass


def _alarm(signum, frame):
    raise RealTimeout()


class time_limit:
    """SIGALRM based limit; may be nested (the outer limit keeps running)."""

    def __init__(self, secs):
        self.secs = secs

    def __enter__(self):
        import time
        self.t0 = time.monotonic()
        self.prev = signal.getitimer(signal.ITIMER_REAL)[0]
        self.old = signal.signal(signal.SIGALRM, _alarm)
        secs = min(self.secs, self.prev) if self.prev > 0 else self.secs
        signal.setitimer(signal.ITIMER_REAL, secs)

    def __exit__(self, *exc):
        import time
        if self.prev > 0:
            left = self.prev - (time.monotonic() - self.t0)
            signal.setitimer(signal.ITIMER_REAL, max(left, 0.001))
        else:
            signal.setitimer(signal.ITIMER_REAL, 0)
        signal.signal(signal.SIGALRM, self.old)
        return False


_mods = {}


def mods():
    if not _mods:
        from sc3.seq.patterns import listpatterns as lp, filterpatterns as fp, \
            valuepatterns as vp, funcpatterns as up
        from sc3.seq import pattern as ptt
        from sc3.base import builtins as bi, stream as stm
        _mods.update(lp=lp, fp=fp, vp=vp, up=up, ptt=ptt, bi=bi, stm=stm)
        # Ptrace prints through the logger 'Ptrace': keep the records (the
        # last few) instead of writing them to the worker's stderr
        import logging
        lg = logging.getLogger('Ptrace')
        lg.addHandler(TRACE)
        lg.setLevel(logging.INFO)
        lg.propagate = False
    return _mods


import collections
import logging as _logging


class _TraceHandler(_logging.Handler):
    def __init__(self):
        super().__init__(_logging.INFO)
        self.records = collections.deque(maxlen=4096)
        self.total = 0

    def emit(self, record):
        self.total += 1
        try:
            self.records.append(record.getMessage())
        except Exception as e:          # formatting failed: keep the fact
            self.records.append(f'<unformattable: {type(e).__name__}>')

    def createLock(self):               # the harness interrupts with SIGALRM:
        self.lock = None                # no lock that could stay held

    def acquire(self):
        pass

    def release(self):
        pass


TRACE = _TraceHandler()


PYOPS = {'add': operator.add, 'sub': operator.sub, 'mul': operator.mul,
         'mod': operator.mod, 'truediv': operator.truediv,
         'lt': operator.lt, 'le': operator.le, 'gt': operator.gt,
         'ge': operator.ge, 'eq': operator.eq, 'ne': operator.ne}


REPAIR = set()      # classifier only: class names built in a corrected form
_fixed = {}


def fixed_classes():
    """Harness-side corrected variants of two embedding generators, used ONLY
    to decide which mechanism explains a mismatch (never for a verdict)."""
    if not _fixed:
        m = mods()
        stm = m['stm']

        class PdropFixed(m['fp'].Pdrop):
            def __embed__(self, inval):
                stream = stm.stream(self.pattern)
                try:
                    for _ in range(self.n):
                        stream.next(inval)
                    while True:
                        inval = yield stream.next(inval)
                except stm.StopStream:
                    pass
                return inval

        class ProutFixed(m['up'].Prout):
            def __embed__(self, inval):
                it = self.func(inval) if self._func_has_inval else self.func()
                try:
                    inval = yield next(it)
                    while True:
                        inval = yield it.send(inval)
                except StopIteration as e:
                    return e.value

        class PproductAlias(m['up'].Pproduct):
            # every value gets its own list
            def __init__(self, func, patterns):
                super().__init__(func, patterns)
                f = self.func
                self.func = lambda values: f(list(values))

        class PproductInval(m['up'].Pproduct):
            # input values are handed to the sources and on to what follows
            def __embed__(self, inval):
                n = len(self.patterns)
                return (yield from self._rec(inval, 0, [None] * n))

            def _rec(self, inval, level, values):
                s = stm.stream(self.patterns[level])
                try:
                    while True:
                        values[level] = s.next(inval)
                        if level < len(values) - 1:
                            inval = yield from self._rec(inval, level + 1, values)
                        else:
                            inval = yield self.func(values)
                except stm.StopStream:
                    pass
                return inval

        class PproductBoth(PproductInval):
            def __init__(self, func, patterns):
                super().__init__(func, patterns)
                f = self.func
                self.func = lambda values: f(list(values))
        _fixed.update(Pdrop=PdropFixed, Prout=ProutFixed)
        _fixed[True, False] = PproductInval
        _fixed[False, True] = PproductAlias
        _fixed[True, True] = PproductBoth
    return _fixed


def build(x):
    """Real object for an AST; literals are deep-copied so that the library
    never shares structure with the model's input."""
    if not isnode(x):
        return copy.deepcopy(x)
    m = mods()
    lp, fp, vp, up, bi = m['lp'], m['fp'], m['vp'], m['up'], m['bi']
    name = x[0]
    B = build
    if REPAIR:
        fx = fixed_classes()
        if 'Pdrop' in REPAIR:
            fp = type('fp', (), dict(vars(fp)))
            fp.Pdrop = fx['Pdrop']
        pp = ('Pproduct-inval' in REPAIR, 'Pproduct-alias' in REPAIR)
        if 'Prout' in REPAIR or any(pp):
            up = type('up', (), dict(vars(up)))
            if 'Prout' in REPAIR:
                up.Prout = fx['Prout']
            if any(pp):
                up.Pproduct = fx[pp]
    if name == 'Pseq':
        return lp.Pseq([B(i) for i in x[1]], x[2], x[3])
    if name == 'Pser':
        return lp.Pser([B(i) for i in x[1]], x[2], x[3])
    if name == 'Place':
        return lp.Place([B(i) for i in x[1]], x[2], x[3])
    if name == 'PfuncnI':
        a, b = x[1], x[2]
        return up.Pfuncn(lambda inval: iv(inval) * a + b, x[3])
    if name == 'ProutI':
        a, vals = x[1], list(x[2])

        def irout(inval):
            for v in vals:
                inval = yield iv(inval) * a + v
            return inval
        return up.Prout(irout)
    if name == 'PcollectI':
        a = x[1]
        return fp.Pcollect(lambda v, inval: v + iv(inval) * a, B(x[2]))
    if name == 'PlazyI':
        a, vals = x[1], list(x[2])
        return up.Plazy(lambda inval: lp.Pseq([v + iv(inval) * a for v in vals], 1)
                        if vals else lp.Pseq([0], 0))
    if name == 'Pfuncn':
        v = x[1]
        return up.Pfuncn((lambda: v) if x[2] != 1 else (lambda inval: v), x[2])
    if name == 'Pfunc':
        v = x[1]
        return up.Pfunc(lambda: v)
    if name == 'Plazy':
        sub = x[1]
        return up.Plazy(lambda inval: B(sub))
    if name == 'Prout':
        vals = list(x[1])

        def rout(inval):      # embedding protocol: hand the input value on
            for v in vals:
                inval = yield v
            return inval
        return up.Prout(rout)
    if name == 'Placep':
        return lp.Placep([B(i) for i in x[1]], x[2], x[3])
    if name == 'Pn':
        return fp.Pn(B(x[1]), x[2])
    if name == 'Plen':
        return fp.Plen(B(x[1]), x[2])
    if name == 'Pdrop':
        return fp.Pdrop(B(x[1]), x[2])
    if name == 'Pstutter':
        return fp.Pstutter(B(x[1]), B(x[2]))
    if name == 'Pclump':
        return fp.Pclump(B(x[1]), B(x[2]))
    if name == 'Pflatten':
        return fp.Pflatten(B(x[1]), B(x[2]))
    if name == 'Pdiff':
        return fp.Pdiff(B(x[1]))
    if name == 'Pconst':
        if len(x) == 3:
            return fp.Pconst(B(x[1]), x[2])     # tolerance left out: 0.001
        if isinstance(x[3], float) and (x[3] * 8) % 1 == 0:
            return fp.Pconst(B(x[1]), x[2], tolerance=x[3])
        return fp.Pconst(B(x[1]), x[2], x[3])
    if name == 'Pswitch':
        return lp.Pswitch([B(i) for i in x[1]], B(x[2]))
    if name == 'Pswitch1':
        return lp.Pswitch1([B(i) for i in x[1]], B(x[2]))
    if name == 'Ptuple':
        return lp.Ptuple([B(i) for i in x[1]], x[2])
    if name == 'Pslide':
        return lp.Pslide([B(i) for i in x[1]], length=B(x[2]), step=B(x[3]),
                         start=x[4], wrap=x[5], repeats=x[6])
    if name in ('Pseries', 'Pgeom'):
        # omitted arguments are really left out of the call
        names = ('start', 'step' if name == 'Pseries' else 'grow', 'length')
        kw = {n: (B(a) if n != 'length' else a) for n, a in zip(names, x[1:])
              if not (isinstance(a, str) and a == OMIT)}
        return getattr(vp, name)(**kw)
    if name == 'Pcollect':
        return fp.Pcollect(COLLECT[x[1]], B(x[2]))
    if name == 'Pselect':
        return fp.Pselect(PRED[x[1]], B(x[2]))
    if name == 'Preject':
        return fp.Preject(PRED[x[1]], B(x[2]))
    if name == 'Pif':
        return up.Pif(B(x[1]), B(x[2]), B(x[3]))
    if name == 'Pwrap':
        return fp.Pwrap(B(x[1]), B(x[2]), B(x[3]))
    if name == 'Pseed':
        return fp.Pseed(B(x[1]), build_rand(x[2]))
    if name == 'Pwhile':
        _, op, t, sub = x
        if op == 'lt':
            f = lambda inval: iv(inval) < t
        elif op == 'ge':
            f = lambda inval: iv(inval) >= t
        elif op == 'always':
            f = (lambda: True) if isinstance(t, int) else (lambda inval: True)
        else:
            f = (lambda: False) if isinstance(t, int) else (lambda inval: False)
        return fp.Pwhile(f, B(sub))
    if name == 'Platch':
        if x[2] is True:
            return fp.Platch(B(x[1]))           # trig=True is the default
        return fp.Platch(B(x[1]), B(x[2]))
    if name == 'Pprorate':
        if x[2] == 1 and type(x[2]) is int:
            return fp.Pprorate(B(x[1]))         # proportion=1 is the default
        return fp.Pprorate(B(x[1]), B(x[2]))
    if name == 'Pproduct':
        return up.Pproduct(PRODUCT_FUNCS[x[1]], [B(i) for i in x[2]])
    if name == 'Pwalk':
        _, items, steps, dirs, start = x
        if isinstance(dirs, str) and dirs == OMIT:
            return lp.Pwalk([B(i) for i in items], B(steps), start=start)
        return lp.Pwalk([B(i) for i in items], B(steps), B(dirs), start)
    if name == 'Pgate':
        return fp.Pgate(B(x[1]), x[2], x[3])
    if name == 'Ptrace':
        if x[1] == 'meth':
            return B(x[2]).trace()
        if x[1] == 'prefix':
            return B(x[2]).trace('t:')
        return fp.Ptrace(B(x[2]))
    if name == 'Pvalue':
        return vp.Pvalue(B(x[1]))
    if name == 'Pgen':
        _, style, a, b, n = x
        cls = gen_classes()['Pgen' in REPAIR, style == 'plain']
        if style == 'kwargs':
            return cls(B(a), n=n, b=B(b))
        return cls(B(a), B(b), n)
    if name == 'Punop':
        _, op, form, a = x
        a = B(a)
        if op == 'neg':
            return -a if form == 'op' else a.neg()
        if op == 'abs':
            return abs(a) if form == 'op' else a.abs()
        if op == 'pos':
            return +a
        if op == 'squared':
            return a.squared() if form == 'meth' else bi.squared(a)
    if name == 'Pbinop':
        _, op, form, a, b = x
        a, b = B(a), B(b)
        if form == 'op':
            return PYOPS[op](a, b)
        if form == 'meth':
            return _method(a, op)(b)
        return getattr(bi, op)(a, b)
    if name == 'Pnarop':
        _, op, form, a, *args = x
        a = B(a)
        args = [B(i) for i in args]
        if form == 'meth':
            return _method(a, op)(*args)
        return getattr(bi, op)(a, *args)
    raise ValueError(name)


PRODUCT_FUNCS = {
    None: None,                                  # the default: the value list
    'list': lambda vals: list(vals),
    'sum': lambda vals: sum(vals),
    'dot': lambda vals: sum((i + 1) * v for i, v in enumerate(vals)),
}

_gen = {}


def gen_classes():
    """Patterns made with the `pattern` decorator (as its doc string shows:
    the arguments become streams and are pulled with next()).  'protocol'
    hands the value sent to it on (return value = last input value), 'plain'
    is written exactly like the doc string's example."""
    if not _gen:
        m = mods()
        stream = m['stm'].stream

        def gfunc_mix(a, b, n):
            sa, sb = stream(a), stream(b)
            inval = None
            for _ in range(n):
                try:
                    x = next(sa)
                    y = next(sb)
                except StopIteration:
                    return inval
                inval = yield x * 2 + y
            return inval

        def gfunc_mix_plain(a, b, n):
            sa, sb = iter(stream(a)), stream(b)
            try:
                for _ in range(n):
                    x = next(sa)
                    y = next(sb)
                    yield x * 2 + y
            except StopIteration:
                return

        deco = m['ptt'].pattern
        _gen[False, False] = deco(gfunc_mix)
        _gen[False, True] = deco(gfunc_mix_plain)

        # classifier only: the decorator's pattern with an __embed__ that
        # hands the input values on (see fixed_classes)
        def fixed(cls):
            class Fixed(cls):
                def __embed__(self, inval=None):
                    it = type(self)._gfunc(*self._args, **self._kwargs)
                    try:
                        inval = yield next(it)
                        while True:
                            inval = yield it.send(inval)
                    except StopIteration:
                        return inval
            Fixed._gfunc = cls._gfunc
            return Fixed
        _gen[True, False] = fixed(_gen[False, False])
        _gen[True, True] = fixed(_gen[False, True])
    return _gen


shadowed = {}      # (class, operator method) hidden by an instance attribute


def _method(a, op):
    """Operator method of a pattern; an instance attribute of the same name
    (Pslide.wrap) hides it - that is C15's finding, here the class's method is
    used so that the sequence semantics can still be checked."""
    m = getattr(a, op)
    if not callable(m):
        shadowed[(type(a).__name__, op)] = shadowed.get((type(a).__name__, op), 0) + 1
        import functools
        return functools.partial(getattr(type(a), op), a)
    return m


def build_rand(spec):
    m = mods()
    lp, vp = m['lp'], m['vp']
    name = spec[0]
    if name == 'Pwhite':
        return vp.Pwhite(spec[1], spec[2], spec[3])
    if name == 'Pbrown':
        return vp.Pbrown(spec[1], spec[2], spec[3], spec[4])
    if name == 'Prand':
        return lp.Prand(list(spec[1]), spec[2])
    if name == 'Pxrand':
        return lp.Pxrand(list(spec[1]), spec[2])
    if name == 'Pshuffle':
        return lp.Pshuffle(list(spec[1]), spec[2])
    if name == 'Pwrand':
        return lp.Pwrand(list(spec[1]), None if spec[2] is None else list(spec[2]),
                         spec[3])
    if name in ('Plprand', 'Phprand', 'Pmeanrand', 'Pbeta', 'Pcauchy', 'Pgauss',
                'Ppoisson', 'Pexprand', 'Pgbrown'):
        return getattr(vp, name)(*spec[1:])
    if name == 'Pprob':
        return vp.Pprob(list(spec[1]), spec[2], spec[3], length=spec[4])
    if name == 'Pfsm':
        return lp.Pfsm(copy.deepcopy(spec[1]), spec[2])
    raise ValueError(name)


def rand_leaf_problem(spec, vals):
    """Range / length check of one seeded run of a random leaf (documented
    meaning: Pwhite lo..hi, Prand/Pxrand choose from the list - Pxrand never
    the same item twice in a row -, Pshuffle one permutation repeated, Pbrown
    stays in lo..hi moving at most step)."""
    name = spec[0]
    if name == 'Pwhite':
        _, lo, hi, n = spec
        if len(vals) != n:
            return 'length'
        if any(not (lo <= v <= hi) for v in vals):
            return 'range'
        if isinstance(lo, int) and isinstance(hi, int) and \
                any(not isinstance(v, int) for v in vals):
            return 'type'
    elif name == 'Pbrown':
        _, lo, hi, step, n = spec
        if len(vals) != n:
            return 'length'
        if any(not (lo <= v <= hi) for v in vals):
            return 'range'
        # "step: maximum change per step": where no reflection at a boundary
        # is possible the next value is within step of the previous one
        for a, b in zip(vals, vals[1:]):
            if lo <= a - step and a + step <= hi and abs(b - a) > step * (1 + 1e-9):
                return 'moved-more-than-step'
    elif name in ('Prand', 'Pxrand'):
        _, items, n = spec
        if len(vals) != n:
            return 'length'
        if any(v not in items for v in vals):
            return 'range'
        if name == 'Pxrand' and len(items) > 1 and \
                any(a == b for a, b in zip(vals, vals[1:])):
            return 'repeat'
    elif name == 'Pwrand':
        _, items, weights, n = spec
        if len(vals) != n:
            return 'length'
        if any(v not in items for v in vals):
            return 'range'
        if weights is not None and any(
                weights[items.index(v)] == 0 for v in vals):
            return 'zero-weight-item-chosen'
    elif name in ('Plprand', 'Phprand', 'Pmeanrand', 'Pbeta', 'Pexprand', 'Pgbrown',
                  'Pprob'):
        # "lo, hi: lower / upper boundary of values"; the kernels compute
        # lo + x * (hi - lo) and similar in floating point: one part in 1e12
        lo, hi = (spec[1], spec[2]) if name != 'Pprob' else (spec[2], spec[3])
        n = spec[-1]
        if len(vals) != n:
            return 'length'
        tol = 1e-12 * max(abs(lo), abs(hi), 1.0)
        if any(not isinstance(v, (int, float)) or isinstance(v, bool)
               or not (lo - tol <= v <= hi + tol) for v in vals):
            return 'range'
        if name in ('Plprand', 'Phprand') and isinstance(lo, int) and \
                isinstance(hi, int) and any(not isinstance(v, int) for v in vals):
            return 'type'
        if name == 'Pgbrown' and lo > 0:
            # geometric: "step: maximum multiplication factor per step" -
            # the next value is the previous one times 1 - step .. 1 + step
            # (where that cannot leave lo..hi, so nothing is folded back)
            step = spec[3]
            for a, b in zip(vals, vals[1:]):
                if lo <= a * (1 - step) and a * (1 + step) <= hi and not (
                        a * (1 - step) * (1 - 1e-9) <= b <= a * (1 + step) * (1 + 1e-9)):
                    return 'factor-beyond-step'
    elif name in ('Pcauchy', 'Pgauss'):
        if len(vals) != spec[-1]:
            return 'length'
        if any(not isinstance(v, float) for v in vals):
            return 'type'
    elif name == 'Ppoisson':
        if len(vals) != spec[-1]:
            return 'length'
        if any(not isinstance(v, int) or isinstance(v, bool) or v < 0 for v in vals):
            return 'range'
    elif name == 'Pfsm':
        return fsm_problem(spec, vals)
    elif name == 'Pshuffle':
        _, items, reps = spec
        k = len(items)
        if len(vals) != k * reps:
            return 'length'
        first = vals[:k]
        if sorted(first) != sorted(items):
            return 'range'
        if any(vals[i * k:(i + 1) * k] != first for i in range(reps)):
            return 'order'
    return None


def fsm_problem(spec, vals):
    """Pfsm: "the initial state is chosen at random from the entry states, that
    state's item is returned and the next state is chosen from its array of
    possible next states; a nil item ends the stream" - `repeats` runs."""
    _, lst, repeats = spec
    ns = (len(lst) - 1) // 2 - 1            # index of the terminal state
    items = [lst[1 + 2 * i] for i in range(ns)]
    nxt = [lst[2 + 2 * i] for i in range(ns)]
    entry = lst[0]
    runs = 1
    prev = None
    for v in vals:
        if v not in items:
            return 'range'
        st = items.index(v)
        if prev is None:
            if st not in entry:
                return 'first-state-not-an-entry-state'
        elif st not in nxt[prev]:
            if ns in nxt[prev] and st in entry:
                runs += 1                   # ended and started again
            else:
                return 'transition-not-allowed'
        elif ns in nxt[prev] and st in entry:
            pass                            # either a transition or a new run
        prev = st
    if prev is not None and ns not in nxt[prev]:
        return 'ended-in-a-state-without-end-transition'
    if runs > repeats:
        return 'more-runs-than-repeats'
    return None


def real_take(pat, n, how='iter', inval=None):
    """Up to n values of a *fresh* stream of pat -> (values, ended, exc).
    inval is handed to every next()/send()/all(): value patterns must not
    depend on it."""
    m = mods()
    stm = m['stm']
    vals = []
    sched = inval if isinstance(inval, Inval) else Inval(inval, 0)
    try:
        if how == 'iter':
            it = iter(pat)
            for _ in range(n):
                try:
                    vals.append(next(it))
                except StopIteration:
                    return vals, True, None
        elif how == 'iterstream':
            it = iter(stm.stream(pat))          # Stream.__iter__
            for _ in range(n):
                try:
                    vals.append(next(it))
                except StopIteration:
                    return vals, True, None
        elif how == 'next':
            s = stm.stream(pat)
            for _ in range(n):
                try:
                    vals.append(s.next(sched.at(len(vals))))
                except stm.StopStream:
                    return vals, True, None
        elif how == 'embed':
            g = stm.embed(pat, sched.at(0))
            for _ in range(n):
                try:
                    vals.append(g.send(sched.at(len(vals))) if vals else next(g))
                except StopIteration:
                    return vals, True, None
        elif how == 'all':
            vals = stm.stream(pat).all(sched.at(0))
            return vals, True, None
        else:
            raise ValueError(how)
    except RealTimeout:
        raise
    except Exception as e:
        return vals, False, e
    return vals, False, None


def _same_seq(a, b):
    from vf.model_patterns import same_value
    return len(a) == len(b) and all(same_value(x, y) for x, y in zip(a, b))


def after_end(pat, n, k, midway=None, inval=None):
    """History on ONE stream: pull to the end, poll k more times, all(),
    reset(), pull again -> (first, values got after the end, second, exc)."""
    m = mods()
    stm = m['stm']
    s = stm.stream(pat)

    sched = inval if isinstance(inval, Inval) else Inval(inval, 0)

    def pull():
        out = []
        for _ in range(n):
            try:
                out.append(s.next(sched.at(len(out))))
            except stm.StopStream:
                return out, True
        return out, False
    try:
        first, ended = pull()
        if not ended:
            return first, None, None, None
        if midway is not None and first:
            # reset after some values: the sequence starts again
            s.reset()
            for j in range(min(midway, len(first) - 1)):
                s.next(sched.at(j))
            s.reset()
            again, _ = pull()
            if again != first and not _same_seq(again, first):
                return first, None, again, None
        post = []
        for _ in range(k):
            try:
                post.append(s.next(sched.at(0)))
            except stm.StopStream:
                pass
        if not post:
            post = list(s.all(sched.at(0)))
        s.reset()
        second, _ = pull()
        return first, post, second, None
    except RealTimeout:
        raise
    except Exception as e:
        return None, None, None, e


def interleaved(pat, n, rng, inval=None):
    """Two streams of one pattern consumed alternately (random schedule)."""
    m = mods()
    stm = m['stm']
    s = [stm.stream(pat), iter(pat)]
    sched = inval if isinstance(inval, Inval) else Inval(inval, 0)
    out = [[], []]
    done = [False, False]
    exc = None
    try:
        while not all(done[i] or len(out[i]) >= n for i in (0, 1)):
            i = rng.randrange(2)
            if done[i] or len(out[i]) >= n:
                i = 1 - i
            try:
                out[i].append(s[i].next(sched.at(len(out[i]))))
            except StopIteration:       # StopStream is a StopIteration
                done[i] = True
    except RealTimeout:
        raise
    except Exception as e:
        exc = e
    return out, done, exc


def snapshot(obj, seen=None, depth=0):
    """Deep structural snapshot of a pattern graph: class, vars() of every
    pattern node, list contents; functions by identity."""
    m = mods()
    Pattern = m['ptt'].Pattern
    if seen is None:
        seen = {}
    if depth > 40:
        return ('deep',)
    if isinstance(obj, Pattern):
        if id(obj) in seen:
            return ('ref', seen[id(obj)])
        seen[id(obj)] = len(seen)
        return ('P', type(obj).__name__,
                tuple((k, snapshot(v, seen, depth + 1))
                      for k, v in sorted(vars(obj).items())))
    if isinstance(obj, (list, tuple)):
        return (type(obj).__name__,
                tuple(snapshot(i, seen, depth + 1) for i in obj))
    if isinstance(obj, dict):
        return ('dict', tuple((repr(k), snapshot(v, seen, depth + 1))
                              for k, v in obj.items()))
    if callable(obj):
        return ('fn', id(obj))
    return ('v', type(obj).__name__, repr(obj))


def snapshot_diff(a, b, path='root'):
    """First difference between two snapshots -> (class, attribute path)."""
    if a == b:
        return None
    if a[0] == 'P' and b[0] == 'P' and a[1] == b[1]:
        da, db = dict(a[2]), dict(b[2])
        for k in sorted(set(da) | set(db)):
            if k not in da:
                return a[1], f'{k}-added'
            if k not in db:
                return a[1], f'{k}-removed'
            if da[k] != db[k]:
                sub = snapshot_diff(da[k], db[k], k)
                if sub and sub[0] is not None:
                    return sub
                return a[1], k
        return a[1], '?'
    if a[0] == b[0] and a[0] in ('list', 'tuple') and len(a[1]) == len(b[1]):
        for x, y in zip(a[1], b[1]):
            if x != y:
                sub = snapshot_diff(x, y, path)
                if sub:
                    return sub
    return None, path
