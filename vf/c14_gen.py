"""C14 generators (no sc3 import): instruments, event specs, play programs,
scale/tuning specs and event-pattern compositions.  All data is json-able; see
vf/model_events.py for the spec grammar.

Round 8 (end of the file): fault histories (fault_program: plays that fail
half way, repair, continued use of the same object), player-control histories
(control_case), compositions with Pkey / Pevent / Pchain.chain (entry_case)
and players beside a pattern whose k-th event fails (pattern_fault_case).

Round 9: key sets (group_keys: tuple keys of Pbind / Pmono mappings whose
column yields one list per event - as long as, or longer than, the key set -
in every composition; a list that is too short as a pattern fault), restarts
of the SAME player after a stop (reuse_case, `restart`), and player-control
histories over mono lines (mono_control_case: stop / reset / pause / resume /
reset + play on Pmono and PmonoArtic lines while their node is alive, also
after an event of the line failed)."""

import random

from vf import model_events as me

# control vocabulary for on-the-fly instruments (name, default)
VOCAB = [('freq', 440.0), ('amp', 0.1), ('pan', 0.0), ('out', 0), ('foo', 3.0),
         ('bar', 0.5), ('cutoff', 1200.0), ('sustain', 1.0), ('dur', 1.0),
         ('detune', 0.0), ('legato', 0.8), ('midinote', 60.0), ('degree', 0.0),
         ('db', -20.0), ('velocity', 64.0), ('index', 1.0)]


NODESC = 'c14_nodesc'      # never added to the SynthDescLib
# (what the library sends for it: the documented default parameters)
NODESC_INST = {'name': NODESC, 'gate': None, 'variants': None,
               'controls': [('freq', 440.0), ('amp', 0.1), ('pan', 0.0),
                            ('out', 0)]}


def instruments(rng, n=8):
    """[{'name', 'controls': [(name, default)], 'gate': bool, 'variants'}].
    Every instrument has a `tag` control (unique per event: makes the score
    unambiguous).  Half of them have a `gate` control."""
    out = []
    for i in range(n):
        k = rng.randint(1, 6)
        ctl = rng.sample(VOCAB, k)
        if i < 2 and ('freq', 440.0) not in ctl:
            ctl.insert(0, ('freq', 440.0))
        gate = i % 2 == 0
        ctl.append(('tag', 0))
        if gate:
            ctl.insert(rng.randint(0, len(ctl)), ('gate', 1))
        variants = None
        if i == n - 1:
            variants = {'va': {ctl[0][0]: 7.0}}
        out.append({'name': f'c14_{"g" if gate else "n"}{i}', 'controls': ctl,
                    'gate': gate, 'variants': variants})
    return out


# ---------------------------------------------------------------- scales

JUST = [0, 1.1173, 2.0391, 3.1564, 3.8631, 4.9804, 5.9022, 7.0196, 8.1369,
        8.8436, 10.1760, 10.8827]
PYTHAGOREAN = [0, 0.9022, 2.0391, 2.9413, 4.0782, 4.9804, 6.1173, 7.0196,
               7.9218, 9.0587, 9.9609, 11.0978]
MEAN4 = [0, 0.755, 1.93, 3.105, 3.86, 5.035, 5.79, 6.965, 7.72, 8.895, 10.07,
         10.82]
DEGREE_SETS = [[0, 2, 4, 5, 7, 9, 11], [0, 2, 3, 5, 7, 8, 10], [0, 2, 4, 7, 9],
               [0, 3, 5, 6, 7, 10], [0, 2, 4, 6, 8, 10], list(range(12)),
               [0, 1, 4, 5, 7, 8, 11]]


def scale_spec(rng, kind=None):
    """kinds: et12-explicit (scale object passed but default tuning),
    nonet12 (12 unequal semitone values), ratio12 (12 values, octave ratio != 2),
    etn (n equal steps, octave ratio 2), ration (n equal steps of an octave
    ratio != 2, e.g. Bohlen-Pierce: 13 steps of 3:1)."""
    kind = kind or rng.choice(['et12-explicit', 'nonet12', 'ratio12', 'etn',
                               'ration', 'shifted-degrees', 'shifted-tuning',
                               'shifted-both'])
    if kind.startswith('shifted-'):
        return shifted_scale_spec(rng, kind)
    if kind == 'et12-explicit':
        return {'kind': kind, 'degrees': rng.choice(DEGREE_SETS), 'tuning': None,
                'ratio': 2.0}
    if kind == 'nonet12':
        t = rng.choice([JUST, PYTHAGOREAN, MEAN4, None])
        if t is None:
            t = [0.0] + [i + rng.uniform(-0.3, 0.3) for i in range(1, 12)]
        return {'kind': kind, 'degrees': rng.choice(DEGREE_SETS),
                'tuning': [float(x) for x in t], 'ratio': 2.0}
    if kind == 'ratio12':
        import math
        ratio = rng.choice([2.01, 2.1, 3.0, 1.5])
        t = [i * math.log2(ratio) for i in range(12)]
        return {'kind': kind, 'degrees': rng.choice(DEGREE_SETS), 'tuning': t,
                'ratio': ratio}
    n = rng.choice([5, 7, 10, 17, 19, 22, 24, 31])
    size = rng.randint(3, min(n, 9))
    degs = sorted(rng.sample(range(1, n), size - 1))
    ratio = 2.0
    if kind == 'ration':
        import math
        n, ratio = rng.choice([(13, 3.0), (8, 1.5), (25, 5.0), (12, 2.5)])
        size = rng.randint(3, min(n, 9))
        degs = sorted(rng.sample(range(1, n), size - 1))
        return {'kind': kind, 'degrees': [0] + degs, 'ratio': ratio,
                'tuning': [i * 12.0 * math.log2(ratio) / n for i in range(n)]}
    return {'kind': kind, 'degrees': [0] + degs,
            'tuning': [i * 12.0 / n for i in range(n)], 'ratio': 2.0}


SHIFTED_DEGREE_SETS = [[2, 4, 5, 7, 9, 11], [1, 3, 6, 8, 10], [3, 5, 7, 10],
                       [5, 7, 9, 11], [1, 2, 4, 6, 7, 9, 11], [7, 9, 11], [11],
                       [4, 7, 11]]


def shifted_scale_spec(rng, kind=None):
    """Round 10: scales whose degree 0 is NOT key 0 of the tuning, and tunings
    whose first pitch is NOT 0 semitones - the default degree (0) then is not
    the default note: an event / Pbind that gives nothing but such a scale
    plays another pitch than one without pitch keys (Scale help: degrees are
    indices into the tuning, any ascending subset; Tuning help: any list of
    semitone values).
    kinds: shifted-degrees (degrees start above 0; default 12-ET tuning,
    a 12 value tuning or n equal steps), shifted-tuning (degrees from 0, the
    tuning's first value is not 0; octave ratio 2 or not), shifted-both."""
    import math
    kind = kind or rng.choice(['shifted-degrees', 'shifted-tuning',
                               'shifted-both'])
    if kind == 'shifted-degrees':
        r = rng.random()
        if r < 0.5:
            return {'kind': kind, 'degrees': rng.choice(SHIFTED_DEGREE_SETS),
                    'tuning': None, 'ratio': 2.0}
        if r < 0.75:
            t = rng.choice([JUST, PYTHAGOREAN, MEAN4])
            return {'kind': kind, 'degrees': rng.choice(SHIFTED_DEGREE_SETS),
                    'tuning': [float(x) for x in t], 'ratio': 2.0}
        n = rng.choice([5, 7, 10, 17, 19, 24])
        size = rng.randint(1, min(n - 1, 7))
        degs = sorted(rng.sample(range(1, n), size))
        return {'kind': kind, 'degrees': degs,
                'tuning': [i * 12.0 / n for i in range(n)], 'ratio': 2.0}
    first = rng.choice([0.5, -0.25, 0.3, 1.0, 2.0, -1.5, 0.0625])
    ratio = rng.choice([2.0, 2.0, 2.0, 3.0, 1.5])
    base = rng.choice([None, JUST, PYTHAGOREAN])
    if base is None or ratio != 2.0:
        step = math.log2(ratio)
        t = [first + i * step for i in range(12)]
    else:
        t = [first + x for x in base]
    degs = rng.choice(DEGREE_SETS if kind == 'shifted-tuning'
                      else SHIFTED_DEGREE_SETS)
    return {'kind': kind, 'degrees': degs, 'tuning': t, 'ratio': ratio}


# the input keys of the pitch chain (Pattern Guide 07) and values that are
# NOT the key's neutral value: given alone, each one moves the pitch
PITCH_INPUTS = {
    'degree': [1, 2, 4, -1, -3, 7, 9, 2.0],
    'mtranspose': [1, 2, -1, -2, 3, 7],
    'gtranspose': [1, -1, 0.5, 2, 7, -3],
    'root': [1, 2, -2, 2.5, 5],
    'octave': [3, 4, 6, 4.5, 7, 2],
    'ctranspose': [1, -1, 0.25, -0.5, 7, 12, -12],
    'harmonic': [2, 3, 0.5, 1.5, 4],
    'detune': [3, -5, 0.7, 12.5, -0.5],
    'note': [1, 2, -5, 7, 3.5, 12, 14.25],
    'midinote': [61, 48.5, 57, 64.25, 69, 72, 36],
    'freq': [440, 110.5, 333.3, 1234.5, 55],
    'scale': None,
}


def minimal_pitch_keys(rng, size=None):
    """Round 10: the pitch keys of an event that gives ONE input key of the
    pitch chain (55 %), two (35 %) or three - every key of PITCH_INPUTS alone
    and in every small combination, each with a value that moves the pitch,
    scales of every kind (70 % of them shifted ones: degree 0 is not key 0).
    Kept out as everywhere: harmonic with an explicit freq, ctranspose with a
    fractional degree (none here)."""
    size = size or rng.choice([1] * 11 + [2] * 7 + [3] * 2)
    keys = rng.sample(sorted(PITCH_INPUTS), size)
    if 'freq' in keys and 'harmonic' in keys:
        keys.remove('harmonic')
    ev = {}
    for k in keys:
        if k == 'scale':
            ev[k] = (shifted_scale_spec(rng) if rng.random() < 0.7
                     else scale_spec(rng))
        else:
            ev[k] = _numv(rng, PITCH_INPUTS[k], 0.3)
    return ev


# ---------------------------------------------------------------- event specs

def _numv(rng, choices, as_float=0.5):
    v = rng.choice(choices)
    if isinstance(v, int) and rng.random() < as_float:
        v = float(v)
    return v


def pitch_keys(rng, scale_p=0.45, classes=True):
    """Pitch keys: every source key with every modifier of the documented
    chain.  Kept out (the statement does not decide them, see the audit table
    in vf/props/C14.py): harmonic != 1 together with an explicit freq."""
    ev = {}
    src = rng.choice(['none', 'degree', 'degree', 'degree', 'note', 'midinote',
                      'midinote', 'freq'])
    scale = None
    if src in ('degree', 'note', 'none') and rng.random() < scale_p:
        scale = scale_spec(rng)
    if scale is not None:
        ev['scale'] = scale
    if src == 'degree':
        ev['degree'] = _numv(rng, list(range(-14, 22)), 0.2)
        if classes and rng.random() < 0.12:     # accidentals: x.1 sharp, x.9 flat
            ev['degree'] = ev['degree'] + rng.choice([0.1, -0.1, 0.2, -0.2])
        elif classes and rng.random() < 0.08:
            # exact halves (ties of the rounding, both parities, negative):
            # SimpleNumber:round takes the upper degree, accidental -5
            ev['degree'] = ev['degree'] + 0.5
        if rng.random() < 0.4:
            ev['mtranspose'] = _numv(rng, list(range(-7, 8)), 0.2)
            if classes and ev['degree'] == int(ev['degree']) \
                    and rng.random() < 0.1:
                ev['mtranspose'] = ev['mtranspose'] + 0.5   # the half by mtranspose
    elif src == 'note':
        ev['note'] = _numv(rng, [-12, -5, -1, 0, 1, 2, 3.5, 7, 11, 12, 14.25, 24])
        if rng.random() < 0.2:
            ev['degree'] = rng.randint(-3, 9)      # explicit note wins
    elif src == 'midinote':
        ev['midinote'] = _numv(rng, [24, 36, 48.5, 57, 60, 61, 64.25, 69, 72, 84,
                                     96, 100.5])
        if rng.random() < 0.2:
            ev['degree'] = rng.randint(-3, 9)      # explicit midinote wins
        if rng.random() < 0.1:
            ev['note'] = rng.randint(-3, 9)
    elif src == 'freq':
        ev['freq'] = _numv(rng, [55, 110.5, 220, 261.6255653005986, 333.3, 440,
                                 1234.5, 8000])
        if rng.random() < 0.2:
            ev['midinote'] = rng.randint(40, 80)   # explicit freq wins
        if rng.random() < 0.2:
            ev['degree'] = rng.randint(-3, 9)
    if src in ('degree', 'note', 'none'):
        if rng.random() < 0.3:
            ev['gtranspose'] = _numv(rng, [-3, -1, 0.5, 1, 2, 7])
        if rng.random() < 0.3:
            ev['root'] = _numv(rng, [-2, 1, 2.5, 3, 5])
    if src in ('degree', 'note', 'none') and rng.random() < 0.3:
        ev['octave'] = _numv(rng, [2, 3, 4, 4.5, 5, 6, 7])
    frac = 'degree' in ev and ev['degree'] != int(ev['degree'])
    if (src in ('midinote', 'note') or (classes and src != 'freq' and not frac)) \
            and rng.random() < 0.3:
        # (one input class per event: a fractional degree gets no ctranspose;
        # classes=False: histories on event objects stay clear of both)
        ev['ctranspose'] = _numv(rng, [-12, -1, -0.5, 0.25, 1, 7, 12])
    if src != 'freq' and rng.random() < 0.3:
        ev['harmonic'] = _numv(rng, [0.5, 1, 1.5, 2, 3, 4])
    if rng.random() < 0.3:
        ev['detune'] = _numv(rng, [-5, -0.5, 0.7, 3, 12.5])
    return ev


def amp_keys(rng):
    ev = {}
    src = rng.choice(['none', 'none', 'amp', 'db', 'velocity', 'amp+db',
                      'amp+velocity'])
    if 'amp' in src:
        ev['amp'] = _numv(rng, [0, 0.05, 0.1, 0.3, 0.5, 1, 1.5])
    if 'db' in src:
        ev['db'] = _numv(rng, [-60, -40.5, -20, -12, -6, -3, 0, 6])
    if 'velocity' in src:
        ev['velocity'] = _numv(rng, [0, 1, 12, 64, 100, 127], 0.2)
    return ev


GRID_DUR = [0.125, 0.25, 0.375, 0.5, 0.75, 1, 1, 1.5, 2, 3, 0.125, 0.25, 0.5,
            0.75, 1, 2, 0]
OFF_DUR = [0.1, 0.3, 1 / 3, 0.7, 1.1, 0.05, 2.2]
STRETCH = [0.5, 1, 1.5, 2, 0.25]
LEGATO = [0.8, 0.5, 1, 1.25, 0.25, 0.1]


def dur_keys(rng, offgrid=False):
    ev = {}
    if rng.random() < 0.6:
        ev['dur'] = _numv(rng, OFF_DUR if offgrid else GRID_DUR, 0.3)
    if rng.random() < 0.35:
        ev['stretch'] = _numv(rng, STRETCH, 0.3)
    if rng.random() < 0.35:
        ev['legato'] = rng.choice(LEGATO)
    if rng.random() < 0.2:
        ev['sustain'] = _numv(rng, [0.01, 0.125, 0.5, 1, 2.5, 4])
    if rng.random() < 0.15:
        ev['delta'] = _numv(rng, [0, 0.25, 0.5, 1, 2])
    return ev


def server_keys(rng, inst):
    ev = {}
    if rng.random() < 0.4:
        ev['add_action'] = rng.choice(['addToHead', 'addToTail', 'addBefore',
                                       'addAfter', 'addReplace', 'h', 't', 'b',
                                       'a', 'r', 0, 1, 2, 3, 4])
    if rng.random() < 0.4:
        ev['group'] = rng.choice([1, 0, 2, 77, 1001, 'groupobj'])
    return ev


def control_keys(rng, inst):
    """Explicit values for some of the instrument's controls (not gate/tag, not
    keys that take part in the chains: those come from the chain generators)
    plus keys that are no controls of the instrument."""
    ev = {}
    chain = {'freq', 'amp', 'dur', 'sustain', 'legato', 'detune', 'midinote',
             'degree', 'db', 'velocity', 'gate', 'tag'}
    for name, _ in inst['controls']:
        if name in chain:
            continue
        if rng.random() < 0.6:
            ev[name] = _numv(rng, [-1, 0, 1, 2, 0.25, 7.5, 100, 1000.125])
    names = {n for n, _ in inst['controls']}
    for extra in ('foo', 'bar', 'cutoff', 'index', 'zork', 'pan', 'out'):
        if extra not in names and rng.random() < 0.25:
            ev[extra] = _numv(rng, [0, 1, 0.5, 3])
    return ev


def event_spec(rng, inst, tag, offgrid=False, minimal=False):
    ev = {'instrument': inst['name'], 'tag': tag}
    # (round 10, minimal: one to three input keys of the pitch chain and
    # nothing else of it - see minimal_pitch_keys)
    ev.update(minimal_pitch_keys(rng) if minimal
              else pitch_keys(rng, scale_p=0.3))
    ev.update(amp_keys(rng))
    ev.update(dur_keys(rng, offgrid))
    ev.update(server_keys(rng, inst))
    ev.update(control_keys(rng, inst))
    return ev


def _history_event(rng, inst, tag, offgrid):
    """Event spec for objects that are played more than once: any pitch keys
    (every play must resolve them anew from what the object defines then)."""
    ev = {'instrument': inst['name'], 'tag': tag}
    ev.update(pitch_keys(rng, scale_p=0.1, classes=False))
    ev.update(amp_keys(rng))
    ev.update(dur_keys(rng, offgrid))
    ev.update(server_keys(rng, inst))
    ev.update(control_keys(rng, inst))
    if rng.random() < 0.08:
        ev['variant'] = rng.choice(['va', 'zz'])
    return ev


def _history_edit(rng, ev, insts, offgrid):
    """Edit of the user keys of an event between two plays: (set, delete)."""
    by_name = {i['name']: i for i in insts}
    inst = by_name.get(ev['instrument']) or NODESC_INST
    st, dl = {}, []
    if rng.random() < 0.15:
        inst = rng.choice(insts)
        st['instrument'] = inst['name']
    for _ in range(rng.randint(1, 4)):
        what = rng.choice(['control', 'control', 'amp', 'dur', 'freq', 'server',
                           'delete', 'delete', 'pitch'])
        if what == 'control':
            st.update(control_keys(rng, inst))
        elif what == 'amp':
            st.update(amp_keys(rng))
        elif what == 'dur':
            st.update(dur_keys(rng, offgrid))
        elif what == 'freq':
            st['freq'] = _numv(rng, [55, 110.5, 220, 333.3, 440, 1234.5])
        elif what == 'server':
            st.update(server_keys(rng, inst))
        elif what == 'pitch':
            for k, v in pitch_keys(rng, scale_p=0.0, classes=False).items():
                st[k] = v
        else:
            cand = [k for k in ev if k not in ('instrument', 'tag')
                    and k not in st]
            if cand:
                dl.append(rng.choice(cand))
    dl = [k for k in dict.fromkeys(dl) if k not in st]
    return st, dl


def history_steps(rng, insts, tags, offgrid):
    """Multi-step histories on event OBJECTS: create and play, edit (set / add
    / delete keys) and play again, copy() + edit and play.  Every step records
    the keys the event defines at that play (`event`), how the object is
    obtained (`obj`, `new` | `replay` | `copy_of`) and the edit."""
    steps, state = [], {}       # state: object index -> current user keys
    lineage = {}                # object index -> tags of earlier plays
    for _ in range(rng.randint(2, 6)):
        wait = rng.choice(OFF_DUR if offgrid else GRID_DUR + [0, 0])
        r = rng.random()
        if not state or r < 0.2:
            k = len(state)
            ev = _history_event(rng, rng.choice(insts), next(tags), offgrid)
            state[k], lineage[k] = ev, []
            steps.append({'wait': wait, 'event': dict(ev), 'how': 'object',
                          'obj': k, 'op': 'new', 'prev_tags': []})
            lineage[k].append(ev['tag'])
            continue
        src = rng.choice(sorted(state))
        if r < 0.5:
            k, op = len(state), 'copy'
            state[k] = dict(state[src])
            lineage[k] = list(lineage[src])
        else:
            k, op = src, 'replay'
        st, dl = _history_edit(rng, state[k], insts, offgrid)
        if rng.random() < 0.15:
            st, dl = {}, []             # plain replay: same values again
        st['tag'] = next(tags)
        for key in dl:
            state[k].pop(key, None)
        state[k].update(st)
        if 'freq' in state[k] and 'harmonic' in state[k]:
            # kept out everywhere: harmonic together with an explicit freq
            state[k].pop('harmonic')
            st.pop('harmonic', None)
            dl.append('harmonic')
        if 'ctranspose' in state[k] and not any(
                x in state[k] for x in ('freq', 'midinote', 'note')):
            # histories stay clear of the ctranspose-with-degree input class
            state[k].pop('ctranspose')
            st.pop('ctranspose', None)
            dl.append('ctranspose')
        step = {'wait': wait, 'event': dict(state[k]), 'how': 'object',
                'obj': k, 'op': op, 'src': src, 'set': st, 'del': dl,
                'prev_tags': list(lineage[k])}
        # which dict method performs the edit, whether the object is looked
        # up (event(key)) before the edit and between the edit and the play,
        # how a copy is made: every combination must play the keys the object
        # holds at the play
        step['mut'] = rng.choice(PLAY_MUTATORS)
        step['peek'] = rng.random() < 0.6
        step['peek_after'] = rng.random() < 0.5
        if op == 'copy':
            step['copy_how'] = rng.choice(COPY_HOWS)
        steps.append(step)
        lineage[k].append(st['tag'])
    return steps


# edits of an event object that was played before (it then also holds the keys
# play() wrote: server, group, node_id, msg_params, has_gate, is_playing ...):
#   update/pop   e.pop(k) ...; e.update(dict)
#   setitem      del e[k] ...; e[k] = v ...
#   update-kw    e.pop(k) ...; e.update(**kw)
#   update-pairs e.pop(k) ...; e.update([(k, v) ...])
#   ior          e.pop(k) ...; e |= dict
#   setdefault   e.pop(k) for the deleted AND the assigned keys;
#                e.setdefault(k, v) ...
#   clear-update e.clear(); e.update(all keys the object defines now)
PLAY_MUTATORS = ['update/pop', 'update/pop', 'setitem', 'update-kw',
                 'update-pairs', 'ior', 'setdefault', 'clear-update']
COPY_HOWS = ['copy', 'copy', 'copy.copy', 'event(e)', 'type(e)(e)']

# edits of an event object that was only looked up (chain monitor)
CHAIN_MUTATORS = ['setitem', 'delitem', 'update-dict', 'update-kw',
                  'update-pairs', 'ior', 'pop', 'pop-default', 'popitem',
                  'setdefault', 'clear', 'clear-update',
                  'update-dict', 'pop', 'setdefault', 'ior']
DERIVES = ['copy', 'copy.copy', 'event(e)', 'event(e,**kw)', 'event(e|d)',
           'type(e)(e)', 'event(**e)']


def _chain_edit(rng, ev, offgrid):
    """(set, delete) for one edit of an event that is looked up before and
    after: keys of the three chains, single keys or whole new key sets."""
    st, dl = {}, []
    for _ in range(rng.randint(1, 3)):
        what = rng.choice(['pitch', 'pitch1', 'pitch1', 'amp', 'dur', 'dur1',
                           'delete', 'delete', 'delete-source'])
        if what == 'pitch':
            new = pitch_keys(rng, scale_p=0.25)
            st.update(new)
        elif what == 'pitch1':
            k = rng.choice(['degree', 'degree', 'mtranspose', 'octave', 'root',
                            'gtranspose', 'ctranspose', 'midinote', 'note',
                            'freq'])
            st[k] = {'degree': lambda: _numv(rng, list(range(-14, 22)), 0.2),
                     'mtranspose': lambda: _numv(rng, list(range(-7, 8)), 0.2),
                     'octave': lambda: _numv(rng, [2, 3, 4, 4.5, 6, 7]),
                     'root': lambda: _numv(rng, [-2, 1, 2.5, 3, 5]),
                     'gtranspose': lambda: _numv(rng, [-3, -1, 0.5, 1, 2, 7]),
                     'ctranspose': lambda: _numv(rng, [-12, -1, -0.5, 1, 7]),
                     'midinote': lambda: _numv(rng, [36, 48.5, 57, 61, 72, 84]),
                     'note': lambda: _numv(rng, [-12, -5, 1, 3.5, 7, 14.25]),
                     'freq': lambda: _numv(rng, [55, 110.5, 333.3, 1234.5]),
                     }[k]()
        elif what == 'amp':
            st.update(amp_keys(rng))
        elif what == 'dur':
            st.update(dur_keys(rng, offgrid))
        elif what == 'dur1':
            k = rng.choice(['dur', 'stretch', 'legato'])
            st[k] = _numv(rng, {'dur': OFF_DUR if offgrid else GRID_DUR,
                                'stretch': STRETCH, 'legato': LEGATO}[k], 0.3)
        elif what == 'delete-source':
            # the key that wins now: the next one of the chain takes over
            for k in ('freq', 'midinote', 'note', 'degree', 'amp', 'db',
                      'velocity', 'delta', 'sustain', 'dur'):
                if k in ev and k not in dl and rng.random() < 0.6:
                    dl.append(k)
                    break
        else:
            cand = [k for k in ev if k not in dl]
            if cand:
                dl.append(rng.choice(cand))
    if rng.random() < 0.06 and st:
        k = rng.choice([k for k in st if k != 'scale'] or ['dur'])
        st[k] = {'rest': num_or(st.get(k), 1.0)}
    dl = [k for k in dict.fromkeys(dl) if k not in st]
    return st, dl


def num_or(v, default):
    return me.num(v) if v is not None else default


def chain_history(rng, ev, offgrid):
    """History of one event object in the chain monitor: 1-4 edits, each by
    one dict method (or a new object derived from it, which is then the
    object under test), each followed by the look-ups.  Returns the list of
    ops ({'m', 'set', 'del', 'n'} or {'m': 'derive', 'how', 'set'}); the model
    state after each op is me.apply_mutation applied in turn."""
    ops, cur = [], dict(ev)
    for _ in range(rng.randint(1, 4)):
        st, dl = _chain_edit(rng, cur, offgrid)
        if rng.random() < 0.2:
            op = {'m': 'derive', 'how': rng.choice(DERIVES), 'set': {},
                  'del': []}
            if op['how'] in ('event(e,**kw)', 'event(e|d)'):
                op['set'] = st
            ops.append(op)
            cur = me.apply_mutation(cur, {'m': 'update-dict',
                                          'set': op['set']})
            if not op['set']:
                # an edit of the derived object; the source must not change
                op = {'m': rng.choice(['setitem', 'update-dict', 'ior',
                                       'setdefault']), 'set': st, 'del': []}
                ops.append(op)
                cur = me.apply_mutation(cur, op)
            continue
        m = rng.choice(CHAIN_MUTATORS)
        op = {'m': m, 'set': st, 'del': dl}
        if m in ('delitem', 'pop', 'pop-default'):
            op['set'] = {}
            if not dl:
                op['del'] = [rng.choice(list(cur))] if cur else []
            if m == 'pop-default':
                op['del'] = op['del'] + ['c14_absent_key']
        elif m == 'popitem':
            op['n'] = rng.randint(1, 3)
            op['del'] = []
            if rng.random() < 0.5:
                op['set'] = {}
        elif m == 'clear':
            op['set'], op['del'] = {}, []
        elif m == 'clear-update':
            op['del'] = []
        elif m != 'setitem':
            # (update / |= / setdefault do not delete: one method per op)
            op['del'] = []
        ops.append(op)
        cur = me.apply_mutation(cur, op)
    return ops


def play_program(rng, insts, tags):
    """A play program: events played directly, from the main thread (absolute
    time 0) or from a routine on SystemClock / TempoClock(1) after waits.  A
    third of the programs are histories on event objects (history_steps)."""
    where = rng.choice(['main', 'routine-system', 'routine-system',
                        'routine-tempo'])
    latency = rng.choice([0, 0, 0.05, 0.2, 0.25, 0.015625, 1, 0.1])
    offgrid = rng.random() < 0.3
    if rng.random() < 0.35:
        return {'where': where, 'latency': latency, 'offgrid': offgrid,
                'steps': history_steps(rng, insts, tags, offgrid),
                'history': True}
    steps = []
    for _ in range(rng.randint(1, 5)):
        inst = rng.choice(insts)
        minimal = rng.random() < 0.2
        if minimal:
            # round 10: an event whose pitch keys are a minimal key set, on
            # an instrument that has a freq control (its /s_new shows the
            # detuned freq of the chain)
            inst = rng.choice([x for x in insts if any(
                c[0] == 'freq' for c in x['controls'])])
        ev = event_spec(rng, inst, next(tags), offgrid, minimal)
        if minimal:
            pass
        elif rng.random() < 0.03:
            # a definition the SynthDescLib does not know (sent, not added):
            # Event help: freq, amp, pan, out are sent, a gate is assumed
            ev['instrument'] = NODESC
            ev.pop('variant', None)
        elif rng.random() < 0.05:
            ev['variant'] = rng.choice(['va', 'zz'])
        wait = rng.choice(OFF_DUR if offgrid else GRID_DUR + [0, 0])
        how = rng.choice(['event.play', 'play(dict)', 'play(**kw)',
                          'play(dict,**kw)'])
        steps.append({'wait': wait, 'event': ev, 'how': how})
        if minimal:
            steps[-1]['minimal'] = sorted(k for k in ev if k in PITCH_INPUTS)
    return {'where': where, 'latency': latency, 'steps': steps,
            'offgrid': offgrid}


# ---------------------------------------------------------------- patterns

def _as_pattern(rng, lst, depth=0):
    """A valspec whose values are exactly `lst` (so the denotation is known by
    construction, independently of how it is expressed)."""
    n = len(lst)
    r = rng.random()
    if n >= 2 and depth < 2 and r < 0.25:
        cut = rng.randint(1, n - 1)
        return ['seq', [_as_pattern(rng, lst[:cut], depth + 1),
                        _as_pattern(rng, lst[cut:], depth + 1)], 1, 0]
    if n >= 2 and r < 0.4:
        off = rng.randint(1, n - 1)
        rot = lst[-off:] + lst[:-off]            # rot[off:] + rot[:off] == lst
        return ['seq', rot, 1, off]
    if n % 2 == 0 and n >= 2 and lst[:n // 2] == lst[n // 2:] and r < 0.7:
        return ['seq', lst[:n // 2], 2, 0]
    if r < 0.55:
        extra = [lst[0]] * rng.randint(0, 2)
        # Pser over a longer list truncated to n
        return ['ser', lst + extra, n, 0]
    if all(isinstance(x, (int, float)) and not isinstance(x, bool)
           for x in lst) and n >= 2:
        step = lst[1] - lst[0]
        if all(lst[0] + step * i == lst[i] for i in range(n)) and r < 0.9:
            return ['series', lst[0], step, n]
    return ['seq', list(lst), 1, 0]


def _column(rng, n, choices, const_p=0.4, rest_p=0.0, longer_p=0.3):
    if rng.random() < const_p:
        return rng.choice(choices)
    m = n + (rng.randint(0, 2) if rng.random() < longer_p else 0)
    col = [rng.choice(choices) for _ in range(m)]
    if rest_p:
        col = [{'rest': v} if rng.random() < rest_p else v for v in col]
    return _as_pattern(rng, col)


def pbind_spec(rng, insts, tags, offgrid=False, rests=True, timing=True,
               mono=False, pitch=True):
    n = rng.randint(1, 6)
    durs = OFF_DUR if offgrid else GRID_DUR
    rp = 0.15 if rests and rng.random() < 0.5 else 0.0
    # where Rest objects may sit: `op` in the duration / pitch source columns
    # (the usual way of writing a rest), `rp` in every other numeric column
    # (amp, db, pan, an instrument control, legato, stretch, sustain, detune,
    # the transpositions ...: Rest help - a Rest in ANY key makes the event a
    # rest).  scope: both / only the usual keys / only the other keys
    scope = rng.choice(['any', 'any', 'classic', 'other'])
    op = 0.0 if scope == 'other' else rp
    rp, op = (0.0 if scope == 'classic' else rp), op
    m = {}
    if not mono:
        m['instrument'] = (rng.choice(insts)['name'] if rng.random() < 0.7 else
                           _as_pattern(rng, [rng.choice(insts)['name']
                                             for _ in range(n)]))
    tg = [next(tags) for _ in range(n)]
    m['tag'] = _as_pattern(rng, tg)
    if timing:
        if rng.random() < 0.85:
            m['dur'] = _column(rng, n, durs, 0.3, op)
        if rng.random() < 0.25:
            m['stretch'] = _column(rng, n, STRETCH, 0.6, rp)
        if rng.random() < 0.3:
            m['legato'] = _column(rng, n, LEGATO, 0.5, rp)
        if rng.random() < 0.1:
            m['sustain'] = _column(rng, n, [0.125, 0.5, 1, 2.5], 0.5, rp)
        if rng.random() < 0.08:
            m['delta'] = _column(rng, n, [0, 0.25, 0.5, 1], 0.3, op)
    if pitch:
        src = rng.choice(['degree', 'degree', 'midinote', 'freq', 'note', 'none'])
        if src == 'degree':
            fr = rng.random() < 0.15
            m['degree'] = _column(rng, n, list(range(-7, 15)) + (
                [1.1, 3.9, -2.1, 6.2, 0.5, 2.5, 3.5, -1.5, -2.5] if fr else []),
                0.2, op)
            if not fr and rng.random() < 0.2:
                m['ctranspose'] = _column(rng, n, [-12, 0.5, 7], 0.5, rp)
            if rng.random() < 0.3:
                m['mtranspose'] = _column(rng, n, [-2, -1, 1, 3], 0.5, rp)
            if rng.random() < 0.3:
                m['octave'] = _column(rng, n, [3, 4, 5, 6], 0.5, rp)
        elif src == 'midinote':
            m['midinote'] = _column(rng, n, [48, 55, 60, 61.5, 64, 67, 72], 0.2, op)
            if rng.random() < 0.3:
                m['ctranspose'] = _column(rng, n, [-12, 0.5, 7], 0.5, rp)
        elif src == 'freq':
            m['freq'] = _column(rng, n, [110, 220.5, 330, 440, 880], 0.2, op)
        elif src == 'note':
            m['note'] = _column(rng, n, [-5, 0, 2, 4.5, 7, 12], 0.2, op)
        if src != 'freq' and rng.random() < 0.2:
            m['harmonic'] = _column(rng, n, [1, 2, 3, 0.5], 0.5, rp)
        if rng.random() < 0.2:
            m['detune'] = _column(rng, n, [-3, 0.5, 4], 0.5, rp)
    if rng.random() < 0.3:
        m['amp'] = _column(rng, n, [0.05, 0.1, 0.3, 1], 0.4, rp)
    elif rng.random() < 0.2:
        m['db'] = _column(rng, n, [-40, -20, -6, 0], 0.4, rp)
    for name in ('pan', 'foo', 'bar', 'cutoff', 'out', 'index', 'zork'):
        if rng.random() < 0.25:
            m[name] = _column(rng, n, [-1, 0, 1, 0.25, 7.5, 2], 0.5, rp)
    if rp and rng.random() < 0.04:
        # a constant Rest in a key that is no duration / pitch key ('pan':
        # Rest()): the whole line is silent, its timing counts
        k = rng.choice(['pan', 'amp', 'foo', 'zork', 'legato'])
        m.pop('db', None)
        m[k] = {'rest': rng.choice([0, 0.25, 1])}
    if not mono and rng.random() < 0.15:
        m['add_action'] = rng.choice(['addToTail', 't', 1, 'addToHead', 0])
    if not mono and rng.random() < 0.15:
        m['group'] = rng.choice([1, 77, 1001])
    return ['pbind', m]


def pmono_spec(rng, insts, tags, offgrid=False, rests=True):
    pb = pbind_spec(rng, insts, tags, offgrid, rests=rests, mono=True)
    return ['pmono', rng.choice(insts)['name'], pb[1]]


def _chain_left(rng, n, constant):
    """Left operand of a Pchain; a third of the varying ones hold Rest objects
    (in keys that are neither duration nor pitch source keys): the chained
    event is a rest whichever operand gave the Rest."""
    m = {}
    rp = 0.15 if rng.random() < 0.35 else 0.0
    for name in rng.sample(['pan', 'foo', 'bar', 'amp', 'cutoff', 'zork',
                            'legato', 'detune'], rng.randint(1, 3)):
        choices = {'amp': [0.05, 0.2, 1], 'legato': [0.5, 1, 0.25],
                   'detune': [-3, 0.5, 4]}.get(name, [-1, 0, 1, 0.25, 7.5, 2])
        m[name] = (rng.choice(choices) if constant
                   else _column(rng, n, choices, 0.3, rp, 0.5))
    return ['pbind', m]


def _has(p, kind):
    if p[0] == kind:
        return True
    if p[0] == 'ppar':
        return any(_has(c, kind) for c in p[1])
    if p[0] in ('pchain', 'pdur', 'pdelta'):
        return _has(p[2], kind)
    return False


def composition(rng, insts, tags, offgrid, depth=0, allow_mono=True,
                allow_pdur=True):
    r = rng.random()
    if depth >= 3 or r < (0.15 if depth == 0 else 0.45):
        if allow_mono and rng.random() < 0.2:
            return pmono_spec(rng, insts, tags, offgrid)
        return pbind_spec(rng, insts, tags, offgrid)
    kind = rng.choice(['ppar', 'ppar', 'pdur', 'pdelta', 'pchain'])
    if kind == 'pdur' and not allow_pdur:
        kind = 'pdelta'
    if kind == 'ppar':
        return ['ppar', [composition(rng, insts, tags, offgrid, depth + 1,
                                     allow_mono, allow_pdur)
                         for _ in range(rng.randint(2, 3))]]
    if kind == 'pdelta':
        t = rng.choice(OFF_DUR if offgrid else [0.0625, 0.25, 0.5, 1, 1.5, 0])
        return ['pdelta', t, composition(rng, insts, tags, offgrid, depth + 1,
                                         allow_mono, allow_pdur)]
    if kind == 'pdur':
        child = composition(rng, insts, tags, offgrid, depth + 1, allow_mono,
                            allow_pdur)
        ctl = me.timeline(child)
        total = ctl.total
        if offgrid:
            # off the grid the documented tolerance (0.001) of the cut must not
            # decide: d lies in the middle of a gap between two wake-ups of a
            # sequential child (a parallel child also wakes at child ends)
            if not ctl.sequential:
                return child
            wakes = sorted({t for t, _ in ctl.items} | {total})
            gaps = [(a + b) / 2 for a, b in zip(wakes, wakes[1:])
                    if b - a > 0.04]
            return ['pdur', rng.choice(gaps + [total + 0.5]), child]
        steps = int(total * 16)
        d = rng.choice([rng.randint(1, max(1, steps)) / 16.0,
                        rng.randint(1, max(1, steps + 8)) / 16.0,
                        max(total, 0.0625)])
        return ['pdur', d, child]
    # pchain: right operand without mono voices; varying left operand only
    # over sequential right operands
    child = composition(rng, insts, tags, offgrid, depth + 1, False, allow_pdur)
    seq = me.timeline(child).sequential
    n = len(me.timeline(child).items)
    left = _chain_left(rng, n, constant=not seq or rng.random() < 0.3)
    if child[0] == 'pbind' and rng.random() < 0.3 and 'delta' not in child[1]:
        left[1]['dur'] = _column(rng, n, OFF_DUR if offgrid else GRID_DUR, 0.3)
    return ['pchain', left, child]


def reuse_case(rng, insts, tags):
    """The same pattern OBJECT embedded more than once: after an embedding that
    was cut short (Pdur, stopped player), after a complete one, concurrently
    inside one player (two children of a Ppar) or by two overlapping players.
    Every embedding must give the timeline of a fresh equal pattern.  Grid
    durations only (Pdur cuts are exact); stop times lie between grid points
    (odd multiples of 1/32) so that a stop never coincides with an event."""
    r = rng.random()
    if r < 0.6:
        x = ['ppar', [composition(rng, insts, tags, False, 1)
                      for _ in range(rng.randint(2, 3))]]
    else:
        x = composition(rng, insts, tags, False, 0)
    total = me.timeline(x).total
    steps = max(1, int(total * 16))
    cut = lambda: rng.choice([rng.randint(1, steps) / 16.0,
                              rng.randint(1, steps) / 16.0,
                              rng.randint(1, steps + 8) / 16.0])
    use = ['use', 'x']
    form = rng.choice(['cut-then-full', 'cut-then-full', 'cuts', 'pn-cut',
                       'pn-full', 'par-twice', 'players-overlap',
                       'players-overlap', 'stop-replay', 'stop-replay'])
    case = {'shared': {'x': x}, 'form': form, 'offgrid': False,
            'latency': rng.choice([0, 0, 0.05, 0.25, 0.015625]),
            'where': rng.choice(['main', 'routine-system', 'routine-tempo']),
            'clock': rng.choice(['default', 'system', 'tempo']),
            'start': rng.choice([0.25, 1, 2.5, 0.0625]),
            'proto': rng.choice([None, 'event'])}
    if form == 'cut-then-full':
        parts = [['pdur', cut(), use], use]
        if rng.random() < 0.3:
            parts.insert(0, use)
        if rng.random() < 0.3:
            parts.append(['pdur', cut(), use])
        case['pattern'] = ['pseq', parts]
    elif form == 'cuts':
        case['pattern'] = ['pseq', [['pdur', cut(), use]
                                    for _ in range(rng.randint(2, 4))]
                           + ([use] if rng.random() < 0.5 else [])]
    elif form == 'pn-cut':
        case['pattern'] = ['pn', rng.randint(2, 3), ['pdur', cut(), use]]
    elif form == 'pn-full':
        case['pattern'] = ['pn', rng.randint(2, 3), use]
    elif form == 'par-twice':
        t = rng.choice([0.0625, 0.25, 0.5, 1])
        other = ['pdelta', t, use] if rng.random() < 0.7 else \
            ['pdur', cut(), use]
        case['pattern'] = ['ppar', [use, other]]
    elif form == 'players-overlap':
        case['pattern'] = use
        off = rng.choice([0.0625, 0.25, 0.5, 1, total / 2 if total else 0.25])
        off = max(0.0625, int(off * 16) / 16.0)
        case['plays'] = [{'at': 0.0, 'stop': None}, {'at': off, 'stop': None}]
        if rng.random() < 0.3:
            case['plays'].append({'at': off + rng.choice([0.0625, 0.5]),
                                  'stop': None})
    else:       # stop-replay
        case['pattern'] = use if rng.random() < 0.7 else ['pdur', cut(), use]
        stop = (2 * rng.randint(0, steps) + 1) / 32.0
        again = stop + rng.choice([0, 1 / 32.0, 0.25, 1, total])
        case['plays'] = [{'at': 0.0, 'stop': stop}, {'at': again, 'stop': None}]
        if rng.random() < 0.3:
            stop2 = again + (2 * rng.randint(0, steps) + 1) / 32.0
            case['plays'][1]['stop'] = stop2
            case['plays'].append({'at': stop2 + rng.choice([0, 0.5]),
                                  'stop': None})
        if rng.random() < 0.3:
            # the last player is stopped as well: nothing outlasts the pending
            # wake-up of a stopped player (total duration only bounded)
            last = case['plays'][-1]
            last['stop'] = last['at'] + (2 * rng.randint(0, steps) + 1) / 32.0
    if case.get('plays'):
        case['where'] = 'routine-system'
    if form == 'stop-replay':
        # how the pattern is played again after the stop: by a new player
        # (Pattern.play) or by the SAME player, restarted the usual way -
        # reset() + play() or play(reset=True).  Every run must be the time
        # line of a fresh pattern, every mono node released exactly once
        case['restart'] = rng.choice(['new-player', 'reset-play',
                                      'reset-play', 'play-reset'])
    return case


def artic_case(rng, insts, tags):
    """Pmono(articulate=True) (PmonoArtic): slurs while sustain >= delta,
    re-articulates after a note with sustain < delta.  Dyadic durations and
    stretch with legato 1.0 (or an explicit sustain equal to dur * stretch)
    give exact ties sustain == delta; legato below and above 1 the two other
    cases.  No rests."""
    pb = pbind_spec(rng, insts, tags, False, rests=False, mono=True)
    m = pb[1]
    n = len(me.values(m['tag']))
    if n < 3:
        more = rng.randint(3, 7)
        m['tag'] = _as_pattern(rng, [next(tags) for _ in range(more)])
        n = more
    for k in ('delta', 'sustain', 'legato'):
        m.pop(k, None)
    dcol = [rng.choice([0.125, 0.25, 0.5, 0.75, 1, 1.5]) for _ in range(n)]
    m['dur'] = _as_pattern(rng, dcol)
    scol = None
    if 'stretch' in m:
        m['stretch'] = rng.choice([0.5, 1, 2, 1.5])
    st = m.get('stretch', 1.0)
    if rng.random() < 0.6:
        m['legato'] = _as_pattern(rng, [rng.choice([1.0, 1.0, 1, 0.5, 1.5, 2,
                                                    0.75, 0.25, 1.25])
                                        for _ in range(n)])
    else:
        # explicit sustain: equal to, below or above dur * stretch
        m['sustain'] = _as_pattern(rng, [
            d * st * rng.choice([1, 1, 0.5, 2, 0.25]) for d in dcol])
    leaf = ['pmono_artic', rng.choice(insts)['name'], m]
    r = rng.random()
    if r < 0.5:
        pat = leaf
    elif r < 0.7:
        pat = ['ppar', [leaf, pbind_spec(rng, insts, tags, False)]]
    elif r < 0.85:
        pat = ['pdelta', rng.choice([0.25, 1]), leaf]
    else:
        total = me.timeline(leaf).total
        pat = ['pdur', rng.randint(1, max(1, int(total * 16))) / 16.0, leaf]
    return {'pattern': pat, 'special': 'pmono-artic', 'offgrid': False,
            'latency': rng.choice([0, 0.05, 0.25]),
            'where': rng.choice(['main', 'routine-system', 'routine-tempo']),
            'clock': rng.choice(['default', 'system', 'tempo']),
            'start': rng.choice([0.25, 1, 2.5]), 'proto': None}


PITCH_KEYS = {'degree', 'mtranspose', 'gtranspose', 'root', 'octave', 'scale',
              'note', 'midinote', 'ctranspose', 'harmonic', 'detune', 'freq'}


def chain_mono_case(rng, insts, tags):
    """Pchain with a Pmono operand: the chained line stays a mono line (event
    types are kept: one /s_new, then /n_set, one release) and carries the keys
    of both operands, the left one winning.
    `left_controls`: the left Pbind defines values that the mono synth's
    messages must carry (controls of the instrument, pitch keys) - a class of
    its own, see proposed_fixes/C14-pchain-over-pmono-left-values.md."""
    by_name = {i['name']: i for i in insts}
    # (no rests in the mono line: a left operand that overrides a Rest-valued
    # key would turn a rest the Pmono already skipped into a note)
    mono = pmono_spec(rng, insts, tags, False, rests=False)
    n = len(me.values(mono[2]['tag']))
    ctl = {c for c, _ in by_name[mono[1]]['controls']}
    left_controls = False
    if rng.random() < 0.7:
        m, ln = {}, rng.randint(max(1, n - 1), n + 2)
        col = lambda ch, cp=0.3: _column(rng, ln, ch, cp, 0.0, 0.0)
        if rng.random() < 0.8:
            m['dur'] = col(GRID_DUR)
        if rng.random() < 0.3:
            m['stretch'] = col(STRETCH, 0.6)
        if rng.random() < 0.3:
            m['legato'] = col(LEGATO)
        if rng.random() < 0.3:
            m['zork'] = col([-1, 0, 1, 0.25, 7.5, 2])
        if rng.random() < 0.25:
            for name in rng.sample(['pan', 'foo', 'bar', 'cutoff', 'amp',
                                    'degree', 'freq', 'index', 'out'],
                                   rng.randint(1, 2)):
                m[name] = col({'degree': [3, 4, 8], 'freq': [500, 600.5, 700],
                               'amp': [0.2, 0.7]}.get(
                                   name, [-1, 0, 1, 0.25, 7.5, 2]))
        if not m:
            m['zork'] = 1
        if all(me.values(v) is None for v in m.values()) and rng.random() < 0.5:
            m['dur'] = _as_pattern(rng, [rng.choice(GRID_DUR) for _ in range(ln)])
        hit = set(m) & (ctl | (PITCH_KEYS if 'freq' in ctl else set())
                        | ({'db', 'velocity'} if 'amp' in ctl else set()))
        left_controls = bool(hit)
        leaf, shape = ['pchain', ['pbind', m], mono], 'pbind<>pmono'
    else:
        right = pbind_spec(rng, insts, tags, False, rests=False, mono=True)
        right[1].pop('tag')
        right[1]['zork2'] = _as_pattern(rng, list(range(rng.randint(max(1, n - 1),
                                                                    n + 2))))
        leaf, shape = ['pchain', mono, right], 'pmono<>pbind'
    # kept out everywhere: harmonic together with an explicit freq - also when
    # the two come from different operands
    maps = [leaf[1][1] if leaf[1][0] == 'pbind' else leaf[1][2],
            leaf[2][1] if leaf[2][0] == 'pbind' else leaf[2][2]]
    if any('freq' in m_ for m_ in maps):
        for m_ in maps:
            m_.pop('harmonic', None)
    r = rng.random()
    if r < 0.5:
        pat = leaf
    elif r < 0.75:
        pat = ['ppar', [leaf, pbind_spec(rng, insts, tags, False)]]
    else:
        total = me.timeline(leaf).total
        pat = ['pdur', rng.randint(1, max(1, int(total * 16) + 4)) / 16.0, leaf]
    return {'pattern': pat, 'special': 'pchain-pmono', 'shape': shape,
            'left_controls': left_controls, 'offgrid': False,
            'latency': rng.choice([0, 0.05, 0.25]),
            'where': rng.choice(['main', 'routine-system', 'routine-tempo']),
            'clock': rng.choice(['default', 'system', 'tempo']),
            'start': rng.choice([0.25, 1, 2.5]), 'proto': None}


def pitch_alone_case(rng, insts, tags):
    """Round 10: a Pbind / Pmono line whose ONLY pitch keys are one or two
    input keys of the pitch chain (every key of PITCH_INPUTS, `scale` columns
    of scale objects included - constant or one scale per event, most of them
    shifted: degree 0 is not key 0), on an instrument with a freq control;
    alone, beside another line in a Ppar, below a Pchain that adds nothing of
    the pitch chain, or with the pitch column in the LEFT operand of a
    Pchain."""
    freq_insts = [x for x in insts if any(c[0] == 'freq'
                                          for c in x['controls'])]
    inst = rng.choice(freq_insts)
    mono = rng.random() < 0.2
    pb = pbind_spec(rng, [inst], tags, False, rests=False, mono=mono,
                    pitch=False)
    m = pb[1]
    if not mono:
        m['instrument'] = inst['name']
    n = len(me.values(m['tag']))
    keys = rng.sample(sorted(PITCH_INPUTS), rng.choice([1, 1, 1, 2, 2, 3]))
    if 'freq' in keys and 'harmonic' in keys:
        keys.remove('harmonic')
    cols = {}
    for k in keys:
        if k == 'scale':
            choices = [shifted_scale_spec(rng) if rng.random() < 0.7
                       else scale_spec(rng) for _ in range(3)]
        else:
            choices = PITCH_INPUTS[k]
        cols[k] = _column(rng, n, choices, 0.4)
    shape = rng.choice(['plain', 'plain', 'ppar', 'pchain-right',
                        'pchain-left'])
    if mono or shape == 'pchain-left' and 'delta' in m:
        shape = 'plain' if shape.startswith('pchain') else shape
    if shape == 'pchain-left':
        leaf = ['pchain', ['pbind', cols], pb]
    else:
        m.update(cols)
        leaf = ['pmono', inst['name'], m] if mono else pb
    pat = leaf
    if shape == 'ppar':
        pat = ['ppar', [leaf, pbind_spec(rng, insts, tags, False)]]
    elif shape == 'pchain-right':
        pat = ['pchain', ['pbind', {'pan': rng.choice([-1, 0.25, 1])}], leaf]
    return {'pattern': pat, 'special': 'pitch-alone', 'alone': sorted(keys),
            'shape': shape, 'offgrid': False,
            'latency': rng.choice([0, 0.05, 0.25]),
            'where': rng.choice(['main', 'routine-system', 'routine-tempo']),
            'clock': rng.choice(['default', 'system', 'tempo']),
            'start': rng.choice([0.25, 1, 2.5]), 'proto': None}


def chain_in_sequence_case(rng, insts, tags):
    """Round 10: a Pchain inside a sequence (Pseq part / Pn body) that ENDS BY
    ITS LEFT OPERAND (the left operand has fewer rows than the right one; a
    chain asks its operands from right to left, so the event of the row at
    which it ends was begun by the right operand) followed by another
    pattern / its own repetition; a quarter of the cases end by the right
    operand (the usual way).  Every part of a sequence is a fresh embedding
    (Pseq / Pn help): the pattern that follows starts from the player's
    prototype event."""
    while True:
        right = pbind_spec(rng, insts, tags, False, rests=False)
        n = len(me.values(right[1]['tag']))
        if n >= 2:
            break
    k = rng.randint(1, n - 1) if rng.random() < 0.75 else n + rng.randint(0, 1)
    m = {}
    for name in rng.sample(['pan', 'foo', 'bar', 'cutoff', 'zork', 'legato'],
                           rng.randint(1, 2)):
        choices = [0.5, 1, 0.25] if name == 'legato' else [-1, 0, 1, 0.25, 2]
        m[name] = rng.choice(choices)
    first = rng.choice(sorted(m))
    m[first] = _as_pattern(rng, [rng.choice(
        [0.5, 1, 0.25] if first == 'legato' else [-1, 0.5, 1, 0.25])
        for _ in range(k)])
    chain = ['pchain', ['pbind', m], right]
    shape = rng.choice(['pseq', 'pseq', 'pn', 'pseq3'])
    nxt = lambda: pbind_spec(rng, insts, tags, False, rests=False)
    if shape == 'pseq':
        pat = ['pseq', [chain, nxt()]]
    elif shape == 'pn':
        pat = ['pn', rng.randint(2, 3), chain]
    else:
        pat = ['pseq', [nxt(), chain, nxt()]]
    return {'pattern': pat, 'special': 'chain-in-sequence',
            'ends_by': 'left-operand' if k < n else 'right-operand',
            'shape': shape, 'offgrid': False,
            'latency': rng.choice([0, 0.05, 0.25]),
            'where': rng.choice(['main', 'routine-system', 'routine-tempo']),
            'clock': rng.choice(['default', 'system', 'tempo']),
            'start': rng.choice([0.25, 1, 2.5]), 'proto': None}


def special_case(rng, insts, tags):
    """Event forms that end or suspend a stream: the event type 'rest', a None
    delta (ends the player after the event), an infinite dur (the event is
    played, the player is never due again; no gate-off unless sustain is
    given)."""
    form = rng.choice(['type-rest', 'type-rest', 'delta-none', 'dur-inf',
                       'pmono-artic', 'pmono-artic', 'pmono-artic',
                       'pchain-pmono', 'pchain-pmono', 'pchain-pmono'])
    if form == 'pmono-artic':
        return artic_case(rng, insts, tags)
    if form == 'pchain-pmono':
        return chain_mono_case(rng, insts, tags)
    pb = pbind_spec(rng, insts, tags, False, rests=False)
    m = pb[1]
    n = len(me.values(m['tag']))
    k = rng.randint(0, n - 1)
    if form == 'type-rest':
        col = ['rest' if i == k or rng.random() < 0.3 else 'note'
               for i in range(n)]
        m['type'] = _as_pattern(rng, col)
        pat = pb
        if rng.random() < 0.4:
            pat = ['ppar', [pb, pbind_spec(rng, insts, tags, False)]]
        elif rng.random() < 0.3:
            pat = ['pdelta', 0.25, pb]
    elif form == 'delta-none':
        m['delta'] = _as_pattern(rng, [None if i == k else
                                       rng.choice([0.25, 0.5, 1])
                                       for i in range(n)])
        pat = pb
    else:
        m.pop('delta', None)
        m.pop('stretch', None)
        m['dur'] = _as_pattern(rng, ['inf' if i == k else
                                     rng.choice([0.25, 0.5, 1])
                                     for i in range(n)])
        if rng.random() < 0.5:
            m['sustain'] = rng.choice([0.5, 1, 2.5])
        else:
            m.pop('sustain', None)
        pat = pb
    return {'pattern': pat, 'special': form, 'offgrid': False,
            'latency': rng.choice([0, 0.05, 0.25]),
            'where': rng.choice(['main', 'routine-system', 'routine-tempo']),
            'clock': rng.choice(['default', 'system', 'tempo']),
            'start': rng.choice([0.25, 1, 2.5]), 'proto': None}


# ---------------------------------------------------------------- key sets
#
# Pbind help: "the key can be an array of keys, the value pattern then yields
# an array of values" (multi-key assignment; in this library a tuple as key).
# Value j of the list goes to key j; a list LONGER than the key set is legal,
# the surplus is ignored; the keys before and after the key set are evaluated
# as usual.  group_keys() rewrites mappings of a finished composition so that
# 1-3 of its plain columns are given through one key set - the denotation (the
# rows of the Pbind) stays what it was by construction.

SURPLUS = [0, 7, 0.5, -1, 'tonic', None, 1000.125]


def _group_mapping(rng, m, st):
    """The mapping `m` with some plain columns given through key sets."""
    out = dict(m)
    for _ in range(1 if rng.random() < 0.7 else 2):
        cand = [k for k, v in out.items()
                if not me.is_keyset(k) and not me._is_key_column(v)]
        if not cand:
            break
        size = min(len(cand), rng.choice([1, 2, 2, 2, 3, 3]))
        members = rng.sample(cand, size)
        cols = [me.values(out[k]) for k in members]
        finite = [len(c) for c in cols if c is not None]
        shape = rng.choice(['equal', 'longer', 'longer', 'mixed', 'mixed'])

        def row(i):
            vals = [(out[k] if c is None else c[i])
                    for k, c in zip(members, cols)]
            more = shape == 'longer' or (shape == 'mixed'
                                         and rng.random() < 0.5)
            if more:
                vals = vals + [rng.choice(SURPLUS)
                               for _ in range(rng.randint(1, 2))]
                st['surplus'] = st.get('surplus', 0) + 1
            else:
                st['equal'] = st.get('equal', 0) + 1
            return {'row': vals, 'as': rng.choice(['list', 'tuple'])}
        if finite:
            col = _as_pattern(rng, [row(i) for i in range(min(finite))])
        else:
            col = row(0)            # constants: one constant row
            st['constant'] = st.get('constant', 0) + 1
        order = list(out)
        pos = min(order.index(k) for k in members)
        items = [(k, v) for k, v in out.items() if k not in members]
        items.insert(pos, (me.keyset_key(members), col))
        out = dict(items)
        st['sets'] = st.get('sets', 0) + 1
        st[f'size{size}'] = st.get(f'size{size}', 0) + 1
        after = len(items) - 1 - pos
        if pos and after:
            st['between'] = st.get('between', 0) + 1
        elif after:
            st['first'] = st.get('first', 0) + 1
        elif pos:
            st['last'] = st.get('last', 0) + 1
    return out


def group_keys(rng, p, st, prob=0.6):
    """Pattern `p` with key sets in some of its Pbind / Pmono mappings (also
    in the left operand of a Pchain)."""
    kind = p[0]
    rec = lambda c: group_keys(rng, c, st, prob)
    if kind == 'pbind':
        if rng.random() < prob:
            st['in_pbind'] = st.get('in_pbind', 0) + 1
            return ['pbind', _group_mapping(rng, p[1], st)]
        return p
    if kind in ('pmono', 'pmono_artic'):
        if rng.random() < prob:
            st['in_' + kind] = st.get('in_' + kind, 0) + 1
            return [kind, p[1], _group_mapping(rng, p[2], st)]
        return p
    if kind in ('ppar', 'pseq'):
        return [kind, [rec(c) for c in p[1]]]
    if kind == 'pchain':
        left = p[1]
        if rng.random() < prob / 2:
            st['in_pchain_left'] = st.get('in_pchain_left', 0) + 1
            left = rec(left)
        return ['pchain', left, rec(p[2])] + list(p[3:])
    if kind == 'pevent':
        return ['pevent', p[1], rec(p[2]), p[3]]
    if kind in ('pdur', 'pdelta', 'pn'):
        return [kind, p[1], rec(p[2])]
    return p


def with_key_sets(rng, case, prob=0.3):
    """With probability `prob`: the case with key sets in its pattern (and in
    its shared pattern objects).  The random choices come from a generator of
    their own, so the rest of the case is what it was before key sets were
    generated."""
    r = rng.random()
    if r >= prob or (case.get('form') == 'mono-control' and 'fault' in case):
        return case         # (a failing column is addressed by its key)
    sub = random.Random(int(r * 2 ** 52))
    st = {}
    if 'pattern' in case:
        case['pattern'] = group_keys(sub, case['pattern'], st)
    for name, x in list((case.get('shared') or {}).items()):
        if case.get('form') == 'pattern-fault' and name == 'x':
            continue        # (the failing column is addressed by its key)
        case['shared'][name] = group_keys(sub, x, st)
    if st.get('sets'):
        for k, v in (case.get('keysets') or {}).items():
            st[k] = st.get(k, 0) + v
        case['keysets'] = st
    return case


def _rewrite_key_sets(p, fn):
    kind = p[0]
    rec = lambda c: _rewrite_key_sets(c, fn)
    if kind == 'pbind':
        return ['pbind', fn(p[1])]
    if kind in ('pmono', 'pmono_artic'):
        return [kind, p[1], fn(p[2])]
    if kind in ('ppar', 'pseq'):
        return [kind, [rec(c) for c in p[1]]]
    if kind == 'pchain':
        return ['pchain', rec(p[1]), rec(p[2])] + list(p[3:])
    if kind == 'pevent':
        return ['pevent', p[1], rec(p[2]), p[3]]
    if kind in ('pdur', 'pdelta', 'pn'):
        return [kind, p[1], rec(p[2])]
    return p


def _written_out(m):
    out = {}
    for k, v in m.items():
        if not me.is_keyset(k):
            out[k] = v
            continue
        names = me.keyset_names(k)
        rows = me.values(v)
        for j, name in enumerate(names):
            out[name] = v['row'][j] if rows is None else \
                ['seq', [r['row'][j] for r in rows], 1, 0]
    return out


def _without_surplus(m):
    out = {}
    for k, v in m.items():
        if not me.is_keyset(k):
            out[k] = v
            continue
        n = len(me.keyset_names(k))
        rows = me.values(v)
        cut = lambda r: {'row': r['row'][:n], 'as': r.get('as', 'list')}
        out[k] = cut(v) if rows is None else ['seq', [cut(r) for r in rows],
                                              1, 0]
    return out


def key_set_variant(case, how):
    """The case with its key sets written out as plain keys ('plain') or with
    the surplus values of every row removed ('no-surplus'): the same
    denotation - for the diagnosis of a difference."""
    fn = _written_out if how == 'plain' else _without_surplus
    out = dict(case)
    if 'pattern' in case:
        out['pattern'] = _rewrite_key_sets(case['pattern'], fn)
    if case.get('shared'):
        out['shared'] = {k: _rewrite_key_sets(x, fn)
                         for k, x in case['shared'].items()}
    return out


def timeline_case(rng, insts, tags):
    case = _timeline_case(rng, insts, tags)
    if case.get('form') == 'derive':
        return case
    return with_key_sets(rng, case)


def _timeline_case(rng, insts, tags):
    r = rng.random()
    if r < 0.008:
        return chain_in_sequence_case(rng, insts, tags)
    if r < 0.04:
        # round 10: lines whose only pitch keys are 1-3 input keys of the chain
        return pitch_alone_case(rng, insts, tags)
    if r < 0.11:
        return special_case(rng, insts, tags)
    if r < 0.20:
        # round 10: histories on two pattern objects, one derived from the
        # other (vf/c14_derive.py)
        from vf import c14_derive
        return c14_derive.derive_case(rng, insts, tags)
    if r < 0.46:
        return reuse_case(rng, insts, tags)
    offgrid = rng.random() < 0.25
    comp = composition(rng, insts, tags, offgrid)
    case = {
        'pattern': comp, 'offgrid': offgrid,
        'latency': rng.choice([0, 0, 0.05, 0.2, 0.25, 0.015625, 1]),
        'where': rng.choice(['main', 'main', 'routine-system', 'routine-tempo']),
        'clock': rng.choice(['default', 'system', 'tempo']),
        'start': rng.choice(OFF_DUR if offgrid else [0.25, 1, 2.5, 0.0625]),
        'proto': rng.choice([None, None, 'event']),
    }
    if rng.random() < 0.03:
        # the player's prototype event holds a Rest (in a key no pattern
        # sets): every event of the stream is a rest, the timing is kept
        case['proto'] = 'event-rest'
    return case


# ---------------------------------------------------------------- fault histories
#
# A play() that FAILS half way, followed by repair and continued use of the
# same event object.  The failure is brought about through the user's own
# keys - the only way a user can make the library fail while it resolves keys
# and builds the message:
#
#   kind             key                 value                    fails in
#   fn-missing-key   a plain control     function of a key the    control list
#                                        event does not define
#   fn-raises        a plain control,    function that raises     control list /
#                    amp, sustain,                                gate-off
#                    legato, dur
#   unencodable      a plain control     object(), complex, set,  message encoder
#                                        bytes
#   too-big          a plain control     2 ** 40 (no OSC int32)   bundle builder
#   bad-add-action   add_action          'bogus', 9               after the list
#   bad-group        group               object()                 after the list
#   bad-server       server              object()                 node id
#   bad-synth-lib    synth_lib           object()                 description
#   bad-pitch        degree / octave /   'c', None, object()      pitch chain
#                    detune / harmonic /
#                    scale / mtranspose
#   bad-db           db (no amp)         'loud'                   default list
#                                                                 (undescribed
#                                                                 instrument)
#
# Whether a given fault makes play() raise depends on the instrument (a
# function in `pan` is only called when the instrument has a pan control) -
# the oracle does not care: what a play of a broken event sends is not
# decided, every play of an event whose keys are all numbers again is.

PLAIN_CONTROLS = ('pan', 'out', 'foo', 'bar', 'cutoff', 'index')
FN_HELPER_KEY = 'c14pos'        # no control of any instrument


def _plain_controls_of(inst):
    if inst is None:            # undescribed: the default parameter list
        return ['pan', 'out']
    return [n for n, _ in inst['controls'] if n in PLAIN_CONTROLS]


def fault_edit(rng, ev, inst):
    """One fault for an event with user keys `ev` on instrument `inst` (None:
    the undescribed one): ({key: bad value}, [keys to delete], kind)."""
    plain = _plain_controls_of(inst)
    names = ['pan', 'out', 'freq', 'amp'] if inst is None else \
        [n for n, _ in inst['controls']]
    kinds = ['bad-pitch', 'bad-pitch']
    if inst is None:
        kinds += ['bad-db', 'bad-db', 'fn-missing-key', 'fn-raises']
    else:
        kinds += ['bad-add-action', 'bad-add-action', 'bad-group',
                  'bad-server', 'bad-synth-lib', 'fn-chain-key']
        if plain:
            kinds += ['fn-missing-key'] * 5 + ['fn-raises'] * 3 + \
                ['unencodable'] * 4 + ['too-big'] * 2
    kind = rng.choice(kinds)
    if kind == 'fn-missing-key':
        k = rng.choice(plain)
        return ({k: {'fn': rng.choice(['item', 'call']), 'key': FN_HELPER_KEY,
                     'mul': rng.choice([2.0, 1, -0.5, 4]),
                     'add': rng.choice([-1.0, 0, 0.25, 3])}},
                [FN_HELPER_KEY], kind)
    if kind == 'fn-raises':
        k = rng.choice(plain)
        return ({k: {'bad': 'fn-raises',
                     'exc': rng.choice(['ZeroDivisionError', 'ValueError',
                                        'LookupError', 'RuntimeError'])}},
                [], kind)
    if kind == 'fn-chain-key':
        # a raising function in a key of a chain: called while the control
        # list is built when it is a control of the instrument, for the
        # gate-off (sustain, legato, dur) otherwise - or never
        k = rng.choice(['amp', 'sustain', 'sustain', 'legato', 'dur',
                        'stretch', 'detune'])
        dl = ['delta'] if k in ('dur', 'stretch') else []
        return ({k: {'bad': 'fn-raises', 'exc': 'ZeroDivisionError'}}, dl,
                kind if k in names else kind + '-no-control')
    if kind == 'unencodable':
        return ({rng.choice(plain): {'bad': rng.choice(
            ['object', 'complex', 'set', 'bytes'])}}, [], kind)
    if kind == 'too-big':
        return {rng.choice(plain): {'bad': 'bigint'}}, [], kind
    if kind == 'bad-add-action':
        return ({'add_action': {'bad': rng.choice(['str-bogus', 'int-9'])}},
                [], kind)
    if kind == 'bad-group':
        return {'group': {'bad': 'object'}}, [], kind
    if kind == 'bad-server':
        return {'server': {'bad': 'object'}}, [], kind
    if kind == 'bad-synth-lib':
        return {'synth_lib': {'bad': 'object'}}, [], kind
    if kind == 'bad-db':
        return {'db': {'bad': 'str-loud'}}, ['amp'], kind
    # bad-pitch: a key of the pitch chain the event resolves through
    if 'freq' in ev:
        k = rng.choice(['freq', 'detune'])
    elif 'midinote' in ev:
        k = rng.choice(['midinote', 'detune', 'harmonic', 'ctranspose'])
    elif 'note' in ev:
        k = rng.choice(['note', 'octave', 'detune', 'harmonic', 'root'])
    else:
        k = rng.choice(['degree', 'octave', 'detune', 'harmonic', 'scale',
                        'mtranspose', 'root'])
    bad = {'bad': 'object'} if k == 'scale' else \
        {'bad': rng.choice(['str-c', 'none', 'object'])}
    return {k: bad}, [], kind


def _repair(rng, ev, inst, insts, offgrid):
    """(set, delete) that makes every broken key of `ev` a number again (or
    removes it, or gives a function its missing key) - plus, most of the time,
    an ordinary edit of other keys: the next play must send what the event
    defines THEN."""
    st, dl = {}, []
    for k in me.broken_keys(ev):
        v = ev[k]
        if me.is_fn_value(v) and rng.random() < 0.5:
            # the function stays, the key it reads is given
            st[FN_HELPER_KEY] = rng.choice([0.25, 1, -2, 0.5, 3.0])
            continue
        if k in PLAIN_CONTROLS:
            if rng.random() < 0.25:
                dl.append(k)
            else:
                st[k] = _numv(rng, [-1, 0, 1, 2, 0.25, 7.5, 100])
        elif k in ('add_action', 'group', 'server', 'synth_lib', 'scale'):
            if k in ('add_action', 'group') and rng.random() < 0.5:
                st.update({k: server_keys_one(rng, k)})
            else:
                dl.append(k)
        elif k == 'db':
            r = rng.random()
            if r < 0.4:
                st['db'] = _numv(rng, [-40.5, -20, -12, -6, 0])
            elif r < 0.7:
                dl.append('db')
                st['amp'] = _numv(rng, [0.05, 0.3, 0.5, 1])
            else:
                dl.append('db')
        else:
            # a key of a chain
            good = {'degree': list(range(-7, 15)), 'octave': [3, 4, 6, 7],
                    'detune': [-5, 0.7, 3], 'harmonic': [0.5, 2, 3],
                    'mtranspose': [-2, 1, 3], 'root': [-2, 1, 5],
                    'ctranspose': [-12, 1, 7], 'note': [-5, 1, 3.5, 14.25],
                    'midinote': [36, 48.5, 61, 72], 'freq': [110.5, 333.3],
                    'amp': [0.05, 0.3, 1], 'sustain': [0.125, 0.5, 2.5],
                    'legato': LEGATO, 'stretch': STRETCH,
                    'dur': OFF_DUR if offgrid else GRID_DUR}[k]
            if k not in ('freq', 'midinote', 'note', 'degree') \
                    and rng.random() < 0.3:
                dl.append(k)
            else:
                st[k] = _numv(rng, good)
    if rng.random() < 0.75:
        # the user also moves the note / changes other keys while at it
        cur = {k: v for k, v in ev.items() if k not in dl}
        cur.update(st)
        st2, dl2 = _history_edit(rng, cur, insts, offgrid)
        st2.pop('instrument', None)
        for k, v in st2.items():
            if k not in st and k not in dl:
                st[k] = v
        fixed = set(st) | set(dl) | {FN_HELPER_KEY}
        fn_keys = {k for k, v in ev.items() if me.is_fn_value(v)}
        dl += [k for k in dl2 if k not in fixed and k not in fn_keys]
    return st, dl


def server_keys_one(rng, k):
    if k == 'add_action':
        return rng.choice(['addToHead', 'addToTail', 'addBefore', 'addAfter',
                           't', 'b', 0, 1, 3])
    return rng.choice([1, 0, 2, 77, 1001, 'groupobj'])


def _normalise_history_state(state, st, dl):
    """The input classes every history keeps out (see history_steps)."""
    if 'freq' in state and 'harmonic' in state \
            and not me.is_bad_value(state['harmonic']):
        state.pop('harmonic')
        st.pop('harmonic', None)
        dl.append('harmonic')
    if 'ctranspose' in state and not any(
            x in state for x in ('freq', 'midinote', 'note')):
        state.pop('ctranspose')
        st.pop('ctranspose', None)
        dl.append('ctranspose')
    if 'db' in state and 'velocity' in state and 'amp' not in state:
        state.pop('velocity')
        st.pop('velocity', None)
        dl.append('velocity')


def fault_steps(rng, insts, tags, offgrid):
    """Histories on event objects in which plays FAIL: create (sound or broken
    from the start), break by an edit and play (fails; maybe again, edited
    again while still broken), repair by one of the mutators and play, copy a
    broken object and repair the copy (or the source) ...  A step whose event
    has broken keys is a failing play (`fails`: the fault kinds present); every
    other step is an ordinary play that must send what the object defines."""
    by_name = {i['name']: i for i in insts}
    steps, state = [], {}
    lineage, faulted = {}, {}      # obj -> tags of earlier plays / fault kinds
    kinds_of = {}                  # obj -> kind of each broken key

    def inst_of(ev):
        return by_name.get(ev['instrument'])

    def add_step(k, op, src, st, dl, wait, fresh=False):
        st['tag'] = next(tags)
        for key in dl:
            state[k].pop(key, None)
        state[k].update(st)
        _normalise_history_state(state[k], st, dl)
        broken = me.broken_keys(state[k])
        kinds_of[k] = {key: kind for key, kind in kinds_of.get(k, {}).items()
                       if key in broken}
        step = {'wait': wait, 'event': dict(state[k]), 'how': 'object',
                'obj': k, 'op': op, 'prev_tags': list(lineage[k]),
                'after_fault': list(faulted[k])}
        if not fresh:
            step.update({'src': src, 'set': st, 'del': dl,
                         'mut': rng.choice(PLAY_MUTATORS),
                         'peek': rng.random() < 0.5,
                         'peek_after': not broken and rng.random() < 0.6})
            if op == 'copy':
                step['copy_how'] = rng.choice(COPY_HOWS)
        if broken:
            step['fails'] = sorted(set(kinds_of[k].values())) or ['broken']
            step['peek_after'] = False
            faulted[k] = faulted[k] + [st['tag']]
        steps.append(step)
        lineage[k].append(st['tag'])

    n_steps = rng.randint(3, 7)
    while len(steps) < n_steps or any(me.broken_keys(s) for s in state.values()):
        wait = rng.choice(OFF_DUR if offgrid else GRID_DUR + [0, 0])
        r = rng.random()
        late = len(steps) >= n_steps        # only repairs from here on
        if not state or (r < 0.15 and not late):
            k = len(state)
            inst = rng.choice(insts)
            ev = _history_event(rng, inst, 0, offgrid)
            if rng.random() < 0.06:
                ev['instrument'] = NODESC
                ev.pop('variant', None)
            state[k], lineage[k], faulted[k] = {}, [], []
            st = dict(ev)
            if rng.random() < 0.5:
                # broken from the start: the object's FIRST play fails
                fs, fd, kind = fault_edit(rng, ev, inst_of(ev))
                st.update(fs)
                for key in fd:
                    st.pop(key, None)
                kinds_of[k] = {key: kind for key in fs}
            add_step(k, 'new', None, st, [], wait, fresh=True)
            continue
        cand = [o for o in sorted(state) if me.broken_keys(state[o])] if late \
            else sorted(state)
        src = rng.choice(cand)
        broken = me.broken_keys(state[src])
        if broken:
            r = rng.random()
            if r < 0.6 or late:
                st, dl = _repair(rng, state[src], inst_of(state[src]), insts,
                                 offgrid)
                add_step(src, 'replay', src, st, dl, wait)
            elif r < 0.8:
                # a copy of the broken object is repaired, the source stays
                k = len(state)
                state[k] = dict(state[src])
                lineage[k], faulted[k] = list(lineage[src]), list(faulted[src])
                kinds_of[k] = dict(kinds_of.get(src, {}))
                st, dl = _repair(rng, state[k], inst_of(state[k]), insts,
                                 offgrid)
                add_step(k, 'copy', src, st, dl, wait)
            else:
                # played again while still broken (perhaps edited elsewhere)
                st, dl = ({}, []) if rng.random() < 0.5 else \
                    _history_edit(rng, state[src], insts, offgrid)
                st.pop('instrument', None)
                keep = set(broken) | {FN_HELPER_KEY}
                st = {a: b for a, b in st.items() if a not in keep}
                dl = [a for a in dl if a not in keep]
                add_step(src, 'replay', src, st, dl, wait)
            continue
        r = rng.random()
        if r < 0.6:
            fs, fd, kind = fault_edit(rng, state[src], inst_of(state[src]))
            if rng.random() < 0.3:
                k, op = len(state), 'copy'      # the copy is broken
                state[k] = dict(state[src])
                lineage[k], faulted[k] = list(lineage[src]), list(faulted[src])
            else:
                k, op = src, 'replay'
            kinds_of[k] = {key: kind for key in fs}
            add_step(k, op, src, dict(fs), [d for d in fd if d not in fs], wait)
        else:
            if rng.random() < 0.4:
                k, op = len(state), 'copy'
                state[k] = dict(state[src])
                lineage[k], faulted[k] = list(lineage[src]), list(faulted[src])
                kinds_of[k] = {}
            else:
                k, op = src, 'replay'
            st, dl = _history_edit(rng, state[k], insts, offgrid)
            fn_keys = {a for a, v in state[k].items() if me.is_fn_value(v)}
            if fn_keys:
                dl = [a for a in dl if a != FN_HELPER_KEY]
            if 'instrument' in st and state[k]['instrument'] == NODESC:
                st.pop('instrument')
            add_step(k, op, src, st, dl, wait)
    return steps


def fault_program(rng, insts, tags):
    where = rng.choice(['main', 'routine-system', 'routine-system',
                        'routine-tempo'])
    latency = rng.choice([0, 0, 0.05, 0.2, 0.25, 0.015625, 1, 0.1])
    offgrid = rng.random() < 0.3
    return {'where': where, 'latency': latency, 'offgrid': offgrid,
            'steps': fault_steps(rng, insts, tags, offgrid),
            'history': True, 'fault': True}


# ---------------------------------------------------------------- player control
#
# EventStreamPlayer.mute / unmute / pause / resume / play / reset / stop:
# "an event stream player plays event k at its start time plus the sum of the
# preceding deltas" - for a player that is paused and resumed, reset or
# restarted the sum starts again at the resume / restart (vf/model_events.py
# controlled()); a muted player sends nothing and keeps time.
# Action j of a case happens at a multiple of 1/16 plus (2j + 1) / 1024: never
# at a wake-up of the player (all deltas are multiples of 1/64), neither
# before nor after a resume moved its wake-ups.

def _sequential_composition(rng, insts, tags):
    for _ in range(8):
        x = composition(rng, insts, tags, False, rng.choice([0, 1, 1]),
                        allow_mono=False)
        tl = me.timeline(x)
        if tl.sequential and not tl.flags and len(tl.items) >= 2:
            return x
    pb = pbind_spec(rng, insts, tags, False)
    while len(me.timeline(pb).items) < 2:
        pb = pbind_spec(rng, insts, tags, False)
    return pb


CONTROL_CHOICES = {
    # state -> [(action, families)]
    'playing': [('mute', 'mM'), ('unmute', 'mM'), ('pause', 'pM'),
                ('pause', 'pM'), ('reset', 'rM'), ('stop', 'sM'),
                ('play-reset', 'sM'), ('reset-play', 's'), ('resume', 'p'),
                ('play', 'p')],
    'paused': [('resume', 'pM'), ('resume', 'pM'), ('play', 'pM'),
               ('mute', 'M'), ('unmute', 'M'), ('reset-play', 'sM'),
               ('play-reset', 'sM'), ('pause', 'p')],
    'stopped': [('reset-play', 'psrmM'), ('play-reset', 'psrmM')],
    'ended': [('reset-play', 'sM'), ('play-reset', 'sM'), ('resume', 'p'),
              ('mute', 'm'), ('pause', 'p')],
    # (round 9) the player died of a failing event: stopped (which releases
    # what its patterns left) or restarted straight away
    'dead': [('stop', 'psrM'), ('stop', 'psrM'), ('reset-play', 'psrM'),
             ('play-reset', 'psrM')],
}


def _control_actions(rng, tl, at, fam, dies=None, mute=True):
    """1-8 control calls for a player started at `at` over `tl`; every
    history ends with a player that runs to its end (or dies again)."""
    steps = max(2, int(tl.total * 16))
    acts, g, after_reset = [], 0, False
    ctl = lambda a, **kw: me.controlled(tl, at, a, dies=dies, **kw)
    k = rng.randint(1, 3) if fam in 'mrs' else rng.randint(2, 6)
    for j in range(7):
        if j >= k and ctl(acts).state == 'ended':
            break
        # where on the player's time line: mostly while it has events left
        g += rng.choice([rng.randint(0, max(1, steps // 2)),
                         rng.randint(0, steps), 1, 2, rng.randint(0, 3)])
        t = at + g / 16.0 + (2 * j + 1) / 1024.0
        state = ctl(acts, probe=t).state
        if j >= k and state == 'playing':
            break
        cand = [a for a, f in CONTROL_CHOICES[state] if fam in f
                and (mute or a not in ('mute', 'unmute'))]
        if after_reset:
            # (play() of a player that was reset while playing starts it
            # again at once - documented nowhere, kept out)
            cand = [a for a in cand if a != 'play']
        if not cand:
            if state == 'ended':
                break
            cand = [a for a, f in CONTROL_CHOICES[state] if 'M' in f
                    and (mute or a not in ('mute', 'unmute'))]
        do = rng.choice(cand)
        if do == 'reset':
            after_reset = True
        elif do in ('reset-play', 'play-reset', 'stop'):
            after_reset = False
        acts.append({'at': t, 'do': do})
    final = ctl(acts).state
    if final in ('paused', 'stopped') or (
            final == 'dead' and rng.random() < 0.8):
        g += rng.randint(0, 8)
        do = rng.choice(['reset-play', 'play-reset']) \
            if final in ('stopped', 'dead') else rng.choice(
                ['resume', 'resume', 'play', 'reset-play'])
        acts.append({'at': at + g / 16.0 + 15 / 1024.0, 'do': do})
    return acts


def control_case(rng, insts, tags):
    family = rng.choice(['mute', 'mute', 'pause', 'pause', 'pause', 'reset',
                         'reset', 'start-again', 'start-again', 'Mixed',
                         'Mixed', 'Mixed'])
    if family == 'mute' and rng.random() < 0.5:
        x = composition(rng, insts, tags, False, 0, allow_mono=False)
        if me.timeline(x).flags:
            x = _sequential_composition(rng, insts, tags)
    else:
        x = _sequential_composition(rng, insts, tags)
    tl = me.timeline(x)
    if not tl.sequential:
        family = 'mute'
    at = rng.choice([0.25, 1, 2.5, 0.0625])
    acts = _control_actions(rng, tl, at, family[0])
    case = {'pattern': x, 'form': 'control', 'family': family,
            'controls': acts, 'at': at, 'offgrid': False,
            'latency': rng.choice([0, 0, 0.05, 0.25, 0.015625]),
            'clock': rng.choice(['default', 'system', 'tempo']),
            'proto': rng.choice([None, 'event'])}
    return case


# ---------------------------------------------------------------- entry points
#
# Pkey (a column of a Pbind takes the value the same Pbind gave an earlier
# key), Pevent (a pattern gets an event of its own as input instead of the
# player's prototype) and Pchain.chain (a <> b built by the method) inside the
# ordinary compositions.

def _decorate(rng, p, insts, used):
    kind = p[0]
    if kind in ('pbind', 'pmono'):
        m = p[1] if kind == 'pbind' else p[2]
        if rng.random() < 0.6:
            src = [k for k, v in m.items() if k in (
                'dur', 'legato', 'amp', 'pan', 'foo', 'bar', 'cutoff', 'index',
                'midinote', 'detune', 'degree', 'db', 'zork')]
            tgt = [k for k in ('pan', 'foo', 'bar', 'cutoff', 'index', 'zork',
                               'c14copy') if k not in m]
            if src and tgt:
                s_, t_ = rng.choice(src), rng.choice(tgt)
                mul, add = rng.choice([(1, 0), (1, 0), (2, 0), (0.5, 1),
                                       (-1, 0.25)])
                length = None
                if rng.random() < 0.15:
                    length = rng.randint(1, 4)
                m[t_] = ['key', s_, length, mul, add]
                used.add('pkey')
                if s_ == 'dur' and 'legato' not in m and 'sustain' not in m \
                        and rng.random() < 0.5:
                    # legato from the duration: a usual Pkey idiom
                    m['legato'] = ['key', 'dur', None, 0.5, 0.25]
        return p
    if kind == 'ppar':
        out = ['ppar', [_decorate(rng, c, insts, used) for c in p[1]]]
    elif kind == 'pchain':
        right = _decorate(rng, p[2], insts, used)
        if right[0] in ('pbind', 'pdelta') and rng.random() < 0.4:
            # a third operand in the middle: a <> m <> b
            right = ['pchain', _chain_left(rng, 1, constant=True), right,
                     'ctor']
        hows = ['ctor', 'chain', 'chain']
        if right[0] == 'pchain' and len(right) == 3 or \
                right[0] == 'pchain' and right[3] == 'ctor':
            hows += ['flat', 'flat-chain', 'flat-chain']
        how = rng.choice(hows)
        if how != 'ctor':
            used.add('pchain-chain' if 'chain' in how else 'pchain-flat')
        out = ['pchain', p[1], right, how]
    elif kind in ('pdur', 'pdelta'):
        out = [kind, p[1], _decorate(rng, p[2], insts, used)]
    else:
        return p
    return out


def _pevent_keys(rng):
    ev = {}
    for k, ch in (('amp', [0.05, 0.3, 1]), ('pan', [-1, 0.25, 1]),
                  ('octave', [3, 4, 6]), ('mtranspose', [-2, 1, 3]),
                  ('detune', [-3, 0.5, 4]), ('legato', [0.5, 1, 0.25]),
                  ('foo', [0, 2, 7.5]), ('cutoff', [100, 1000.125]),
                  ('group', [1, 77, 1001]),
                  ('add_action', ['addToTail', 't', 1, 0]),
                  ('zork', [1, 2])):
        if rng.random() < 0.3:
            ev[k] = _numv(rng, ch) if k != 'add_action' else rng.choice(ch)
    if not ev:
        ev['pan'] = 0.25
    return ev


def _wrap_pevent(rng, p, used, depth=0):
    """Wrap some sub-patterns into Pevent(sub, event)."""
    kind = p[0]
    if rng.random() < (0.5 if depth == 0 else 0.2):
        used.add('pevent')
        inner = _wrap_pevent(rng, p, used, depth + 1) if depth < 2 and \
            rng.random() < 0.15 else p
        return ['pevent', _pevent_keys(rng), inner, rng.choice(['dict',
                                                                'event'])]
    if kind == 'ppar':
        return ['ppar', [_wrap_pevent(rng, c, used, depth + 1) for c in p[1]]]
    if kind == 'pchain':
        return [kind, p[1], _wrap_pevent(rng, p[2], used, depth + 1)] + \
            list(p[3:])
    if kind in ('pdur', 'pdelta'):
        return [kind, p[1], _wrap_pevent(rng, p[2], used, depth + 1)]
    return p


def entry_case(rng, insts, tags):
    for _ in range(20):
        used = set()
        comp = composition(rng, insts, tags, False)
        if me.timeline(comp).flags:
            continue
        # (a Pchain whose right operand is flattened must not hold a Pmono:
        # chained mono lines are a case of their own)
        comp = _decorate(rng, comp, insts, used)
        comp = _wrap_pevent(rng, comp, used)
        if used:
            break
    return {'pattern': comp, 'offgrid': False, 'entry': sorted(used),
            'latency': rng.choice([0, 0, 0.05, 0.25, 0.015625]),
            'where': rng.choice(['main', 'routine-system', 'routine-tempo']),
            'clock': rng.choice(['default', 'system', 'tempo']),
            'start': rng.choice([0.25, 1, 2.5, 0.0625]),
            'proto': rng.choice([None, None, 'event'])}


# ---------------------------------------------------------------- pattern faults
#
# An event that FAILS while a player plays it (a value of a column that the
# message encoder refuses, a bad add action, a non-number in the pitch chain).
# What the failing player does from there on is not decided (it ends, in this
# library); every other player - running at the same time, started later, on
# the same pattern objects and with the same prototype event object - and the
# events of the failing player before the failure must be as usual.

def pattern_fault_case(rng, insts, tags, keyset=False):
    by_name = {i['name']: i for i in insts}
    x = None
    for _ in range(30):
        pb = pbind_spec(rng, insts, tags, False, rests=False)
        m = pb[1]
        if isinstance(m['instrument'], str) and len(me.values(m['tag'])) >= 2:
            x = pb
            break
    if x is None:
        pb = pbind_spec(rng, insts, tags, False, rests=False)
        pb[1]['instrument'] = insts[0]['name']
        x = pb
    m = x[1]
    n = len(_first_rows(m))
    k = rng.randint(0, n - 1)
    inst = by_name[m['instrument']]
    plain = _plain_controls_of(inst)
    kinds = ['bad-add-action', 'bad-pitch']
    if plain:
        kinds += ['unencodable'] * 3 + ['too-big']
    kind = rng.choice(kinds)
    if keyset:
        # the keys that identify and time the events come first, then a key
        # set over 1-3 of the other columns (a 'pan' column if there is none)
        head = [k_ for k_ in ('instrument', 'tag', 'dur', 'stretch', 'delta')
                if k_ in m]
        tail = [k_ for k_ in m if k_ not in head]
        if not tail:
            m['pan'] = _column(rng, n, [-1, 0, 1, 0.25], 0.3)
            tail = ['pan']
        members = rng.sample(tail, min(len(tail), rng.choice([1, 2, 2, 3])))
        rows = me._bind_events(m)
        good = [{'row': [rows[i][k_] for k_ in members]
                 + ([rng.choice(SURPLUS)] if rng.random() < 0.3 else []),
                 'as': rng.choice(['list', 'tuple'])} for i in range(n)]
        key, kind = me.keyset_key(members), 'short-key-set'
        r_ = rng.random()
        if r_ < 0.7:
            bad = {'row': good[k]['row'][:rng.randint(0, len(members) - 1)],
                   'as': good[k]['as']}
        else:
            bad = rng.choice([0.5, 3])      # no list at all
        pos = min(tail.index(k_) for k_ in members)
        rest = [k_ for k_ in tail if k_ not in members]
        order = head + rest[:pos] + [key] + rest[pos:]
        old_m = dict(m)
        m.clear()
        for k_ in order:
            if k_ != key:
                m[k_] = old_m[k_]
            else:
                m[k_] = None
    elif kind in ('unencodable', 'too-big'):
        key = rng.choice(plain)
        bad = {'bad': rng.choice(['object', 'complex', 'set'])} \
            if kind == 'unencodable' else {'bad': 'bigint'}
        good = [rng.choice([-1, 0, 1, 0.25, 7.5, 2]) for _ in range(n)]
    elif kind == 'bad-add-action':
        key, bad = 'add_action', {'bad': 'str-bogus'}
        good = [rng.choice(['addToTail', 't', 1, 'addToHead', 0])
                for _ in range(n)]
    else:
        for pk in ('freq', 'midinote', 'note', 'degree', 'ctranspose',
                   'harmonic', 'mtranspose', 'octave'):
            m.pop(pk, None)
        key, bad = 'degree', {'bad': rng.choice(['str-c', 'none'])}
        good = [rng.randint(-7, 14) for _ in range(n)]
    m[key] = ['seq', good, 1, 0]
    fault = {'row': k, 'key': key, 'bad': bad, 'kind': kind,
             'tags': me.values(m['tag'])[k:]}
    # the pattern that fails, below filters that keep the stream sequential
    xs = x
    r = rng.random()
    if r < 0.2:
        xs = ['pdelta', rng.choice([0.25, 0.5, 1]), x]
    elif r < 0.4:
        xs = ['pchain', _chain_left(rng, n, constant=True), x]
    y = composition(rng, insts, tags, False, rng.choice([0, 1]))
    while me.timeline(y).flags:
        y = composition(rng, insts, tags, False, 1)
    tx = me.timeline(xs).total
    ty = me.timeline(y).total
    grid = lambda hi: rng.randint(0, max(1, int(hi * 16))) / 16.0
    plays = [{'use': 'x', 'at': 0.0}]
    t = 0.0
    for _ in range(rng.randint(1, 4)):
        t += grid(max(tx, ty))
        plays.append({'use': rng.choice(['y', 'y', 'x']), 'at': t})
    if rng.random() < 0.5:
        plays.insert(0, {'use': 'y', 'at': 0.0})
    return {'shared': {'x': xs, 'y': y}, 'fault': fault, 'plays': plays,
            'form': 'pattern-fault', 'offgrid': False,
            'latency': rng.choice([0, 0, 0.05, 0.25]),
            'clock': rng.choice(['default', 'system', 'tempo']),
            'proto': rng.choice([None, 'event', 'event'])}


def _first_rows(m):
    return me._bind_events(m)


# ---------------------------------------------------------------- mono lines under control
#
# Player-control histories on Pmono / PmonoArtic lines WHILE THEIR NODE IS
# ALIVE: the node of a mono line is created once per run of the stream and
# released exactly once - by its pattern (end of the line, end of a slur), by
# stop(), by the reset that starts the stream again - never twice, however
# the player got there: stop / reset / pause / resume / reset + play /
# play(reset=True), also after an event of the line FAILED in play() and left
# the player dead with the node alive (then stop and / or restart, the
# pattern repaired in between or not).  No mute (a muted start of a mono line
# is not defined).

def _mono_leaf(rng, insts, tags, artic):
    if artic:
        leaf = artic_case(rng, insts, tags)['pattern']
        while leaf[0] != 'pmono_artic':
            leaf = leaf[2] if leaf[0] != 'ppar' else leaf[1][0]
        return leaf
    for _ in range(20):
        leaf = pmono_spec(rng, insts, tags, False, rests=rng.random() < 0.3)
        tl = me.timeline(leaf)
        if len(tl.items) >= 3 and not tl.flags and tl.total >= 0.5:
            return leaf
    m = leaf[2]
    n = rng.randint(3, 6)
    m['tag'] = ['seq', [next(tags) for _ in range(n)], 1, 0]
    for k in list(m):
        if k != 'tag' and me.values(m[k]) is not None:
            del m[k]
    m['dur'] = rng.choice([0.25, 0.5, 1])
    m.pop('delta', None)
    return leaf


def mono_control_case(rng, insts, tags):
    artic = rng.random() < 0.35
    leaf = _mono_leaf(rng, insts, tags, artic)
    lt = me.timeline(leaf)
    shape = rng.choice(['leaf', 'leaf', 'leaf', 'then-pbind', 'after-pbind',
                        'two-lines', 'pn', 'pdelta', 'pdur'])
    other = lambda: pbind_spec(rng, insts, tags, False)
    if shape == 'then-pbind':
        x = ['pseq', [leaf, other()]]
    elif shape == 'after-pbind':
        x = ['pseq', [other(), leaf]]
    elif shape == 'two-lines':
        x = ['pseq', [leaf, _mono_leaf(rng, insts, tags,
                                       rng.random() < 0.35)]]
    elif shape == 'pn':
        x = ['pn', 2, leaf]
    elif shape == 'pdelta':
        x = ['pdelta', rng.choice([0.0625, 0.25, 0.5, 1]), leaf]
    elif shape == 'pdur':
        x = ['pdur', rng.randint(1, max(1, int(lt.total * 16) + 4)) / 16.0,
             leaf]
    else:
        x = leaf
    tl = me.timeline(x)
    if tl.flags or not tl.sequential:
        x, tl, shape = leaf, lt, 'leaf'
    dies = fault = None
    if rng.random() < 0.4:
        # an event of the mono line fails when it is played (a value the
        # message encoder refuses / a non-number in the pitch chain)
        m = leaf[2]
        rows = me._bind_events(m)
        cand = [i for i, r in enumerate(rows) if not me.event_is_rest(r)]
        plain = [k for k in _plain_controls_of(
            {i['name']: i for i in insts}[leaf[1]]) if k in m]
        if cand:
            row = rng.choice(cand[1:] or cand) if rng.random() < 0.85 \
                else cand[0]
            if plain and rng.random() < 0.6:
                key = rng.choice(plain)
                bad = {'bad': rng.choice(['object', 'complex', 'set'])}
                kind = 'unencodable'
            else:
                for pk in ('freq', 'midinote', 'note', 'degree', 'ctranspose',
                           'harmonic', 'mtranspose', 'octave'):
                    m.pop(pk, None)
                key, bad, kind = 'degree', {'bad': rng.choice(
                    ['str-c', 'none'])}, 'bad-pitch'
            good = [rows[i].get(key, 0) for i in range(len(rows))]
            if key == 'degree':
                good = [rng.randint(-7, 14) for _ in rows]
            good = [me.num(v) for v in good]
            m[key] = ['seq', good, 1, 0]
            tl = me.timeline(x)
            tag = me._bind_events(m)[row]['tag']
            idx = next((i for i, (_, e) in enumerate(tl.items)
                        if e.keys.get('tag') == tag), None)
            if idx is not None:     # (else: a Pdur cuts the line before it)
                dies = {'idx': idx, 'repair': rng.random() < 0.7}
                fault = {'row': row, 'key': key, 'bad': bad, 'kind': kind,
                         'tag': tag}
    at = rng.choice([0.25, 1, 2.5, 0.0625])
    fam = rng.choice(['p', 'p', 'r', 's', 's', 'M', 'M', 'M'])
    family = {'p': 'pause', 'r': 'reset', 's': 'start-again',
              'M': 'Mixed'}[fam]
    acts = _control_actions(rng, tl, at, fam, dies, mute=False)
    case = {'pattern': x, 'form': 'mono-control', 'family': family,
            'shape': shape, 'controls': acts, 'at': at, 'offgrid': False,
            'latency': rng.choice([0, 0, 0.05, 0.25, 0.015625]),
            'clock': rng.choice(['default', 'system', 'tempo']),
            'proto': rng.choice([None, 'event'])}
    if fault:
        case['fault'], case['dies'] = fault, dies
        c = me.controlled(tl, at, acts, dies=dies)
        case['repair_before'] = c.repair_before if c is not None else None
    return case


def short_key_set_case(rng, insts, tags):
    """A pattern fault of its own kind: row k of a key set of a Pbind yields
    FEWER values than keys (or no list at all).  What the player does from
    that row on is not decided (SuperCollider ends the stream; this library
    plays what the keys before the key set give); the rows before it, and
    every other player on the same pattern objects, are as usual.  The key
    set comes after instrument, tag and the timing keys."""
    case = pattern_fault_case(rng, insts, tags, keyset=True)
    leaf = case['shared']['x']
    while leaf[0] != 'pbind':
        leaf = leaf[2]
    rows = leaf[1][case['fault']['key']][1]
    n = len(me.keyset_names(case['fault']['key']))
    case['keysets'] = {'sets': 1, f'size{n}': 1, 'in_pbind': 1,
                       'surplus': sum(len(r['row']) > n for r in rows),
                       'equal': sum(len(r['row']) == n for r in rows)}
    return case


def control_shard_case(rng, insts, tags):
    r = rng.random()
    if r < 0.24:
        case = entry_case(rng, insts, tags)
    elif r < 0.32:
        case = pattern_fault_case(rng, insts, tags)
    elif r < 0.36:
        case = short_key_set_case(rng, insts, tags)
    elif r < 0.60:
        case = mono_control_case(rng, insts, tags)
    else:
        case = control_case(rng, insts, tags)
    return with_key_sets(rng, case, 0.25)
