"""C17 - client objects speak the server command protocol and keep ids consistent.

Trace monitor with three independent oracles (none imports sc3):
  * vf/model_cmds.py  per-method expected messages, argument by argument,
    written from the Server Command Reference + class documentation;
  * vf/cmdref.py      command grammar (name, arity, argument types, flags,
    completion messages) applied to every message that reaches the wire;
  * an id ledger fed by wrapping the server's allocator objects: every id a
    command mentions must have been allocated by this client; creation uses
    the object's own, freshly allocated id; free returns it exactly once.
bind(): the messages of a block must be the elements of exactly one bundle,
in issue order, emitted at exit - and nothing at all when the block raises
(harness exception at a random point, or a documented library exception).
Observation outside the property (counted as
observed_seti_negative_offset_addresses_neighbour, never a violation):
Synth.seti with a negative index addresses the control before the array.
Traffic is captured at the OSC interface (NRT score bytes / RT `_send`
recorder) and decoded with vf/osc.py.

Use after free (round 7; the class the workload did not reach before - freed
objects were only ever freed again or, control buses, asked for an
index-based method).  A freed Bus / Buffer owns no id, so "mentions only ids
the client has allocated" means no command may name one on its behalf, in
int form or as a bus mapping symbol ('c3', 'a2').  Histories now keep using
freed objects of every kind: Bus.as_map() before and after free() (the symbol
is cached by the object: asked while alive, asked again when freed), all
index-based ControlBus methods, all Buffer methods, freed buses handed to
Node.map/mapa/mapn/mapan, freed buffers as copy destination, freed objects
and `bus.as_map()` expressions among Synth / Node.set arguments, map symbols
in raw /n_set and /n_setn commands, freed nodes (which keep their id).
Oracle: methods the classes guard themselves must raise their documented
exception; everywhere else the call may raise or stay silent but must not
send (key .../<method>(freed)/unexpected-message); a freed object in a value
slot may travel as nil 0; Bus.as_map() of a live bus returns 'c'|'a' + its
index; the id ledger resolves the symbols on the wire too.

Nested bind() blocks (round 8; the class the workload did not reach: every
block of every history was opened while no other block was open, so "not at
all if the block raises" was only ever decided for an outermost block whose
exception leaves it for good).  Shards nest / rtnest run bind() blocks inside
bind() blocks (vf/c17_gen.py:gen_nested_case): depth 2-3, on the same server
and alternating between two servers, harness exceptions at an arbitrary point
of any block, caught directly around any block of the chain (so an inner block
fails and the outer one goes on, or fails later, or the exception passes
through several levels), commands for a server that has no open block issued
inside the other server's block, blocks entered from the main thread and (RT)
from routines with `yield from server.sync()` (with / without elements) and
waits at every level.  Oracle (vf/c17_exec.py:NestedJudge, a stack of pending
command lists per server): the wire carries exactly the commands of the
blocks that exited normally and of nothing that raised, in issue order, one
bundle per outermost block and per sync point; keys C17/bind-nested/...

Entry points no history entered (round 8, coverage survey; shard rtentry,
vf/c17_entry.py): Buffer.new_send_list / send_list(wait=-1) / new_load_list /
load_list / load_to_list / get_to_list with the server's replies fed back,
Node.register / unregister / on_free (silent), query_tree / dump_tree of
groups, the server and RootNode, RootNode's refusals, Server.free_nodes,
free_default_group(all_users), unregister / register / quit against a
stand-in server.  Not reached: Server.boot / reboot / quit of a real process.

Login histories (round 10; the class the workload did not reach: every shard
put its server into shape by calling Server._set_client_id() itself before
each history, so the ids a session uses after the server's LOGIN REPLY were
never observed).  Shard rtlogin (vf/c17_login.py): a fresh Server object per
case, constructed with default or explicit options, options edited on the
object afterwards (hardware channels, bus / buffer counts, max_logins,
initial_node_id, reserved_*), Server.register() against the stand-in whose
'/done /notify clientID [maxLogins]' reply runs through the real responder
path - confirming the id the object already has or changing it, maxLogins
equal to / different from the local option / absent - optionally unregister,
more edits and a second login.  Then buses and buffers are allocated (small,
nearly filling, exceeding the share), mentioned in /s_new, /n_set, /n_map*,
map symbols, /c_*, /b_*, and free_default_group(all_users) / free_nodes run.
Oracle: an sc3-free layout from the CURRENT options and the REPORTED maxLogins
(hardware channels excluded for audio buses; the client's partition for control
buses, buffers and node ids; one default group per login; own default group as
target); keys C17/login/<mechanism>/<reply-confirms|reply-changes>-client-id.
"""

import os

from vf.common import iter_cases, case_rng, h64, split, short_tb

LEVEL = 'exploration'
RULE = ("seeded random histories (3-90 operations) over a pool of synths, "
        "groups, par-groups, buffers (single, consecutive, read, cue) and "
        "control/audio buses: every constructor form, add action and target "
        "form; set/setn/fill/map*/release/run/move*/free; buffer and bus "
        "commands; Buffer.free_all; double frees; use of freed buses, buffers and "
        "nodes as receiver and as argument (as_map() before and after free); "
        "0-8 operation bind() blocks of "
        "which 40 % raise at a random point.  Non-trivial = the history creates "
        "and frees objects and contains a bind block, a consecutive group, "
        "free_all, a double free or a use after free; distinct = hash of the program.  "
        "Nested cases: a tree of bind() blocks (depth 1-3, one or two servers, main "
        "thread or routine, 0-5 items per block: operations, blocks, sync points, "
        "waits), every block raises with p 0.2-0.45 at a random point and is caught "
        "directly or further out; non-trivial = depth >= 2 and >= 2 operations.  "
        "Entry point cases: one call of a method no history reaches with random "
        "sizes / flags, replies of the stand-in server fed back.  Login cases: 1-2 "
        "logins of a fresh Server object (options at construction, 0-4 option groups "
        "edited before each login, reply client id same / other, maxLogins same / other / "
        "absent) each followed by 4-14 allocations and mentions; non-trivial = options "
        "edited or reported maxLogins differs")
ASSUMPTIONS = [
    "vf/cmdref.py and vf/model_cmds.py transcribe the Server Command Reference "
    "and the SuperCollider class documentation correctly",
    "vf/osc.py decodes OSC 1.0 correctly (self-tested on hand-written vectors)",
    "numeric ('float') command slots may carry an OSC int of the same value; "
    "int slots must carry an OSC int; an absent completion message may be "
    "omitted or spelled as int 0 (sclang)",
    "OBSERVATION outside the property (counted, never a violation): Synth.seti "
    "with a negative index addresses the control(s) before the arrayed control "
    "(one-sided range test, same in sclang); counter "
    "observed_seti_negative_offset_addresses_neighbour, note for the maintainer "
    "in proposed_fixes/C17-seti-negative-offset.md",
    "login shard: the id layout is the SuperCollider convention (Server.newAllocators): "
    "per-client share = resource // maxLogins at offset share * clientID (+ outputs + "
    "inputs for audio buses), the first reserved_* ids of a share are not handed out, "
    "node ids clientID * 2**26 + [initial_node_id, 2**26), default group 2**26 * i + 1 "
    "per login; it is evaluated with the option values at the time of the login reply "
    "and the maxLogins of the reply (the local option when the reply has none); the "
    "reply's client id is always one the local max_logins admits; objects of an earlier "
    "login are freed before the next one; a refused allocation is accepted",
    "objects created inside a block that raised are never used again "
    "(their creation command was never sent)",
    "use after free: BusAlreadyFreed / BufferAlreadyFreed / BusException('bus not "
    "allocated') are the documented reactions where the classes have them; "
    "elsewhere raising (Bus/Buffer exception families, TypeError, ValueError) or "
    "doing nothing are both accepted, sending a command is not; a freed object "
    "in a control *value* slot may be sent as nil = int 0 (sclang) - counted as "
    "observed_freed_object_in_value_slot_sent_as_nil_0, never a violation; a freed "
    "Node object keeps its id (same commands expected); sub-buses of a freed "
    "parent and buffers freed by Buffer.free_all (objects not told) are not used",
    "nested blocks: the statement's 'block' is read dynamically - a command issued "
    "while several blocks of its server are open belongs to the innermost one and "
    "reaches the wire iff every one of them exits normally (or a sync point of "
    "Server.sync, documented in Server.bind, flushed it before); commands for a "
    "server without an open block are sent at once; an empty bundle for a block "
    "without commands is tolerated",
    "entry point shard: the stand-in answers /status, /notify, /sync, /quit, /b_getn, "
    "/b_query (b_info), /g_queryTree and writes the file /b_write asks for the way "
    "scsynth + libsndfile do; a reply that does not resume the client within the "
    "bound is a timeout (no verdict; > 5 % of the cases: INCONCLUSIVE).  "
    "OBSERVATIONS outside the property (counted): the RIFF size field of the data "
    "file written by load_list / new_load_list (proposed_fixes/"
    "C17-wave-header-riff-size.md); RootNode.run(flag) etc. refuse by TypeError",
]
MIN_COUNTERS = {
    'quick': {'ops_compared': 50_000, 'messages_grammar_checked': 40_000,
              'id_mentions_checked': 50_000, 'ledger_checks': 50_000,
              'ok_blocks_checked': 1500, 'failed_blocks_checked': 1000,
              'rt_histories': 100, 'multi_client_histories': 150,
              'sync_blocks_checked': 150, 'sync_points_observed': 150,
              'exit_fault_blocks_checked': 200, 'literal_int_targets': 300,
              'blocks_held_open_checked': 15, 'alive_ticks_inside_open_blocks': 15,
              'clumped_blocks_checked': 5, 'stream_cases_checked': 40,
              'op:Synth.seti': 1500, 'destinations_checked': 50_000, 'node_ids_judged': 20_000,
              'histories_with_node_id_wrap_configuration': 500,
              'stream_cases_with_chunks_inside_block': 15,
              'stream_cases_with_chunks_outside_block': 15,
              'calls_on_freed_objects_checked': 2000,
              'as_map_after_free_with_cached_symbol_checked': 300,
              'return_values_checked': 3000,
              'map_symbol_mentions_checked': 1500,
              'freed_object_in_value_slot_checked': 300,
              'ops_on_freed_nodes_checked': 800,
              'nested_cases_checked': 3000,
              'nested_bundles_sent_after_dropping_a_failed_inner_block': 150,
              'nested_failed_inner_blocks_with_commands_in_open_outer_block': 400,
              'nested_sync_points_inside_inner_blocks': 300,
              'nested_cases_two_servers': 800,
              'nested_blocks_at_same_server_depth_3': 200,
              'nested_cases:routine': 500, 'nested_cases:main': 1500,
              'nested_direct_sends_to_a_server_without_open_block': 400,
              'entry_cases_checked': 350, 'entry_lifecycle:quit': 1,
              'entry_lifecycle:unregister': 1, 'entry_rootnode_refusals_checked': 60,
              'entry_data_files_parsed': 40, 'entry_stream_chunks_compared': 60,
              'entry_silent_calls_checked': 60, 'entry_sync_points_observed': 100,
              'login_rounds_checked': 80, 'login_id_mentions_checked': 2000,
              'login_rounds_layout_changed:reply-confirms-client-id': 40,
              'login_rounds_layout_changed:reply-changes-client-id': 8,
              'login_rounds_reported_max_logins_differs': 15,
              'login_rounds_after_options_edited_on_the_object': 40,
              'login_rounds_second_login_of_the_object': 12,
              'login_default_group_sets_checked': 100,
              'login_audio_mentions_checked': 130, 'login_control_mentions_checked': 160,
              'login_buffer_mentions_checked': 1000,
              'oracle_selftests': 1},
    'thorough': {'ops_compared': 1_500_000, 'messages_grammar_checked': 1_500_000,
                 'id_mentions_checked': 1_500_000, 'ledger_checks': 1_500_000,
                 'ok_blocks_checked': 30000, 'failed_blocks_checked': 20000,
                 'rt_histories': 1000, 'multi_client_histories': 5000,
                 'sync_blocks_checked': 3000, 'sync_points_observed': 3000,
                 'exit_fault_blocks_checked': 5000, 'literal_int_targets': 5000,
                 'blocks_held_open_checked': 300, 'alive_ticks_inside_open_blocks': 300,
                 'clumped_blocks_checked': 100, 'stream_cases_checked': 1000,
                 'op:Synth.seti': 30_000, 'destinations_checked': 1_000_000, 'node_ids_judged': 500_000,
                 'histories_with_node_id_wrap_configuration': 10_000,
                 'stream_cases_with_chunks_inside_block': 400,
                 'stream_cases_with_chunks_outside_block': 400,
                 'calls_on_freed_objects_checked': 40_000,
                 'as_map_after_free_with_cached_symbol_checked': 6000,
                 'return_values_checked': 80_000,
                 'map_symbol_mentions_checked': 50_000,
                 'freed_object_in_value_slot_checked': 8000,
                 'ops_on_freed_nodes_checked': 20_000,
                 'nested_cases_checked': 40_000,
                 'nested_bundles_sent_after_dropping_a_failed_inner_block': 3000,
                 'nested_failed_inner_blocks_with_commands_in_open_outer_block': 8000,
                 'nested_sync_points_inside_inner_blocks': 5000,
                 'nested_cases_two_servers': 15_000,
                 'nested_blocks_at_same_server_depth_3': 4000,
                 'nested_cases:routine': 8000, 'nested_cases:main': 20_000,
                 'nested_direct_sends_to_a_server_without_open_block': 8000,
                 'entry_cases_checked': 3000, 'entry_lifecycle:quit': 3,
                 'entry_lifecycle:unregister': 3, 'entry_rootnode_refusals_checked': 600,
                 'entry_data_files_parsed': 400, 'entry_stream_chunks_compared': 600,
                 'entry_silent_calls_checked': 600, 'entry_sync_points_observed': 1200,
                 'login_rounds_checked': 3000, 'login_id_mentions_checked': 80_000,
                 'login_rounds_layout_changed:reply-confirms-client-id': 1500,
                 'login_rounds_layout_changed:reply-changes-client-id': 300,
                 'login_rounds_reported_max_logins_differs': 600,
                 'login_rounds_after_options_edited_on_the_object': 1500,
                 'login_rounds_second_login_of_the_object': 500,
                 'login_default_group_sets_checked': 4000,
                 'login_audio_mentions_checked': 5000, 'login_control_mentions_checked': 6000,
                 'login_buffer_mentions_checked': 40_000,
                 'oracle_selftests': 1},
}


def plan(tier, seed):
    quick = tier == 'quick'
    secs = 40 if quick else 560
    shards = []
    n = 16000 if quick else 600_000
    for p, (f, k) in enumerate(split(n, 10 if quick else 11)):
        shards.append({'name': f'nrt{p}', 'mode': 'nrt', 'kind': 'nrt',
                       'first_case': f, 'n': k, 'secs': secs,
                       'hard_timeout': secs + 120})
    n = 3000 if quick else 100_000
    for p, (f, k) in enumerate(split(n, 2 if quick else 3)):
        shards.append({'name': f'multi{p}', 'mode': 'nrt', 'kind': 'multi',
                       'first_case': f, 'n': k, 'secs': secs,
                       'hard_timeout': secs + 120})
    n = 2000 if quick else 60_000
    for p, (f, k) in enumerate(split(n, 2)):
        shards.append({'name': f'rt{p}', 'mode': 'rt', 'kind': 'rt',
                       'first_case': f, 'n': k, 'secs': secs,
                       'hard_timeout': secs + 120})
    # a second, non-default server in real time (datagram destinations)
    n = 800 if quick else 30_000
    for p, (f, k) in enumerate(split(n, 1 if quick else 2)):
        shards.append({'name': f'rtmulti{p}', 'mode': 'rt', 'kind': 'rtmulti',
                       'first_case': f, 'n': k, 'secs': secs,
                       'hard_timeout': secs + 120})
    n = 1600 if quick else 60_000
    for p, (f, k) in enumerate(split(n, 2 if quick else 3)):
        shards.append({'name': f'rtsync{p}', 'mode': 'rt', 'kind': 'rtsync',
                       'first_case': f, 'n': k, 'secs': secs,
                       'hard_timeout': secs + 120})
    # blocks held open across a ping of the running alive routine (~1 s each)
    n = 60 if quick else 1500
    for p, (f, k) in enumerate(split(n, 2 if quick else 3)):
        shards.append({'name': f'rtalive{p}', 'mode': 'rt', 'kind': 'rtalive',
                       'first_case': f, 'n': k, 'secs': min(secs, 32 if quick else 420),
                       'hard_timeout': secs + 120})
    # streaming routines overlapping bind() blocks (~0.3 s each)
    n = 160 if quick else 6000
    for p, (f, k) in enumerate(split(n, 2 if quick else 3)):
        shards.append({'name': f'rtstream{p}', 'mode': 'rt', 'kind': 'rtstream',
                       'first_case': f, 'n': k, 'secs': min(secs, 32 if quick else 420),
                       'hard_timeout': secs + 120})
    # blocks larger than one datagram
    n = 60 if quick else 3000
    for p, (f, k) in enumerate(split(n, 2 if quick else 3)):
        shards.append({'name': f'rtbig{p}', 'mode': 'rt', 'kind': 'rtbig',
                       'first_case': f, 'n': k, 'secs': min(secs, 32 if quick else 420),
                       'hard_timeout': secs + 120})
    # nested bind() blocks: NRT (main thread) and RT (main thread / routines with sync)
    n = 2000 if quick else 60_000
    for p, (f, k) in enumerate(split(n, 1 if quick else 3)):
        shards.append({'name': f'nest{p}', 'mode': 'nrt', 'kind': 'nest',
                       'first_case': f, 'n': k, 'secs': secs,
                       'hard_timeout': secs + 120})
    n = 2000 if quick else 60_000
    for p, (f, k) in enumerate(split(n, 2 if quick else 3)):
        shards.append({'name': f'rtnest{p}', 'mode': 'rt', 'kind': 'rtnest',
                       'first_case': f, 'n': k, 'secs': secs,
                       'hard_timeout': secs + 120})
    # entry points no history enters (stand-in server, registered): one shard
    shards.append({'name': 'rtentry0', 'mode': 'rt', 'kind': 'rtentry',
                   'first_case': 0, 'n': 600 if quick else 20_000,
                   'secs': min(secs, 30 if quick else 300),
                   'hard_timeout': secs + 120})
    # login histories: fresh Server objects, options edited, login reply (vf/c17_login.py)
    n = 700 if quick else 24_000
    for p, (f, k) in enumerate(split(n, 1 if quick else 2)):
        shards.append({'name': f'rtlogin{p}', 'mode': 'rt', 'kind': 'rtlogin',
                       'first_case': f, 'n': k, 'secs': min(secs, 30 if quick else 400),
                       'hard_timeout': secs + 120})
    # the shards that are paced by wall-clock waits start first (16 workers)
    first = {'rtalive': 0, 'rtstream': 0, 'rtbig': 0, 'rtentry': 1, 'rtlogin': 1}
    shards.sort(key=lambda s: first.get(s['kind'], 2))
    only = os.environ.get('VF_C17_ONLY')        # development aid: shard kinds to run
    if only:
        shards = [s for s in shards if s['kind'] in only.split(',')]
    return shards


class Mods:
    pass


def run_shard(spec, acc):
    from vf import osc, cmdref, model_alloc
    from vf import c17_gen, c17_exec
    osc.selftest()
    cmdref.selftest()
    acc.count('oracle_selftests')

    from sc3.base.main import main
    from sc3.base.netaddr import NetAddr
    from sc3.synth.server import Server, ServerOptions
    from sc3.synth import node, buffer, bus
    m = Mods()
    m.Synth, m.Group, m.ParGroup = node.Synth, node.Group, node.ParGroup
    m.Buffer, m.ControlBus, m.AudioBus = buffer.Buffer, bus.ControlBus, bus.AudioBus

    kind = spec['shard']['kind']
    mode = 'rt' if kind in ('rt', 'rtsync', 'rtalive', 'rtbig', 'rtstream',
                            'rtmulti', 'rtnest', 'rtentry', 'rtlogin') else 'nrt'
    if kind == 'rtlogin':
        run_login_shard(spec, acc, m, main)
        return
    if kind == 'rtentry':
        run_entry_shard(spec, acc, m, main)
        return
    if kind in ('nest', 'rtnest'):
        run_nested_shard(spec, acc, m, main, mode)
        return
    multi = kind in ('multi', 'rtmulti')
    if multi:
        server = Server('vf17', NetAddr('127.0.0.1', 57917), ServerOptions())
        server.latency = 0
    elif kind == 'rtalive':
        server = Server('vf17a', NetAddr('127.0.0.1', 57918), ServerOptions())
    else:
        server = Server.default
    why = c17_exec.define_seti_defs(None, c17_gen.SETI_DEFS)
    if why:
        acc.mark_inconclusive('seti definitions: ' + why)
        return
    cap = c17_exec.Capture(mode, main, background=kind == 'rtalive')
    ledger = c17_exec.Ledger()
    plain_addr = server.addr

    if kind == 'rtsync':
        run_sync_shard(spec, acc, m, main, server, cap, ledger)
        return
    if kind == 'rtstream':
        run_stream_shard(spec, acc, m, main, server, cap)
        return
    ticks = []
    if kind == 'rtalive':
        if not start_alive(acc, server, cap):
            return
        # the watcher publishes 'bundling' each time its alive routine wakes
        # up (and pings) while a bind() block is open: evidence that a ping
        # fell inside a held block, observable on the unchanged tree too
        from sc3.base import model as mdl
        listener = Mods()            # kept alive by this frame
        mdl.NotificationCenter.register(server, 'bundling', listener,
                                        lambda *a: ticks.append(1))

    for i in iter_cases(spec):
        rng = case_rng(spec['seed'], 'C17', kind, i)
        if kind == 'rtalive':
            if not server.status.alive_thread_running:
                acc.mark_inconclusive('the alive routine stopped')
                return
            pings0 = cap.bg_status
            prog, stats = c17_gen.gen_alive_program(
                rng, server._status_watcher._alive_thread_period)
        elif kind == 'rtbig':
            prog, stats = c17_gen.gen_big_program(rng)
        else:
            prog, stats = c17_gen.gen_program(rng, multi_client=multi,
                                              nrt=mode == 'nrt')
        if mode == 'nrt':
            main.reset()
        if server.addr is not plain_addr:
            # a previous history left the bundling proxy installed (already
            # reported there): isolate the cases from each other
            server._addr = plain_addr
            acc.count('server_addr_repaired_between_cases')
        cid = 0
        if multi:
            ml = rng.choice([2, 2, 3, 4, 8])
            cid = rng.randrange(ml)
            server.options.max_logins = ml
        # the id counter starts a few ids below the top of the client's 26 bit
        # field in some histories, so that the wrap-around is reached
        first_id = 1000
        if kind in ('nrt', 'multi', 'rt', 'rtmulti') and rng.random() < 0.2:
            first_id = model_alloc.ID_SPAN - 1 - rng.randint(0, 12)
            acc.count('histories_with_node_id_wrap_configuration')
        server.options.initial_node_id = first_id
        server._set_client_id(cid)
        if server.client_id != cid:
            acc.mark_inconclusive('could not set the client id')
            return
        ledger.attach(server)
        cap.reset()
        runner = c17_exec.Runner(m, server, mode, cap, ledger, acc.count)
        runner.node_id_model = model_alloc.NodeIdModel(cid, first_id)
        sig = h64(repr(prog))
        try:
            runner.run(prog)
            packets = cap.packets()
            acc.count('packets_decoded', len(packets))
            c17_exec.Judge(runner, packets, mode, acc.count).run()
        except c17_exec.Violation as v:
            w = dict(v.witness)
            w.update({'case': i, 'kind': kind, 'client': cid, 'program': prog})
            acc.violation(v.key, w)
        except c17_exec.ScoreShape as e:
            acc.violation('C17/wire/score-entries-do-not-match-sends',
                          {'case': i, 'why': str(e), 'program': prog})
        except osc.OscError as e:
            acc.violation('C17/wire/packet-is-not-valid-osc',
                          {'case': i, 'why': str(e), 'program': prog})
        flat = []
        for it in prog:
            flat.extend(it['bind'] if 'bind' in it else [it])
        creates = any(o['op'] in ('synth', 'group', 'buffer', 'bus') for o in flat)
        frees = any((o['op'] in ('node', 'buf', 'busm') and o['m'] == 'free')
                    or o['op'] in ('free_all', 'bufgroup_free') for o in flat)
        special = (any('bind' in it for it in prog)
                   or any(o['op'] in ('free_all', 'bufgroup_free') for o in flat)
                   or stats.get('double_free_buffer') or stats.get('double_free_bus')
                   or stats.get('use_after_free') or stats.get('freed_node_ops')
                   or any(o['op'] == 'buffer' and o['ctor'] == 'consecutive'
                          for o in flat))
        acc.case(sig, nontrivial=bool(creates and frees and special))
        lit = sum(1 for o in flat if isinstance(o.get('target'), dict)
                  and '$lit' in o['target']) + sum(1 for o in flat if 'node_id' in o)
        if lit:
            acc.count('literal_int_targets', lit)
        acc.count('histories')
        if mode == 'rt':
            acc.count('rt_histories')
        if kind == 'rtalive':
            acc.count('alive_histories')
            acc.counters['alive_pings_on_wire'] = cap.bg_status
            acc.counters['alive_ticks_inside_open_blocks'] = len(ticks)
        if kind == 'rtbig':
            acc.count('big_block_histories')
        if multi:
            acc.count('multi_client_histories')
            if cid:
                acc.count('histories_client_nonzero')
        for a in stats['add_actions']:
            acc.count(f'add_action:{a}')
        if stats.get('use_after_free'):
            acc.count('histories_with_use_after_free')
        if stats.get('stale_cached_symbol'):
            acc.count('histories_asking_freed_bus_for_cached_symbol')
        if stats.get('seti'):
            acc.count('histories_with_seti')
        if stats.get('dict_with_sequence_value'):
            acc.count('histories_with_dict_sequence_value')
        if acc.want_sample() and 4 <= len(flat) <= 9 and special and frees:
            acc.sample({'case': i, 'kind': kind, 'program': prog})


def run_sync_shard(spec, acc, m, main, server, cap, ledger):
    """RT: routines on a clock run bind() blocks with 0-3 `yield from
    server.sync()` points; the `_send` recorder plays the server and answers
    every /sync with /synced through the interface's receive path."""
    from vf import osc, c17_gen, c17_exec
    from sc3.base import clock as clk
    from sc3.base.stream import Routine
    m.Routine = Routine
    clocks = {'system': clk.SystemClock, 'app': clk.AppClock}
    plain_addr = server.addr
    timeouts = cases = 0
    for i in iter_cases(spec):
        rng = case_rng(spec['seed'], 'C17', 'rtsync', i)
        prog, stats = c17_gen.gen_sync_program(rng)
        if server.addr is not plain_addr:
            server._addr = plain_addr
            acc.count('server_addr_repaired_between_cases')
        with main._main_lock:
            server._set_client_id(0)
            ledger.attach(server)
            cap.reset()
        runner = c17_exec.Runner(m, server, 'rt', cap, ledger, acc.count)
        cases += 1
        try:
            finished = runner.run_sync(prog, clocks, wait=10.0)
            if not finished:
                # bounded wait: the reply never resumed the routine (starved
                # host or broken receive path) - never a verdict by itself
                timeouts += 1
                acc.count('sync_histories_timed_out')
                continue
            packets = cap.packets()
            acc.count('packets_decoded', len(packets))
            c17_exec.Judge(runner, packets, 'rt', acc.count).run()
        except c17_exec.Violation as v:
            w = dict(v.witness)
            w.update({'case': i, 'kind': 'rtsync', 'program': prog})
            acc.violation(v.key, w)
        except osc.OscError as e:
            acc.violation('C17/wire/packet-is-not-valid-osc',
                          {'case': i, 'why': str(e), 'program': prog})
        nsync = len(prog['sections']) - 1
        nops = sum(len(x) for x in prog['sections'])
        acc.case(h64(repr(prog)), nontrivial=nsync >= 1 and nops >= 2)
        acc.count('histories')
        acc.count('sync_histories')
        acc.count(f'sync_histories_with_{nsync}_syncs')
        if prog['raise_at'] is not None:
            acc.count('sync_histories_raising')
        if acc.want_sample() and nsync >= 1 and 2 <= nops <= 6:
            acc.sample({'case': i, 'kind': 'rtsync', 'program': prog})
    acc.count('sync_replies_fed_back', cap.sync_replies)
    if cases and timeouts > max(3, cases // 20):
        acc.mark_inconclusive(f'{timeouts}/{cases} sync routines never resumed')


def start_alive(acc, server, cap):
    """Registers with the stand-in server (the `_send` recorder answers
    /status, /notify and /sync), which starts the status watcher's real alive
    routine on AppClock.  Bounded wait; never a verdict by itself."""
    import time
    done = []
    server.register(on_complete=lambda *a: done.append(1))
    t0 = time.time()
    while time.time() - t0 < 15 and not (done and server.status.server_running):
        time.sleep(0.05)
    if not (done and server.status.server_running
            and server.status.alive_thread_running):
        acc.mark_inconclusive('could not register with the stand-in server '
                              f'(pings seen: {cap.bg_status})')
        return False
    time.sleep(0.3)
    acc.count('alive_routine_started')
    return True


def run_stream_shard(spec, acc, m, main, server, cap):
    from vf import osc, c17_gen, c17_exec
    from sc3.base import clock as clk
    from sc3.base.stream import Routine
    m.Routine = Routine
    clocks = {'system': clk.SystemClock, 'app': clk.AppClock}
    plain_addr = server.addr
    timeouts = cases = 0
    for i in iter_cases(spec):
        rng = case_rng(spec['seed'], 'C17', 'rtstream', i)
        case = c17_gen.gen_stream_case(rng)
        if server.addr is not plain_addr:
            server._addr = plain_addr
            acc.count('server_addr_repaired_between_cases')
        with main._main_lock:
            server._set_client_id(0)
        cases += 1
        try:
            r = c17_exec.run_stream_case(m, server, cap, case, clocks, acc.count,
                                         main._main_lock)
            if r == 'timeout':
                timeouts += 1
                acc.count('stream_cases_timed_out')
        except c17_exec.Violation as v:
            w = dict(v.witness)
            w.update({'case': i, 'kind': 'rtstream', 'stream': case})
            acc.violation(v.key, w)
        except osc.OscError as e:
            acc.violation('C17/wire/packet-is-not-valid-osc', {'case': i, 'why': str(e)})
        acc.case(h64(repr(case)), nontrivial=case['form'] != 'no-block')
        acc.count('histories')
        if acc.want_sample() and case['form'] != 'no-block':
            acc.sample({'case': i, 'kind': 'rtstream', 'stream': case})
    if cases and timeouts > max(3, cases // 20):
        acc.mark_inconclusive(f'{timeouts}/{cases} streams never finished')


def run_nested_shard(spec, acc, m, main, mode):
    """bind() blocks nested in bind() blocks on one or two servers
    (vf/c17_gen.py:gen_nested_case, vf/c17_exec.py:NestedCase / NestedJudge)."""
    from vf import osc, c17_gen, c17_exec
    from sc3.base import clock as clk
    from sc3.base.stream import Routine
    from sc3.base.netaddr import NetAddr
    from sc3.synth.server import Server, ServerOptions
    m.Routine = Routine
    kind = spec['shard']['kind']
    clocks = {'system': clk.SystemClock, 'app': clk.AppClock}
    second = Server('vf17n', NetAddr('127.0.0.1', 57919), ServerOptions())
    servers = [Server.default, second]
    for s in servers:
        s.latency = 0 if mode == 'nrt' else s.latency
    why = c17_exec.define_seti_defs(None, c17_gen.SETI_DEFS)
    if why:
        acc.mark_inconclusive('seti definitions: ' + why)
        return
    cap = c17_exec.Capture(mode, main)
    ledgers = [c17_exec.Ledger(), c17_exec.Ledger()]
    plain = [s.addr for s in servers]
    timeouts = cases = 0
    for i in iter_cases(spec):
        rng = case_rng(spec['seed'], 'C17', kind, i)
        case, info = c17_gen.gen_nested_case(rng, mode)
        if mode == 'nrt':
            main.reset()
        with main._main_lock:
            for s, pa, led in zip(servers, plain, ledgers):
                if s.addr is not pa:
                    s._addr = pa
                    acc.count('server_addr_repaired_between_cases')
                s.options.initial_node_id = 1000
                s._set_client_id(0)
                led.attach(s)
            cap.reset()
        nsrv = case['servers']
        nc = c17_exec.NestedCase(m, servers[:nsrv], mode, cap, ledgers[:nsrv], acc.count)
        cases += 1
        try:
            if not nc.run(case, clocks, wait=10.0):
                timeouts += 1
                acc.count('nested_cases_timed_out')
                continue
            packets = cap.packets()
            acc.count('packets_decoded', len(packets))
            c17_exec.NestedJudge(nc, packets, mode, acc.count).run()
        except c17_exec.Violation as v:
            w = dict(v.witness)
            w.update({'case': i, 'kind': kind, 'nested': case})
            acc.violation(v.key, w)
        except c17_exec.ScoreShape as e:
            acc.violation('C17/wire/score-entries-do-not-match-sends',
                          {'case': i, 'why': str(e), 'nested': case})
        except osc.OscError as e:
            acc.violation('C17/wire/packet-is-not-valid-osc',
                          {'case': i, 'why': str(e), 'nested': case})
        acc.case(h64(repr(case)), nontrivial=info['max_depth'] >= 2 and nc.idx >= 2)
        acc.count('histories')
        if mode == 'rt':
            acc.count('rt_histories')
        acc.count(f"nested_cases:{case['where']}")
        acc.count(f"nested_cases_depth_{info['max_depth']}")
        if nsrv == 2:
            acc.count('nested_cases_two_servers')
        if info['caught_inside_an_outer_block']:
            acc.count('nested_cases_with_exception_caught_inside_an_outer_block')
            if info['root_outcome'] == 'ok':
                acc.count('nested_cases_inner_block_raised_outermost_exited_normally')
        if info['syncs_in_inner_blocks']:
            acc.count('nested_cases_with_sync_in_inner_block')
        if acc.want_sample() and info['max_depth'] >= 2 and 3 <= nc.idx <= 8 \
                and info['failed_blocks']:
            acc.sample({'case': i, 'kind': kind, 'nested': case})
    if cases and timeouts > max(3, cases // 20):
        acc.mark_inconclusive(f'{timeouts}/{cases} nested routines never finished')


def run_entry_shard(spec, acc, m, main):
    """Public entry points of the anchored files that no history shard enters
    (vf/c17_entry.py), against a stand-in server the client is registered with."""
    import tempfile
    from vf import osc, c17_entry, c17_exec
    from sc3.base.netaddr import NetAddr
    from sc3.synth.server import Server, ServerOptions
    tmp = os.path.join(os.environ.get('HOME') or tempfile.gettempdir(), 'vf17-tmp')
    os.makedirs(tmp, exist_ok=True)
    tempfile.tempdir = tmp           # Platform.tmp_dir = the worker's scratch HOME
    server = Server('vf17e', NetAddr('127.0.0.1', 57921), ServerOptions())
    remote = Server('vf17far', NetAddr('10.11.12.13', 57110), ServerOptions())
    wire = c17_entry.Wire(main)
    ledger = c17_exec.Ledger()
    if not c17_entry.register(server, wire):
        acc.mark_inconclusive('could not register with the stand-in server '
                              f'(status requests seen: {wire.status_seen})')
        return
    acc.count('alive_routine_started')
    ctx = c17_entry.Ctx(m, server, remote, wire, ledger, acc.count, tmp)
    timeouts = cases = 0

    def guarded(f, witness):
        nonlocal timeouts
        try:
            r = f()
            if r == 'timeout':
                timeouts += 1
                acc.count('entry_cases_timed_out')
        except c17_exec.Violation as v:
            w = dict(v.witness)
            w.update(witness)
            acc.violation(v.key, w)
        except osc.OscError as e:
            acc.violation('C17/wire/packet-is-not-valid-osc', dict(witness, why=str(e)))

    if spec.get('only_case') is None:
        with main._main_lock:
            ledger.attach(server)
        for _ in range(2 if spec['tier'] == 'quick' else 6):
            cases += 1
            guarded(lambda: c17_entry.lifecycle(ctx, acc.count), {'kind': 'rtentry'})
            if not server.status.server_running:
                if not c17_entry.register(server, wire):
                    acc.mark_inconclusive('registration lost after a life cycle round')
                    return
    for i in iter_cases(spec):
        rng = case_rng(spec['seed'], 'C17', 'rtentry', i)
        case = c17_entry.gen_case(rng)
        if not server.status.server_running:
            acc.mark_inconclusive('the stand-in registration was lost')
            return
        with main._main_lock:
            server.options.initial_node_id = 1000
            server._set_client_id(0)
            ledger.attach(server)
            wire.reset()
        cases += 1
        guarded(lambda: c17_entry.run_case(ctx, case), {'case': i, 'kind': 'rtentry'})
        acc.case(h64(repr(case)), nontrivial=c17_entry.case_nontrivial(case))
        acc.count('histories')
        acc.count('rt_histories')
        if acc.want_sample() and case['kind'] in ('rootnode', 'node_watch', 'query_tree'):
            acc.sample({'case': i, 'kind': 'rtentry', 'entry': case})
    for f in os.listdir(tmp):
        try:
            os.unlink(os.path.join(tmp, f))
        except OSError:
            pass
    if cases and timeouts > max(3, cases // 20):
        acc.mark_inconclusive(f'{timeouts}/{cases} entry point cases timed out')


def run_login_shard(spec, acc, m, main):
    """Login histories (vf/c17_login.py): Server constructed, options edited,
    /done /notify reply through the responder path, ids judged by layout."""
    from vf import osc, c17_entry, c17_login, c17_exec
    from sc3.base.netaddr import NetAddr
    from sc3.synth.server import Server, ServerOptions
    wire = c17_entry.Wire(main)
    ctx = c17_login.Ctx(m, main, wire, acc.count, Server, ServerOptions, NetAddr)
    timeouts = cases = 0
    for i in iter_cases(spec):
        rng = case_rng(spec['seed'], 'C17', 'rtlogin', i)
        case = c17_login.gen_case(rng)
        cases += 1
        try:
            if c17_login.run_case(ctx, case) == 'timeout':
                timeouts += 1
                acc.count('login_cases_timed_out')
            else:
                acc.count('login_cases_checked')
        except c17_exec.Violation as v:
            w = dict(v.witness)
            w.update({'case': i, 'kind': 'rtlogin'})
            acc.violation(v.key, w)
        except osc.OscError as e:
            acc.violation('C17/wire/packet-is-not-valid-osc',
                          {'case': i, 'why': str(e), 'login': case})
        acc.case(h64(repr(case)), nontrivial=any(
            r['edits'] or r['reply']['max_logins'] not in (None, r['options_now']['max_logins'])
            for r in case['rounds']))
        acc.count('histories')
        acc.count('rt_histories')
        if acc.want_sample() and len(case['rounds']) == 2:
            acc.sample({'case': i, 'kind': 'rtlogin', 'login': case})
    if cases and timeouts > max(3, cases // 20):
        acc.mark_inconclusive(f'{timeouts}/{cases} login cases timed out')
