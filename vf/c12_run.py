"""C12 program interpreter: runs a generated history (vf/c12_gen.py) inside a
routine playing on a real TempoClock, with the reference map (vf/c12_model.py)
replayed next to it.  Works in both modes; sc3 objects are handed in by the
caller (this module does not import sc3 at top level).

Every deviation is recorded as (mechanism key, witness detail); the first one
stops the program.

Error paths followed by continued use: tasks played with a quant end their
wake-up in every way a clock has to cope with (plain return, generator running
off its end, user code raising, StopStream, handing back something that is not
a delta); what is judged is the event that runs NEXT (the root routine's next
wake-up, another played task): it must wake on its own second / beat.  PREV_END
remembers how the event immediately before the current one ended (any clock of
the process: every event runs under the library lock), so that a deviation
right after a failed task gets its own mechanism key.

Tasks that wake several times and are scheduled again while pending (ops
'mplay' / 'mpause' / 'mmove'): vf/c12_moved.py, mixed into Run.
TempoClock.play_next_bar(task) is one of the ways the one-shot children are
played (how = 'clock.play_next_bar[-function]': first wake-up on the next bar
line of the meter valid at the call).
"""

import math

from vf import c12_model as M
from vf import c12_contracts as K
from vf.common import short_tb, tb_sites
from vf.c12_moved import (MovedTasks, PREV_END, _take_prev_end, _after,
                          quant_qp)


class UserError(Exception):
    """User code failing inside a scheduled task."""


class Run(MovedTasks):
    def __init__(self, prog, mode, sc, counts):
        """sc: namespace with TempoClock, Routine, Quant, main."""
        self.prog = prog
        self.mode = mode
        self.sc = sc
        self.counts = counts
        self.bads = []
        self.finished = False
        self.internal = None
        self.children = []
        self.map_changes = 0
        self.expect = None
        self.beats_set = False
        self.now = None
        self.clk = None
        self.model = None
        self.step_index = -1
        self.root = None
        self.wakes = []
        self._mt_init()

    # -- bookkeeping
    def n(self, name, k=1):
        self.counts[name] = self.counts.get(name, 0) + k

    def bad(self, key, **detail):
        self.bads.append((key, detail))

    @property
    def stop(self):
        return bool(self.bads)

    def call(self, what, fn, *args, **kwargs):
        """Call into the clock; contract violations and library exceptions
        become recorded deviations.  Returns (ok, value)."""
        try:
            return True, fn(*args, **kwargs)
        except K.ContractBroken:
            fails = K.take_fails()
            tag = fails[-1]['tag'] if fails else 'unknown'
            self.bad(f'C12/contract/{tag}', op=what,
                     contract=fails[-1] if fails else None)
        except Exception as e:
            site = tb_sites(e)
            self.bad(f'C12/raises/{what}/{type(e).__name__}',
                     site=site[-1] if site else None, tb=short_tb(e))
        return False, None

    # -- set-up -----------------------------------------------------------
    def make_clock(self):
        main, TempoClock = self.sc.main, self.sc.TempoClock
        spec = self.prog['clock']
        tempo, beats, secs = spec['tempo'], spec['beats'], spec['seconds']
        if isinstance(secs, str):
            now = main.elapsed_time()
            secs = now + {'now': 0.0, 'now-1': -1.0, 'now+0.01': 0.01}[secs]
        t0 = main.elapsed_time()
        ok, clk = self.call('TempoClock', TempoClock, tempo, beats, secs)
        t1 = main.elapsed_time()
        if not ok:
            return None
        self.clk = clk
        mt = 1.0 if tempo is None else tempo
        mb = 0.0 if beats is None else beats
        # documented: "beats: the time in beats, corresponding to the
        # reference time given with the seconds argument"
        ok, got = self.call('beats2secs', clk.beats2secs, mb)
        if not ok:
            return None
        if secs is None:
            # "defaults to the current thread's logical time": the main
            # thread's, read somewhere during the constructor call
            if self.mode == 'nrt':
                ms = t0
            else:
                ms = got
            if not (t0 - 1e-6 <= got <= t1 + 1e-6):
                self.bad('C12/constructor/reference-second-not-now',
                         base=got, t0=t0, t1=t1)
                return None
        else:
            ms = secs
            self.n('constructor_reference_points_checked')
            if abs(got - secs) > 1e-9 * max(1.0, abs(secs)) + 1e-9:
                self.bad('C12/constructor/seconds-zero-taken-as-now'
                         if secs == 0 else
                         'C12/constructor/reference-point-differs',
                         tempo=tempo, beats=beats, seconds=secs,
                         beats2secs_of_beats=got, now=t0)
                return None
        self.model = M.TempoMap(mt, mb, ms)
        self.n('clocks')
        return clk

    def start(self):
        """Create the clock and play the root routine (call from the main
        thread).  In real-time mode the library's main lock is held meanwhile
        (Routine.play takes it anyway): `main.current_tt` is process-global and
        switched by the clock threads under that lock, so without it "the
        current thread's time" read by play() could be another clock's
        routine's."""
        if self.mode == 'rt':
            with self.sc.main._main_lock:
                self._start()
        else:
            self._start()

    def _start(self):
        sc = self.sc
        clk = self.make_clock()
        if clk is None:
            return
        run = self

        def body(inval):
            try:
                yield from run._body(inval)
            except BaseException as e:      # harness error, never a verdict
                if not isinstance(e, GeneratorExit):
                    run.internal = short_tb(e, 10)
                raise

        self.root = sc.Routine(body)
        rq = self.prog['root_quant']
        q, p = quant_qp(rq)
        mdl = self.model
        t0 = sc.main.elapsed_time()
        ok, _ = self.call('play', self.root.play, clk, self._quant_obj(rq))
        t1 = sc.main.elapsed_time()
        if not ok:
            return
        # the reference beat is the main thread's current time in beats
        self.root_rec = dict(q=q, p=p, ref=mdl.beats(t0), ref_hi=mdl.beats(t1),
                             bbb=mdl.base_bar_beat, spec=rq)

    def _quant_obj(self, spec):
        if isinstance(spec, dict):
            return self.sc.Quant(spec['q'], spec['p'])
        if isinstance(spec, list):
            return tuple(spec) if (len(repr(spec)) % 2) else list(spec)
        return spec

    # -- the routine ---------------------------------------------------------
    def _body(self, inval):
        rout, clk = inval
        if clk is not self.clk:
            self.bad('C12/routine-inval-clock-differs')
            return
        steps = self.prog['steps']
        for k, step in enumerate(steps):
            self.step_index = k
            self.on_wake(first=(k == 0))
            if self.stop:
                return
            for op in step['ops']:
                self.do_op(op)
                if self.stop:
                    return
            self.mt_settle()
            if self.stop:
                return
            if step['delta'] is None:
                break
            self.set_expectation(step['delta'])
            yield step['delta']
        self.finished = True
        PREV_END[0] = 'gen-end'     # this routine runs off its end

    def tolb(self, *v):
        return self.model.tol_beats(*v)

    def on_wake(self, first):
        clk, mdl = self.clk, self.model
        prev = _take_prev_end()
        s = clk.seconds
        self.now = s
        self.n('wakeups')
        if prev != 'return':
            self.n('wakes_checked_right_after_' + prev)
        ok, b = self.call('beats', lambda: clk.beats)
        if not ok:
            return
        self.wakes.append((s, b))
        if first:
            r = self.root_rec
            why = M.grid_check(b, r['q'], r['p'], r['ref'], r['bbb'],
                               self.tolb(b), ref_hi=r['ref_hi'])
            self.n('play_first_wakes_checked')
            if why:
                self.bad(f'C12/play-quant-first-wake/{why[0]}' + _after(prev),
                         root=True, quant=r, woke_at_beat=b, seconds=s,
                         text=why[1])
                return
        else:
            opts = self.expect
            tol = mdl.tol_secs(s, *opts) + self.tolb(b) / mdl.tempo
            self.n('wake_times_checked')
            if not any(abs(s - e) <= tol for e in opts):
                self.bad('C12/wake/beats-do-not-advance-at-tempo'
                         + ('/after-beats-setter' if self.beats_set else '')
                         + _after(prev),
                         woke_at_second=s, expected=opts, tempo=mdl.tempo,
                         woke_at_beat=b)
                return
        mdl._seen(s, b)
        want = mdl.beats(s)
        if abs(b - want) > self.tolb(b, want):
            self.bad('C12/map/beats-at-wake' + _after(prev), beats=b,
                     model=want, seconds=s)
        self.beats_set = False

    def set_expectation(self, delta):
        mdl = self.model
        # beat of this wake-up in the map that was valid when the routine woke
        b0 = self.wake_beat
        opts = [mdl.secs(b0 + delta)]
        if self.beats_set:
            # "the change will only take effect after rescheduling": either
            # reading of the documentation is accepted
            opts.append(self.now + delta / mdl.tempo)
        self.expect = opts

    # -- operations ----------------------------------------------------------
    def do_op(self, op):
        name = op[0]
        getattr(self, 'op_' + name)(*op[1:])
        self.n('op_' + name)

    def op_tempo(self, v):
        clk = self.clk

        def f():
            clk.tempo = v
        ok, _ = self.call('tempo', f)
        if ok:
            self.model.set_tempo(v, self.now)
            self.map_changes += 1
            self.observe('tempo')

    def op_etempo(self, v):
        clk, mdl, main = self.clk, self.model, self.sc.main
        t0 = main.elapsed_time()
        ok, _ = self.call('etempo', clk.etempo, v)
        t1 = main.elapsed_time()
        if not ok:
            return
        if self.mode == 'nrt':
            at = t0              # physical == logical time
            if t0 != self.now:
                self.bad('C12/harness/nrt-elapsed-differs-from-logical',
                         elapsed=t0, logical=self.now)
                return
        else:
            # the change is made at the physical time e of the call, t0 <= e
            # <= t1, unknown to the harness: the old and the new line must
            # meet somewhere in [t0, t1].  New line from one public reading.
            ok, b1 = self.call('secs2beats', clk.secs2beats, t0)
            if not ok:
                return
            f0 = b1 - mdl.beats(t0)
            f1 = f0 + (v - mdl.tempo) * (t1 - t0)
            self.n('rt_etempo_meeting_points')
            if min(abs(f0), abs(f1)) > 2 * self.tolb(b1) and f0 * f1 > 0:
                self.bad('C12/map/etempo-not-continuous-at-elapsed-time',
                         t0=t0, t1=t1, gap_at_t0=f0, gap_at_t1=f1, new_tempo=v,
                         old_tempo=mdl.tempo)
                return
            mdl.rebase(v, t0, b1)
            self.map_changes += 1
            self.observe('etempo')
            return
        mdl.set_tempo(v, at)
        self.map_changes += 1
        self.observe('etempo')

    def op_beats(self, v):
        clk = self.clk
        if isinstance(v, dict):
            v = self.model.beats(self.now) + v['rel']

        def f():
            clk.beats = v
        ok, _ = self.call('beats-setter', f)
        if ok:
            self.model.set_beats(v, self.now)
            self.map_changes += 1
            self.beats_set = True
            self.observe('beats')

    def op_bpb(self, v):
        clk, mdl = self.clk, self.model
        b = mdl.beats(self.now)

        def f():
            clk.beats_per_bar = v
        ok, _ = self.call('beats_per_bar', f)
        if not ok:
            return
        why = mdl.set_meter(v, b, clk.base_bar)
        if why:
            self.bad('C12/meter/base-bar', text=why)
            return
        self.observe('bpb')

    def observe(self, after):
        """Public readings against the replayed model."""
        clk, mdl, s = self.clk, self.model, self.now
        self.n('observations')
        ok, vals = self.call('observe', lambda: (
            clk.tempo, clk.beat_dur, clk.seconds, clk.beats,
            clk.beats_per_bar, clk.base_bar_beat))
        if not ok:
            return
        tempo, dur, secs, beats, bpb, bbb = vals
        want = mdl.beats(s)
        if tempo != mdl.tempo:
            self.bad(f'C12/map/tempo-after-{after}', got=tempo, model=mdl.tempo)
        elif abs(dur * mdl.tempo - 1.0) > 1e-12:
            self.bad(f'C12/map/beat-dur-after-{after}', got=dur,
                     tempo=mdl.tempo)
        elif secs != s:
            self.bad(f'C12/map/seconds-moved-by-{after}', got=secs, was=s)
        elif abs(beats - want) > self.tolb(beats, want):
            # tempo / etempo: continuity of the current pair; beats: the map
            # passes through (now, value)
            self.bad(f'C12/map/beats-after-{after}', got=beats, model=want,
                     seconds=s, tempo=mdl.tempo)
        elif bpb != mdl.bpb:
            self.bad(f'C12/meter/beats-per-bar-after-{after}', got=bpb,
                     model=mdl.bpb)
        elif abs(bbb - mdl.base_bar_beat) > self.tolb(bbb):
            self.bad(f'C12/meter/base-bar-beat-after-{after}', got=bbb,
                     model=mdl.base_bar_beat)
        if self.stop:
            return
        # the map away from "now": slope and offset
        x = want + 7.25
        y = s + 3.5
        ok, vals = self.call('observe', lambda: (clk.beats2secs(x),
                                                  clk.secs2beats(y)))
        if not ok:
            return
        sx, by = vals
        if abs(sx - mdl.secs(x)) > mdl.tol_secs(sx) + self.tolb(x) / mdl.tempo:
            self.bad(f'C12/map/beats2secs-after-{after}', beat=x, got=sx,
                     model=mdl.secs(x))
        elif abs(by - mdl.beats(y)) > self.tolb(by, mdl.beats(y)):
            self.bad(f'C12/map/secs2beats-after-{after}', second=y, got=by,
                     model=mdl.beats(y))
        if self.mode == 'nrt' and not self.stop:
            ok, eb = self.call('elapsed_beats', clk.elapsed_beats)
            if ok and abs(eb - want) > self.tolb(eb, want):
                self.bad(f'C12/map/elapsed-beats-after-{after}', got=eb,
                         model=want)

    @property
    def wake_beat(self):
        return self.wakes[-1][1]

    def op_play(self, spec, how, end='return'):
        sc, clk, mdl = self.sc, self.clk, self.model
        q, p = quant_qp(spec)
        next_bar = how.startswith('clock.play_next_bar')
        if next_bar:
            # "evaluated at the next bar": a bar line is a grid point of
            # quant = beats_per_bar, phase 0 of the current meter
            q, p = mdl.bpb, 0
            how = 'clock.play' + how[len('clock.play_next_bar'):]
            self.n('play_next_bar_calls')
        rec = dict(q=q, p=p, spec=spec, how=how, end=end, ref=mdl.beats(self.now),
                   next_bar=next_bar,
                   bbb=mdl.base_bar_beat, changes_at_play=self.map_changes,
                   played_at_second=self.now, wake=None, step=self.step_index)
        run = self
        cls, _, arg = end.partition(':')
        if how == 'clock.play-function' and cls == 'gen-end':
            cls = 'return'
        as_generator = cls in ('gen-end', 'value') or (
            cls == 'raise' and self.step_index % 2 == 1)

        def wake(c):
            rec['prev_end'] = _take_prev_end()
            rec['wake'] = (c.seconds, c.beats, run.map_changes)
            run.n('played_task_endings_' + cls)
            PREV_END[0] = cls       # how this event is about to end

        def ending():
            if cls == 'raise':
                raise {'UserError': UserError}.get(arg) or getattr(
                    __import__('builtins'), arg)('C12 user code failing')
            if cls == 'stopstream':
                raise sc.StopStream
            if cls == 'value':
                return {'str': 'later', 'None': None, 'True': True,
                        'inf': float('inf'), 'list': [1]}[arg]
            return None

        if how == 'clock.play-function':
            def child(fn, c):           # Function: (function, clock)[:nargs]
                wake(c)
                return ending()
            task = child
        elif as_generator:
            def child(inval):
                wake(inval[1])
                v = ending()
                if cls == 'value':
                    yield v
            task = sc.Routine(child)
        else:
            def child(inval):
                wake(inval[1])
                ending()
            task = sc.Routine(child)
        qo = self._quant_obj(spec)
        if next_bar:
            ok, _ = self.call('play_next_bar', clk.play_next_bar, task)
        elif how == 'routine.play':
            ok, _ = self.call('play', task.play, clk, qo)
        else:
            ok, _ = self.call('play', clk.play, task, qo)
        if ok:
            self.children.append(rec)

    def resolve_ref(self, ref, q, p):
        mdl = self.model
        if isinstance(ref, dict):
            if 'rel' in ref:
                return mdl.beats(self.now) + ref['rel']
            pp = p if p >= 0 else p + q
            return mdl.base_bar_beat + pp + ref['ongrid'] * q
        return ref

    def op_grid(self, q, p, refspec):
        clk, mdl = self.clk, self.model
        ref = self.resolve_ref(refspec, q, p)
        if ref is None:
            if q == 1 and p == 0 and self.step_index % 2:
                args, kw = (), {}
            elif self.step_index % 2:
                args, kw = (q, p), {}
            else:
                args, kw = (), {'quant': q, 'phase': p}
            eff = mdl.beats(self.now)
            self.n('grid_queries_current_beat')
        else:
            args, kw = ((q, p, ref), {}) if self.step_index % 2 else \
                ((q,), {'phase': p, 'refbeat': ref})
            eff = ref
        ok, r = self.call('next_time_on_grid', clk.next_time_on_grid,
                          *args, **kw)
        if not ok:
            return
        self.n('grid_queries_checked')
        if isinstance(refspec, dict) and 'ongrid' in refspec:
            self.n('grid_queries_reference_on_grid')
        if mdl.base_bar_beat != 0:
            self.n('grid_queries_after_meter_change')
        if q != int(q):
            self.n('grid_queries_fractional_quant')
        if p < 0:
            self.n('grid_queries_negative_phase')
        if q == 0:
            self.n('grid_queries_quant_zero')
        # The whole-number case is exact only in terms of what the REAL clock
        # computed with: the reference beat actually passed and the clock's own
        # base_bar_beat (a beat that came out of a seconds <-> beats
        # conversion, e.g. -4.4e-16 where the model has 0.0).  Otherwise the
        # tolerance branch against the model's meter reference decides.
        ok, real_bbb = self.call('base_bar_beat', lambda: clk.base_bar_beat)
        if not ok:
            return
        exact = ref is not None and all(
            M._whole(v) for v in (q, p, ref, real_bbb))
        if exact:
            self.n('grid_queries_exact_whole_number')
            why = M.grid_check(r, q, p, ref, real_bbb, 0.0, direct=True)
        else:
            why = M.grid_check(r, q, p, eff, mdl.base_bar_beat,
                               self.tolb(eff))
        if why:
            self.bad(f'C12/grid/{why[0]}', quant=q, phase=p, ref=eff,
                     ref_given=ref is not None, result=r,
                     model_base_bar_beat=mdl.base_bar_beat,
                     real_base_bar_beat=real_bbb, exact_branch=exact,
                     real_values_repr={'ref': repr(eff), 'result': repr(r),
                                       'base_bar_beat': repr(real_bbb)},
                     text=why[1])

    def op_ttnb(self, spec):
        clk, mdl = self.clk, self.model
        q, p = quant_qp(spec)
        ok, r = self.call('time_to_next_beat', clk.time_to_next_beat,
                          self._quant_obj(spec))
        if not ok:
            return
        b = mdl.beats(self.now)
        self.n('time_to_next_beat_checked')
        if q == 0:
            self.n('time_to_next_beat_quant_zero')
        if p != 0:
            self.n('time_to_next_beat_with_phase')
        why = M.grid_check(b + r, q, p, b, mdl.base_bar_beat, 2 * self.tolb(b))
        if why:
            self.bad(f'C12/time-to-next-beat/{why[0]}', quant=q, phase=p,
                     beats=b, result=r, text=why[1])

    def op_conv(self, x, y):
        clk, mdl = self.clk, self.model
        ok, vals = self.call('conversions', lambda: (
            clk.beats2secs(x), clk.secs2beats(y)))
        if not ok:
            return
        sx, by = vals
        self.n('conversions_checked', 2)
        mdl._seen(y, x)
        if abs(sx - mdl.secs(x)) > mdl.tol_secs(sx) + self.tolb(x) / mdl.tempo:
            self.bad('C12/map/beats2secs', beat=x, got=sx, model=mdl.secs(x))
            return
        if abs(by - mdl.beats(y)) > self.tolb(by, mdl.beats(y)):
            self.bad('C12/map/secs2beats', second=y, got=by,
                     model=mdl.beats(y))
            return
        ok, back = self.call('conversions', lambda: clk.secs2beats(sx))
        if ok and abs(back - x) > self.tolb(x):
            self.bad('C12/map/round-trip', beat=x, secs=sx, back=back)

    def op_bars(self, x, y):
        clk, mdl = self.clk, self.model
        ok, vals = self.call('bar-conversions', lambda: (
            clk.beats2bars(x), clk.bars2beats(y)))
        if not ok:
            return
        bx, by = vals
        self.n('bar_conversions_checked', 2)
        tol = M.grid_tol(x, mdl.base_bar_beat, mdl.bpb) + self.tolb(x)
        if abs(bx - mdl.bars(x)) * mdl.bpb > tol:
            self.bad('C12/meter/beats2bars', beat=x, got=bx, model=mdl.bars(x))
            return
        want = mdl.bars2beats(y)
        if abs(by - want) > M.grid_tol(want, y * mdl.bpb) + self.tolb(want):
            self.bad('C12/meter/bars2beats', bar=y, got=by, model=want)
            return
        ok, back = self.call('bar-conversions', lambda: clk.bars2beats(bx))
        if ok and abs(back - x) > tol:
            self.bad('C12/meter/bars-beats-not-inverse', beat=x, bars=bx,
                     back=back)

    def op_nextbar(self, beat):
        clk, mdl = self.clk, self.model
        ok, r = self.call('next_bar', clk.next_bar, *(
            () if beat is None else (beat,)))
        if not ok:
            return
        b = mdl.beats(self.now) if beat is None else beat
        self.n('next_bar_checked')
        # a bar line is a grid point of quant = beats_per_bar, phase 0
        why = M.grid_check(r, mdl.bpb, 0, b, mdl.base_bar_beat, self.tolb(b))
        if why:
            self.bad(f'C12/meter/next-bar/{why[0]}', beat=b, result=r,
                     beats_per_bar=mdl.bpb, base_bar_beat=mdl.base_bar_beat,
                     text=why[1])

    def op_barnow(self):
        clk, mdl = self.clk, self.model
        ok, vals = self.call('bar', lambda: (clk.bar(), clk.beat_in_bar()))
        if not ok:
            return
        bar, bib = vals
        b = mdl.beats(self.now)
        x = mdl.bars(b)
        tol = M.grid_tol(b, mdl.base_bar_beat, mdl.bpb) + self.tolb(b)
        self.n('bar_now_checked')
        allowed = {math.floor(x)}
        if abs(x - round(x)) * mdl.bpb <= tol:
            allowed |= {round(x) - 1, round(x)}
        if bar not in allowed:
            self.bad('C12/meter/bar', bar=bar, running_bar=x)
            return
        want = b - mdl.bars2beats(bar)
        if abs(bib - want) > tol:
            self.bad('C12/meter/beat-in-bar', got=bib, model=want, bar=bar)

    # -- after the run --------------------------------------------------------
    def judge_children(self):
        mdl = self.model
        for rec in self.children:
            if rec['wake'] is None:
                self.bad('C12/play-quant-first-wake/never', play=_pub(rec))
                continue
            s, b, changes = rec['wake']
            self.n('play_first_wakes_checked')
            if rec.get('next_bar'):
                self.n('play_next_bar_first_wakes_checked')
            why = M.grid_check(b, rec['q'], rec['p'], rec['ref'], rec['bbb'],
                               self.tolb(b, rec['ref']))
            changed = changes != rec['changes_at_play']
            if changed:
                self.n('play_first_wakes_after_map_change')
            prev = rec.get('prev_end', 'return')
            if prev != 'return':
                self.n('wakes_checked_right_after_' + prev)
            if why:
                if rec.get('next_bar'):
                    key = f'C12/play-next-bar-first-wake/{why[0]}' + _after(prev)
                elif changed and self.mode == 'nrt':
                    key = ('C12/play-quant-first-wake/'
                           'nrt-map-changed-while-pending')
                else:
                    key = f'C12/play-quant-first-wake/{why[0]}' + _after(prev)
                self.bad(key, play=_pub(rec), woke_at_beat=b, woke_at_second=s,
                         text=why[1])
        if not self.stop:
            self.judge_mtasks()


def _pub(rec):
    return {k: v for k, v in rec.items()}
