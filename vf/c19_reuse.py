"""C19 object re-use histories: one Env object (and the objects derived from
it) goes through a random sequence of uses and public parameter changes; after
every step each server format / evaluation it gives is compared with the
reference model (vf/model_env.py) of its CURRENT public parameters (levels,
times, curves, release_node, loop_node, offset read back from the object) and
with a fresh Env built from equal parameters.

uses      _envgen_format(), _interpolation_format(), _as_control_input(),
          _at(t), EnvGen.kr/ar(env) and IEnvGen.kr(env, index) in a SynthDef
          whose bytes are decoded with vf/scgf.py
changes   duration setter; range / exprange / curverange (the history goes on
          with the derived object, sometimes with the original); copy.copy;
          assignment of the public attributes release_node, loop_node, times,
          levels, curves

The harness keeps every parameter version of the object's lineage.  A wrong
result is diagnosed from the array the object actually used:
  it is the model's array of an EARLIER parameter version ->
      C19/object-reuse/stale-format-after/<change that followed that version:
          duration-setter | derived-copy | attribute-assignment>
  it is the model's array of the OTHER layout (any version) ->
      C19/object-reuse/format-cross-talk/<envgen-side-after-interpolation-side |
                                          interpolation-side-after-envgen-side>
  otherwise -> C19/object-reuse/<side>-wrong

A change method that raises inside its documented domain (levels with min <
max, lo < hi, lo > 0 for exprange, positive total duration) is reported as
C19/derived-envelope-raises/<method>/<exception>/<site>: the derived envelope,
whose encoding and evaluation the property is about, cannot be obtained.
"""

import copy

from vf.common import iter_cases, case_rng, h64, short_tb, tb_sites

PARAMS = ('levels', 'times', 'curves', 'release_node', 'loop_node')
USES = ('format', 'control', 'at', 'envgen', 'iformat', 'ienvgen')


def current(env):
    p = {k: copy.deepcopy(getattr(env, k)) for k in PARAMS}
    p['offset'] = env.offset
    return p


def gen_history(rng, nseg):
    n = rng.randint(3, 10)
    uses = ['format', 'format', 'iformat', 'iformat', 'control', 'at', 'at',
            'envgen', 'ienvgen']
    changes = ['duration', 'range', 'exprange', 'curverange', 'copy',
               'assign-release_node', 'assign-loop_node', 'assign-times',
               'assign-levels', 'assign-curves', 'assign-offset']
    out = []
    for _ in range(n):
        if rng.random() < 0.62:
            out.append(rng.choice(uses))
        else:
            out.append(rng.choice(changes))
    if not any(o in uses for o in out[-2:]):
        out.append(rng.choice(['format', 'at', 'iformat']))
    return out


def run_reuse(spec, acc):
    from vf import model_env as M, c19_gen as G, scgf
    from sc3.base import utils as utl
    from sc3.synth.envelope import Env
    from sc3.synth.synthdef import SynthDef
    from sc3.synth.ugens import EnvGen, IEnvGen, Out

    def site(e):
        s = tb_sites(e)
        return f'{s[-1][0]}:{s[-1][1]}' if s else 'harness'

    for i in iter_cases(spec):
        rng = case_rng(spec['seed'], 'C19', 'reuse', i)
        # sign-agnostic shapes: range / exprange move the levels across signs
        a = G.gen_env_args(rng, cls='any')
        args = {k: a[k] for k in PARAMS}
        nseg = len(args['levels']) - 1
        hist = gen_history(rng, nseg)
        try:
            env = Env(**copy.deepcopy(args))
        except Exception:
            acc.count('reuse_skipped_not_constructible')
            continue
        log = []            # steps done so far (witness)
        failed = False
        acc.case(h64((repr(args), hist)),
                 nontrivial=any(h in ('iformat', 'ienvgen') for h in hist)
                 and any(h in ('format', 'at', 'control', 'envgen')
                         for h in hist))
        acc.count('reuse_histories')

        versions = [current(env)]   # parameter versions of the lineage
        changes = []                # kind of the change after version k

        def model(side, p):
            if side == 'envgen-side':
                return M.encode(**{k: p[k] for k in PARAMS})
            return M.encode_interpolation(p['levels'], p['times'],
                                          p['curves'], p['offset'])

        def blame(side, obj):
            """Diagnose from the array the object hands out for that side."""
            other = 'interpolation-side' if side == 'envgen-side' \
                else 'envgen-side'
            try:
                arr = obj._envgen_format() if side == 'envgen-side' \
                    else obj._interpolation_format()
                arr = [list(t) for t in arr]
            except Exception:
                return f'C19/object-reuse/{side}-wrong'
            for v in range(len(versions) - 2, -1, -1):
                try:
                    if M.same_arrays(arr, model(side, versions[v])) is None:
                        return ('C19/object-reuse/stale-format-after/'
                                + changes[v])
                except Exception:
                    pass
            for v in range(len(versions) - 1, -1, -1):
                try:
                    if M.same_arrays(arr, model(other, versions[v])) is None:
                        return ('C19/object-reuse/format-cross-talk/'
                                f'{side}-after-{other}')
                except Exception:
                    pass
            return f'C19/object-reuse/{side}-wrong'

        def changed(kind):
            versions.append(current(env))
            changes.append(kind)

        fresh_ok = [True]
        for step in hist:
            log.append(step)
            acc.count('reuse_step_' + step)
            witness = {'case': i, 'args': args, 'history': list(log)}
            try:
                cur = current(env)
                if step in ('format', 'control', 'at', 'envgen', 'iformat',
                            'ienvgen'):
                    pp = {k: cur[k] for k in PARAMS}
                    want = M.encode(**pp)
                    wanti = M.encode_interpolation(
                        cur['levels'], cur['times'], cur['curves'],
                        cur['offset'])
                    fresh = Env(**copy.deepcopy(pp), offset=cur['offset'])
                    # does a fresh object agree with the model?  If not the
                    # deviation is sequential (other shards' subject)
                    fresh_ok[0] = not M.same_arrays(
                        [list(t) for t in fresh._envgen_format()], want)
                    if not fresh_ok[0]:
                        acc.count('reuse_skipped_sequential_deviation')
                        break
                if step in ('format', 'control'):
                    got = env._envgen_format() if step == 'format' else \
                        env._as_control_input()
                    if step == 'control' and len(want) == 1:
                        got = [got]
                    got = [list(t) for t in got]
                    acc.count('reuse_envgen_side_checks')
                    d = M.same_arrays(got, want)
                    if d:
                        acc.violation(blame('envgen-side', env), dict(
                            witness, differs=d, got=got[:2], expected=want[:2],
                            current=cur))
                        failed = True
                elif step == 'iformat':
                    got = [list(t) for t in env._interpolation_format()]
                    acc.count('reuse_interpolation_side_checks')
                    d = M.same_arrays(got, wanti)
                    if d:
                        acc.violation(blame('interpolation-side', env), dict(
                            witness, differs=d, got=got[:2],
                            expected=wanti[:2], current=cur))
                        failed = True
                elif step == 'at':
                    nch = len(want)
                    total = max(sum(arr[5::4]) for arr in want)
                    for t in (0, total * rng.choice([0.25, 0.5, 0.75]), total,
                              total + 1):
                        v = env._at(t)
                        w = fresh._at(t)
                        acc.count('reuse_at_checks')
                        bad = v != w and not (v != v and w != w)
                        if not bad and cur['offset'] == 0 and t >= 0:
                            vs = v if nch > 1 else [v]
                            for c in range(nch):
                                l0, segs = M.segments(want[c])
                                ok, where, why = M.value_ok(
                                    [l0] + [s[0] for s in segs],
                                    [s[1] for s in segs],
                                    [s[2] for s in segs], t, vs[c], False)
                                if not ok and not any(
                                        s[2] == 7 for s in segs):
                                    bad = True
                        if bad:
                            acc.violation(blame('envgen-side', env), dict(
                                witness, t=t, got=v, fresh_equal_env=w,
                                current=cur))
                            failed = True
                            break
                elif step in ('envgen', 'ienvgen'):
                    e = env

                    def graph():
                        if step == 'envgen':
                            Out.kr(0, EnvGen.kr(e, 1.0, 1.0, 0.0, 1.0, 0))
                        else:
                            Out.kr(0, IEnvGen.kr(e, 0.5))
                    d = scgf.parse(SynthDef('c19r', graph).as_bytes())
                    cls = 'EnvGen' if step == 'envgen' else 'IEnvGen'
                    units = [u for u in d.units if u.cls == cls]
                    head = [1.0, 1.0, 0.0, 1.0, 0.0] if step == 'envgen' \
                        else [0.5]
                    exp = want if step == 'envgen' else wanti
                    side = 'envgen-side' if step == 'envgen' else \
                        'interpolation-side'
                    acc.count('reuse_defs_decoded')
                    ok = len(units) == len(exp)
                    if ok:
                        for u, arr in zip(units, exp):
                            vals = [d.constants[x[1]] if x[0] == 'c' else None
                                    for x in u.inputs]
                            wv = [M.f32(x) for x in head + arr]
                            if len(vals) != len(wv) or any(
                                    g is None or (g != w and abs(g - w) >
                                                  2.0 ** -23 * abs(w))
                                    for g, w in zip(vals, wv)):
                                ok = False
                                break
                    if not ok:
                        acc.violation(blame(side, env), dict(
                            witness, units=[repr(u) for u in units][:2],
                            expected=exp[:2], current=cur))
                        failed = True
                elif step == 'duration':
                    if isinstance(env.total_duration(), (int, float)) \
                            and env.total_duration() > 0:
                        env.duration = rng.choice([1, 2.0, 0.5, 3,
                                                   rng.uniform(0.1, 8)])
                        changed('duration-setter')
                elif step in ('range', 'exprange', 'curverange'):
                    flat = utl.flat(env.levels) if hasattr(utl, 'flat') \
                        else env.levels
                    if min(flat) < max(flat):
                        lo, hi = sorted(rng.sample(
                            [0.1, 0.25, 0.5, 1, 2, 3.5, 10, 100], 2))
                        if step == 'range' and rng.random() < 0.4:
                            lo = -lo
                        new = getattr(env, step)(lo, hi)
                        if rng.random() < 0.8:
                            env = new
                            changed('derived-copy')
                elif step == 'copy':
                    env = copy.copy(env)
                else:       # assign-<attribute>
                    attr = step.split('-', 1)[1]
                    n = len(env.levels) - 1
                    if attr == 'release_node':
                        val = rng.choice([None, rng.randint(0, max(0, n - 1))])
                    elif attr == 'loop_node':
                        val = rng.choice([None, 0])
                    elif attr == 'times':
                        val = [G.gen_dur(rng, a['dyadic']) or 1
                               for _ in range(n)]
                    elif attr == 'offset':
                        val = rng.choice([0, 1, 0.5, -2.0])
                    elif attr == 'levels':
                        val = [G.gen_level(rng, 'any') for _ in range(n + 1)]
                    else:
                        val = rng.choice(['lin', 'sin', -4, 2.0, 'wel',
                                          ['lin', 3]])
                    if getattr(env, attr) != val:
                        setattr(env, attr, val)
                        changed('attribute-assignment')
            except Exception as e:
                if step in USES:
                    acc.violation(
                        f'C19/object-reuse/{step}-raises/{type(e).__name__}/'
                        f'{site(e)}', dict(witness, tb=short_tb(e)))
                    failed = True
                else:
                    # a documented public method of the envelope, called
                    # inside its documented domain, that cannot produce the
                    # derived / changed envelope at all
                    acc.violation(
                        f'C19/derived-envelope-raises/{step}/'
                        f'{type(e).__name__}/{site(e)}',
                        dict(witness, tb=short_tb(e)))
                    failed = True
            if failed:
                break
        if not failed and acc.want_sample() and len(hist) <= 6 \
                and len(repr(args)) < 300:
            acc.sample({'case': i, 'args': args, 'history': hist})
