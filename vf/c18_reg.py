"""C18 registry workload: SystemAction / CmdPeriod / ServerAction /
NotificationCenter under add / re-add / remove / remove_all / run histories,
including removal and addition from inside a running action, against an ordered
registry model.

The registries under test are fresh subclasses of the library classes (exactly
how the library itself declares StartUp, ShutDown, ServerBoot ...: a subclass
with its own dict), so that the library's own registered actions neither
interfere nor run with fake servers.  All code executed is the library's."""

from .common import iter_cases, case_rng, h64, short_tb, tb_sites


class Bucket:
    """Ordered registry: key -> entry, with both readings of 'registration
    order' for re-added keys (first and last registration)."""

    def __init__(self):
        self.entries = {}      # key -> dict(aid, args, kwargs, first, last, once)

    def add(self, key, seq, **data):
        e = self.entries.get(key)
        if e is None:
            self.entries[key] = dict(data, first=seq, last=seq)
        else:
            e.update(data)
            e['last'] = seq

    def remove(self, key):
        self.entries.pop(key, None)

    def before(self, a, b):
        ea, eb = self.entries[a], self.entries[b]
        return ea['first'] < eb['first'] and ea['last'] < eb['last']


class Stop(Exception):
    pass


class RegFault(Exception):
    """Raised on purpose by a registered action of the workload."""


class Runner:
    def __init__(self, acc, rng, case, label):
        self.acc, self.rng, self.case, self.label = acc, rng, case, label
        self.log = []
        self.calls = []
        self.armed = {}
        self.touched = set()
        self.removed_at = {}      # key -> number of calls made when it was removed in-run
        self.readded = set()
        # "run exactly the actions currently registered": an action / listener
        # removed by an earlier action of the same run (before its own turn)
        # must not run afterwards - all registries re-check the live registry
        # ("May be removed by a previous action").  Added during a run: open.
        self.strict_removed = True
        self.faults = {}          # key -> call numbers on which the action raises
        self.ncalls = {}
        self.raised = False
        self.spent_once = set()
        self.seq = 0
        self.feat = {'runs': 0, 'removes': 0, 'remove_then_run': False,
                     'max_actions': 0, 'in_run_ops': 0}
        self._removed_since_run = False

    def tick(self):
        self.seq += 1
        return self.seq

    def maybe_fault(self, key):
        if self.rng.random() < 0.15:
            self.faults[key] = self.rng.choice([{1}, {1}, {2}, {1, 2}, set(range(1, 50))])
            self.log.append(['faulty', repr(key), sorted(self.faults[key])[:3]])

    def after_call(self, key):
        n = self.ncalls[key] = self.ncalls.get(key, 0) + 1
        if n in self.faults.get(key, ()):
            self.raised = True
            self.acc.count('registry_injected_faults')
            raise RegFault(f'injected fault in action {key!r}, call {n}')

    def run_library(self, fn):
        """run()/notify() of the library; an injected fault may propagate to
        the caller (the statement does not say), anything else may not."""
        self.raised = False
        try:
            fn()
        except RegFault:
            self.acc.count('registry_faults_propagated_to_caller')

    def violation(self, what, **w):
        w.update({'case': self.case, 'registry': self.label, 'history': self.log[-40:]})
        self.acc.violation(f'C18/registry/{self.label}/{what}', w)
        raise Stop()

    def guarded(self, name, fn):
        try:
            return fn()
        except Stop:
            raise
        except Exception as e:
            sites = tb_sites(e)
            where = '.'.join(sites[-1]) if sites else 'harness'
            self.violation(f'raises/{name}/{type(e).__name__}/{where}', tb=short_tb(e))

    def compare(self, expected, bucket_of, check_args):
        """expected: {key: entry}; self.calls: [(key, payload)];
        bucket_of(key) -> Bucket for order constraints."""
        acc = self.acc
        for key, idx in self.removed_at.items():
            if key in self.readded:
                continue
            pending = not any(k == key for k, _ in self.calls[:idx])
            if pending:
                acc.count('registry_removed_before_its_turn')
            late = [i for i, (k, _) in enumerate(self.calls) if k == key and i >= idx]
            if late and self.strict_removed:
                self.violation('ran-action-removed-earlier-in-same-run', key=repr(key),
                               removed_after_calls=idx,
                               calls=[repr(k) for k, _ in self.calls])
            elif late:
                acc.count('registry_open/ran-although-removed-earlier-in-run')
            elif pending:
                acc.count('registry_removed_before_its_turn_did_not_run')
        counts = {}
        for key, payload in self.calls:
            counts[key] = counts.get(key, 0) + 1
        for key, c in counts.items():
            if key in self.touched:
                acc.count('registry_open/touched-during-run')
                continue
            if key not in expected and key in self.spent_once:
                self.violation('one-shot-ran-again', key=repr(key),
                               calls=[repr(k) for k, _ in self.calls])
            if key not in expected:
                self.violation('ran-removed-or-unregistered-action', key=repr(key),
                               calls=[repr(k) for k, _ in self.calls])
            if c > 1:
                self.violation('ran-twice', key=repr(key))
        for key in expected:
            if key not in counts and key not in self.touched and self.raised:
                # the run was abandoned at a raising action
                acc.count('registry_open/after-raising-action')
                continue
            if key not in counts and key not in self.touched:
                self.violation('skipped-registered-action', key=repr(key),
                               calls=[repr(k) for k, _ in self.calls])
        for key, payload in self.calls:
            if key in expected and key not in self.touched:
                why = check_args(key, expected[key], payload)
                if why:
                    self.violation('wrong-args', key=repr(key), why=why)
        seq = [k for k, _ in self.calls if k in expected and k not in self.touched]
        for i in range(len(seq)):
            for j in range(i + 1, len(seq)):
                bi, bj = bucket_of(seq[i]), bucket_of(seq[j])
                if bi is bj and seq[i] != seq[j]:
                    if bi.before(seq[j], seq[i]):
                        self.violation('order', got=[repr(k) for k in seq])
                    elif bi.before(seq[i], seq[j]):
                        acc.count('registry_order_pairs_checked')
        acc.count('registry_action_calls_checked', len(self.calls))
        acc.count('registry_runs')
        self.feat['runs'] += 1
        self.feat['max_actions'] = max(self.feat['max_actions'], len(expected))
        if self._removed_since_run and len(expected) >= 2:
            self.feat['remove_then_run'] = True
        self._removed_since_run = False


# ------------------------------------------------------------------ SystemAction

def run_system(acc, rng, case, base, label, with_once):
    cls = type('VfReg', (base,), {'_actions': dict()})
    if with_once:
        cls.free_servers = False
        cls.clear_clocks = False
    is_startup = hasattr(base, 'defer')
    if is_startup:
        cls.done = False          # a registry whose start-up has not happened yet
    started = [False]             # model of 'startup is finished' (= run() was called)
    used_hard = [False]
    R = Runner(acc, rng, case, label)
    B = Bucket()
    funcs = {}

    def make(aid):
        def action(*a, **k):
            R.calls.append((aid, (a, k)))
            op = R.armed.pop(aid, None)
            if op is not None:
                R.feat['in_run_ops'] += 1
                acc.count('registry_in_run_ops')
                apply(op, inside=True)
            R.after_call(aid)
        action.__name__ = f'a{aid}'
        return action

    def apply(op, inside=False):
        name = op[0]
        if not inside:
            R.log.append(list(op))
        if name == 'add':
            _, aid, args, kwargs = op
            f = funcs.setdefault(aid, make(aid))
            cls.add(f, *args, **kwargs)
            if aid not in B.entries and not inside:
                R.maybe_fault(aid)
            B.add(aid, R.tick(), args=tuple(args), kwargs=dict(kwargs), once=False)
            if inside:
                R.touched.add(aid)
                R.readded.add(aid)
        elif name == 'do_once':
            _, aid, args, kwargs = op
            f = funcs.setdefault(aid, make(aid))
            cls.do_once(f, *args, **kwargs)
            R.maybe_fault(aid)
            B.add(aid, R.tick(), args=tuple(args), kwargs=dict(kwargs), once=True)
        elif name == 'remove':
            was = op[1] in B.entries
            cls.remove(funcs[op[1]])
            B.remove(op[1])
            R.feat['removes'] += 1
            R._removed_since_run = True
            if inside and was:
                R.touched.add(op[1])
                R.removed_at.setdefault(op[1], len(R.calls))
        elif name == 'remove_all':
            if inside:
                for k in B.entries:
                    R.touched.add(k)
                    R.removed_at.setdefault(k, len(R.calls))
            cls.remove_all()
            B.entries.clear()
            R._removed_since_run = True

    def check_args(key, ent, payload):
        a, k = payload
        if tuple(a) != ent['args'] or dict(k) != ent['kwargs']:
            return f'got {a!r} {k!r} expected {ent["args"]!r} {ent["kwargs"]!r}'

    def run():
        hard = with_once and rng.random() < 0.3
        R.log.append(['hard_run' if hard else 'run'])
        R.calls.clear(); R.touched.clear(); R.removed_at.clear(); R.readded.clear()
        expected = dict(B.entries)
        if hard:
            # CmdPeriod.hard_run(): same registry semantics as run()
            used_hard[0] = True
            acc.count('registry_hard_runs')
            R.run_library(cls.hard_run)
        else:
            R.run_library(cls.run)
        started[0] = True
        R.compare(expected, lambda k: B, check_args)
        for k, e in list(B.entries.items()):
            if e.get('once') and any(c[0] == k for c in R.calls):
                B.remove(k)
                R.spent_once.add(k)

    def single(label_, aid, call, entry):
        """One library call that must invoke action aid exactly once with
        entry's arguments (entry None: must invoke nothing)."""
        R.log.append([label_, aid] + ([list(entry['args']), dict(entry['kwargs'])]
                                      if entry else []))
        R.calls.clear(); R.touched.clear(); R.removed_at.clear(); R.readded.clear()
        R.armed.pop(aid, None)
        tmp = Bucket()
        if entry is not None:
            tmp.add(aid, 0, **entry)
        R.run_library(call)
        R.compare(dict(tmp.entries), lambda k: tmp, check_args)

    def defer(aid, args, kwargs):
        f = funcs.setdefault(aid, make(aid))
        if started[0]:
            # documented: evaluated immediately if startup has happened;
            # it does not become (or stop being) a registered action
            acc.count('registry_defer_immediate')
            single('defer', aid, lambda: cls.defer(f, *args, **kwargs),
                   dict(args=tuple(args), kwargs=dict(kwargs), once=False))
        else:
            acc.count('registry_defer_registered')
            R.log.append(['defer', aid, list(args), dict(kwargs)])
            n0 = len(R.calls)
            cls.defer(f, *args, **kwargs)
            if len(R.calls) != n0:
                R.violation('defer-ran-action-before-startup', aid=aid)
            if aid not in B.entries:
                R.maybe_fault(aid)
            B.add(aid, R.tick(), args=tuple(args), kwargs=dict(kwargs), once=False)

    def do_action(aid):
        # the step run() takes for one action: runs it iff it is registered
        e = B.entries.get(aid)
        if e is not None and e.get('once'):
            return
        acc.count('registry_do_action_' + ('registered' if e else 'unregistered'))
        f = funcs.setdefault(aid, make(aid))
        single('_do_action', aid, lambda: cls._do_action(f),
               dict(args=e['args'], kwargs=e['kwargs'], once=False) if e else None)

    once_aids = set()
    try:
        n_ops = rng.randint(4, 40)
        next_aid = 0
        for _ in range(n_ops):
            live = [k for k, e in B.entries.items() if not e.get('once')]
            r = rng.random()
            if r < 0.35 or not B.entries:
                if live and rng.random() < 0.25:
                    aid = rng.choice(live)                  # re-add
                else:
                    aid = next_aid; next_aid += 1
                args = [rng.randint(0, 9) for _ in range(rng.choice([0, 0, 1, 2]))]
                kwargs = {'k': rng.randint(0, 9)} if rng.random() < 0.2 else {}
                R.guarded('add', lambda: apply(('add', aid, args, kwargs)))
            elif r < 0.42 and with_once:
                aid = next_aid; next_aid += 1
                once_aids.add(aid)
                R.guarded('do_once', lambda: apply(('do_once', aid, [rng.randint(0, 9)], {})))
            elif r < 0.58 and live:
                gone = [a for a in funcs if a not in once_aids and a not in B.entries]
                aid = rng.choice(live + gone[:1])       # sometimes an absent one
                R.guarded('remove', lambda: apply(('remove', aid)))
            elif r < 0.61:
                R.guarded('remove_all', lambda: apply(('remove_all',)))
            elif r < 0.66 and is_startup:
                if live and rng.random() < 0.2:
                    aid = rng.choice(live)
                else:
                    aid = next_aid; next_aid += 1
                args = [rng.randint(0, 9) for _ in range(rng.choice([0, 1, 2]))]
                kwargs = {'k': rng.randint(0, 9)} if rng.random() < 0.3 else {}
                R.guarded('defer', lambda: defer(aid, args, kwargs))
            elif r < 0.69 and funcs:
                gone = [a for a in funcs if a not in B.entries and a not in once_aids]
                aid = rng.choice(live + gone[:2]) if live + gone[:2] else None
                if aid is not None:
                    R.guarded('_do_action', lambda: do_action(aid))
            elif r < 0.78 and len(live) >= 2:
                # an action that, while it runs, removes a later / an earlier
                # action / itself / everything, or adds a new one
                i = rng.randrange(len(live))
                holder = live[i]
                v = rng.random()
                if v < 0.4 and i + 1 < len(live):
                    R.armed[holder] = ('remove', rng.choice(live[i + 1:]))
                elif v < 0.55 and i > 0:
                    R.armed[holder] = ('remove', rng.choice(live[:i]))
                elif v < 0.68:
                    R.armed[holder] = ('remove', holder)
                elif v < 0.76:
                    R.armed[holder] = ('remove_all',)
                elif v < 0.9:
                    R.armed[holder] = ('add', next_aid, [], {}); next_aid += 1
                else:
                    R.armed[holder] = ('remove', rng.choice(live))
                R.log.append(['arm', holder, list(R.armed[holder])])
            else:
                R.guarded('run', run)
        R.guarded('run', run)
    except Stop:
        pass
    finally:
        if used_hard[0]:
            # hard_run() left node-tree initialisation routines of the default
            # server on the (non real time) scheduler and commands in the score
            from sc3.base.main import main
            main.reset()
    return R


# ------------------------------------------------------------------ ServerAction

class FakeServer:
    def __init__(self, n):
        self.n = n

    def __repr__(self):
        return f'S{self.n}'


def run_server(acc, rng, case):
    from sc3.base.systemactions import ServerAction
    from sc3.synth.server import Server
    cls = type('VfSrv', (ServerAction,), {'_servers': dict()})
    R = Runner(acc, rng, case, 'ServerAction')
    servers = [Server.default, FakeServer(1), FakeServer(2)]
    bucket_keys = servers + ['default', 'all']
    buckets = {}           # bucket key (by id/str) -> Bucket
    funcs = {}

    def bk(b):
        return b if isinstance(b, str) else id(b)

    def make(key):
        def action(server, *a, **k):
            R.calls.append((key, (server, a, k)))
            op = R.armed.pop(key, None)
            if op is not None:
                R.feat['in_run_ops'] += 1
                acc.count('registry_in_run_ops')
                apply(op, inside=True)
            R.after_call(key)
        return action

    def apply(op, inside=False):
        name = op[0]
        if not inside:
            R.log.append([repr(x) for x in op])
        if name == 'add':
            _, b, n, args, kwargs = op
            key = (bk(b), n)
            if key not in funcs and not inside:
                R.maybe_fault(key)
            f = funcs.setdefault(key, make(key))
            cls.add(b, f, *args, **kwargs)
            buckets.setdefault(bk(b), Bucket()).add(
                key, R.tick(), args=tuple(args), kwargs=dict(kwargs))
            if inside:
                R.touched.add(key)
        elif name == 'remove':
            _, b, n = op
            key = (bk(b), n)
            was = bk(b) in buckets and key in buckets[bk(b)].entries
            cls.remove(b, funcs[key])
            if bk(b) in buckets:
                buckets[bk(b)].remove(key)
            R.feat['removes'] += 1
            R._removed_since_run = True
            if inside and was:
                R.touched.add(key)
                R.removed_at.setdefault(key, len(R.calls))
        elif name == 'remove_server':
            if inside and bk(op[1]) in buckets:
                for k in buckets[bk(op[1])].entries:
                    R.touched.add(k)
                    R.removed_at.setdefault(k, len(R.calls))
            cls.remove_server(op[1])
            buckets.pop(bk(op[1]), None)
            R._removed_since_run = True
        elif name == 'remove_all':
            if inside:
                for b_ in buckets.values():
                    for k in b_.entries:
                        R.touched.add(k)
                        R.removed_at.setdefault(k, len(R.calls))
            cls.remove_all()
            buckets.clear()
            R._removed_since_run = True

    def run(server):
        R.log.append(['run', repr(server)])
        R.calls.clear(); R.touched.clear(); R.removed_at.clear(); R.readded.clear()
        use = [bk(server)]
        if server is Server.default:
            use.append('default')
        use.append('all')
        expected = {}
        for u in use:
            if u in buckets:
                expected.update(buckets[u].entries)

        def check_args(key, ent, payload):
            s, a, k = payload
            if s is not server:
                return f'server argument {s!r} is not {server!r}'
            if tuple(a) != ent['args'] or dict(k) != ent['kwargs']:
                return f'got {a!r} {k!r} expected {ent["args"]!r} {ent["kwargs"]!r}'
        R.run_library(lambda: cls.run(server))
        R.compare(expected, lambda key: buckets.get(key[0]), check_args)

    try:
        next_n = 0
        for _ in range(rng.randint(4, 40)):
            allkeys = [k for b in buckets.values() for k in b.entries]
            r = rng.random()
            if r < 0.4 or not allkeys:
                b = rng.choice(bucket_keys)
                mine = [k for k in allkeys if k[0] == bk(b)]
                if mine and rng.random() < 0.25:
                    n = rng.choice(mine)[1]
                else:
                    n = next_n; next_n += 1
                args = [rng.randint(0, 9) for _ in range(rng.choice([0, 0, 1, 2]))]
                kwargs = {'k': rng.randint(0, 9)} if rng.random() < 0.2 else {}
                R.guarded('add', lambda: apply(('add', b, n, args, kwargs)))
            elif r < 0.58:
                key = rng.choice(allkeys)
                b = next(x for x in bucket_keys if bk(x) == key[0])
                R.guarded('remove', lambda: apply(('remove', b, key[1])))
            elif r < 0.61:
                R.guarded('remove_server', lambda: apply(('remove_server',
                                                          rng.choice(bucket_keys))))
            elif r < 0.63:
                R.guarded('remove_all', lambda: apply(('remove_all',)))
            elif r < 0.78 and len(allkeys) >= 2:
                holder, target = rng.sample(allkeys, 2)
                if rng.random() < 0.15:
                    target = holder
                b = next(x for x in bucket_keys if bk(x) == target[0])
                v = rng.random()
                if v < 0.62:
                    R.armed[holder] = ('remove', b, target[1])
                elif v < 0.72:
                    R.armed[holder] = ('remove_server', b)
                elif v < 0.78:
                    R.armed[holder] = ('remove_all',)
                else:
                    R.armed[holder] = ('add', b, next_n, [], {}); next_n += 1
                R.log.append(['arm', repr(holder), [repr(x) for x in R.armed[holder]]])
            elif r < 0.81 and funcs:
                # ServerAction._do_action is an empty stub nothing calls
                # (outside the statement): observed only
                n0 = len(R.calls)
                try:
                    cls._do_action(funcs[rng.choice(sorted(funcs, key=repr))])
                    acc.count('observed_server_do_action/' + (
                        'invoked-nothing' if len(R.calls) == n0 else 'invoked-an-action'))
                except Exception as e:
                    acc.count('observed_server_do_action/raises-' + type(e).__name__)
            else:
                s = rng.choice(servers)
                R.guarded('run', lambda: run(s))
        for s in servers:
            R.guarded('run', lambda: run(s))
    except Stop:
        pass
    return R


# ------------------------------------------------------------------ NotificationCenter

class Obj:
    def __init__(self, name):
        self.name = name

    def __repr__(self):
        return self.name


def run_notify(acc, rng, case):
    from sc3.base.model import NotificationCenter as NC
    R = Runner(acc, rng, case, 'NotificationCenter')
    objs = [Obj(f'O{i}') for i in range(3)]
    msgs = ['m0', 'm1']
    listeners = [Obj(f'L{i}') for i in range(4)]
    regs = {}             # (id(obj), msg) -> Bucket keyed by listener id
    by_id = {id(x): x for x in objs + listeners}
    aid_counter = [0]

    def make(aid, nparams):
        def act3(obj, msg, listener, *args):
            R.calls.append(((id(obj), msg, id(listener)), (aid, obj, msg, listener, args)))
            op = R.armed.pop((id(obj), msg, id(listener)), None)
            if op is not None:
                R.feat['in_run_ops'] += 1
                acc.count('registry_in_run_ops')
                apply(op, inside=True)
            R.after_call((id(obj), msg, id(listener)))
        return act3

    def apply(op, inside=False):
        name = op[0]
        if not inside:
            R.log.append([repr(x) for x in op])
        if name in ('register', 'register_one_shot'):
            _, o, m, l = op
            aid = aid_counter[0]; aid_counter[0] += 1
            getattr(NC, name)(o, m, l, make(aid, 3))
            if not inside:
                R.faults.pop((id(o), m, id(l)), None)
                R.ncalls.pop((id(o), m, id(l)), None)
                R.maybe_fault((id(o), m, id(l)))
            regs.setdefault((id(o), m), Bucket()).add(
                (id(o), m, id(l)), R.tick(), aid=aid, once=(name == 'register_one_shot'))
            if inside:
                R.touched.add((id(o), m, id(l)))
        elif name == 'clear':
            # NotificationCenter.clear(): nothing is registered afterwards
            if inside:
                for b_ in regs.values():
                    for k in b_.entries:
                        R.touched.add(k)
                        R.removed_at.setdefault(k, len(R.calls))
            NC.clear()
            regs.clear()
            acc.count('registry_nc_clear' + ('_inside_notify' if inside else ''))
            R.feat['removes'] += 1
            R._removed_since_run = True
        elif name == 'unregister':
            _, o, m, l = op
            if inside:
                b = regs.get((id(o), m))
                if l is not None:
                    e = b.entries.get((id(o), m, id(l))) if b else None
                    if e is None or not NC.registration_exists(o, m, l):
                        return    # no longer applicable (e.g. a one-shot that ran)
                elif b is None or not any(NC.registration_exists(o, m, by_id[k[2]])
                                          for k in b.entries):
                    return
            if inside and l is None:
                for k in regs[(id(o), m)].entries:
                    R.touched.add(k)
                    R.removed_at.setdefault(k, len(R.calls))
            NC.unregister(o, m, l)
            if l is not None:
                regs[(id(o), m)].remove((id(o), m, id(l)))
                if inside:
                    R.touched.add((id(o), m, id(l)))
                    R.removed_at.setdefault((id(o), m, id(l)), len(R.calls))
            elif m is not None:
                regs.pop((id(o), m), None)
            else:
                for k in [k for k in regs if k[0] == id(o)]:
                    regs.pop(k)
            R.feat['removes'] += 1
            R._removed_since_run = True

    def notify(o, m, args):
        R.log.append(['notify', repr(o), m, list(args)])
        R.calls.clear(); R.touched.clear(); R.removed_at.clear(); R.readded.clear()
        b = regs.get((id(o), m))
        expected = dict(b.entries) if b else {}

        def check_args(key, ent, payload):
            aid, obj, msg, listener, a = payload
            if aid != ent['aid']:
                return f'action {aid} ran, registered action is {ent["aid"]}'
            if obj is not o or msg != m or id(listener) != key[2] or tuple(a) != tuple(args):
                return f'called with {(obj, msg, listener, a)!r}'
        R.run_library(lambda: NC.notify(o, m, *args))
        R.compare(expected, lambda key: regs.get((key[0], key[1])), check_args)
        if b:
            for k, e in list(b.entries.items()):
                if e['once'] and any(c[0] == k for c in R.calls):
                    b.remove(k)
                    R.spent_once.add(k)
                    # observer, so that the defect is named where it happens
                    if NC.registration_exists(o, m, by_id[k[2]]):
                        R.violation('one-shot-still-registered-after-firing',
                                    action_raised=R.raised)

    def exists_check():
        o, m, l = rng.choice(objs), rng.choice(msgs), rng.choice(listeners)
        got = NC.registration_exists(o, m, l)
        b = regs.get((id(o), m))
        exp = bool(b and (id(o), m, id(l)) in b.entries)
        acc.count('registry_exists_queries')
        if got and not exp and (id(o), m, id(l)) in R.spent_once:
            R.violation('one-shot-still-registered-after-firing')
        if bool(got) != exp:
            R.violation('registration_exists-differs', got=got, expected=exp)

    try:
        for _ in range(rng.randint(4, 40)):
            keys = [k for b in regs.values() for k in b.entries]
            r = rng.random()
            if r < 0.4 or not keys:
                name = 'register' if rng.random() < 0.8 else 'register_one_shot'
                o, m, l = rng.choice(objs), rng.choice(msgs), rng.choice(listeners)
                R.guarded(name, lambda: apply((name, o, m, l)))
            elif r < 0.55:
                k = rng.choice(keys)
                o, l = by_id[k[0]], by_id[k[2]]
                v = rng.random()
                if v < 0.8:
                    R.guarded('unregister', lambda: apply(('unregister', o, k[1], l)))
                elif v < 0.9:
                    R.guarded('unregister', lambda: apply(('unregister', o, k[1], None)))
                else:
                    R.guarded('unregister', lambda: apply(('unregister', o, None, None)))
            elif r < 0.65 and len(keys) >= 2:
                holder = rng.choice(keys)
                same = [k for k in keys if k[:2] == holder[:2] and k != holder]
                if same:
                    # a listener that, while notified, unregisters a later /
                    # an earlier listener, itself, or the whole message
                    v = rng.random()
                    t = holder if v < 0.12 else rng.choice(same)
                    if v > 0.88:
                        R.armed[holder] = ('unregister', by_id[t[0]], t[1], None)
                    else:
                        R.armed[holder] = ('unregister', by_id[t[0]], t[1], by_id[t[2]])
                    R.log.append(['arm', repr(holder), 'unregister',
                                  repr(t) if v <= 0.88 else 'whole message'])
            elif r < 0.72:
                R.guarded('registration_exists', exists_check)
            elif r < 0.75:
                if keys and rng.random() < 0.5:
                    holder = rng.choice(keys)
                    R.armed[holder] = ('clear',)
                    R.log.append(['arm', repr(holder), 'clear'])
                else:
                    R.guarded('clear', lambda: apply(('clear',)))
                    for _ in range(2):
                        R.guarded('registration_exists', exists_check)
            else:
                o, m = rng.choice(objs), rng.choice(msgs)
                if keys and rng.random() < 0.7:
                    k = rng.choice(keys); o, m = by_id[k[0]], k[1]
                args = [rng.randint(0, 9) for _ in range(rng.choice([0, 1, 2]))]
                R.guarded('notify', lambda: notify(o, m, args))
        for (oid, m) in list(regs):
            R.guarded('notify', lambda: notify(by_id[oid], m, [1]))
    except Stop:
        pass
    finally:
        for o in objs:
            try:
                NC.unregister(o)
            except KeyError:
                pass
    return R


# ------------------------------------------------------------------ the real registries, together

def run_real_together(acc, rng, case, family):
    """The library's own registries (CmdPeriod + StartUp + ShutDown, or
    ServerBoot + ServerTree + ServerQuit) hold actions AT THE SAME TIME; running
    one of them must run exactly the actions registered in *that* registry, in
    registration order; remove() through one registry leaves the others alone.
    The actions the library itself keeps there are left in place and not judged
    (remove_all() is therefore not used here); everything the case adds is
    removed again at its end.  (NRT worker: CmdPeriod.run() clears no clock and
    no server is running.)"""
    from sc3.base import systemactions as sac
    from sc3.synth.server import Server
    if family == 'system':
        regs = {'CmdPeriod': sac.CmdPeriod, 'StartUp': sac.StartUp, 'ShutDown': sac.ShutDown}
        label = 'SystemAction'
        skeys = [None]
    else:
        regs = {'ServerBoot': sac.ServerBoot, 'ServerTree': sac.ServerTree,
                'ServerQuit': sac.ServerQuit}
        label = 'ServerAction'
        skeys = [Server.default, 'all', 'default']
    R = Runner(acc, rng, case, label)
    buckets = {(n, _sk(k)): Bucket() for n in regs for k in skeys}
    funcs = {}
    startup_done = sac.StartUp.done

    def make(aid):
        if family == 'system':
            def action(*a, **k):
                R.calls.append((aid, (a, k)))
                op = R.armed.pop(aid, None)
                if op is not None:
                    R.feat['in_run_ops'] += 1
                    acc.count('registry_in_run_ops')
                    apply(op, inside=True)
                R.after_call(aid)
        else:
            def action(server, *a, **k):
                R.calls.append((aid, (server, a, k)))
                op = R.armed.pop(aid, None)
                if op is not None:
                    R.feat['in_run_ops'] += 1
                    acc.count('registry_in_run_ops')
                    apply(op, inside=True)
                R.after_call(aid)
        action.__name__ = f'a{aid}'
        return action

    def apply(op, inside=False):
        name, reg, sk, aid = op[0], op[1], op[2], op[3]
        if not inside:
            R.log.append([name, reg, repr(sk), aid] + [list(x) if isinstance(x, (list, tuple))
                                                        else x for x in op[4:]])
        cls, b = regs[reg], buckets[(reg, _sk(sk))]
        if name == 'add':
            args = op[4]
            f = funcs.setdefault(aid, make(aid))
            if aid not in funcs or (not inside and not any(aid in x.entries
                                                            for x in buckets.values())):
                R.maybe_fault(aid)
            if family == 'system':
                cls.add(f, *args)
            else:
                cls.add(sk, f, *args)
            b.add(aid, R.tick(), args=tuple(args), once=False)
            if inside:
                R.touched.add(aid)
                R.readded.add(aid)
        elif name == 'do_once':
            f = funcs.setdefault(aid, make(aid))
            cls.do_once(f, *op[4])
            b.add(aid, R.tick(), args=tuple(op[4]), once=True)
        elif name == 'remove':
            was = aid in b.entries
            if family == 'system':
                cls.remove(funcs[aid])
            else:
                cls.remove(sk, funcs[aid])
            b.remove(aid)
            R.feat['removes'] += 1
            R._removed_since_run = True
            if inside and was and (reg, _sk(sk)) in (R.running or ()):
                R.touched.add(aid)
                R.removed_at.setdefault(aid, len(R.calls))

    def run(reg):
        R.log.append(['run', reg])
        R.calls.clear(); R.touched.clear(); R.removed_at.clear(); R.readded.clear()
        if family == 'system':
            use = [(reg, _sk(None))]
            call = regs[reg].run
        else:
            use = [(reg, _sk(Server.default)), (reg, 'default'), (reg, 'all')]
            call = lambda: regs[reg].run(Server.default)
        R.running = set(use)
        expected, home = {}, {}
        for u in use:
            expected.update(buckets[u].entries)
            for a in buckets[u].entries:
                home[a] = buckets[u]
        snapshot = {a: dict(home[a].entries[a]) for a in home}
        elsewhere = {a for k, b in buckets.items() if k not in use for a in b.entries}
        R.run_library(call)
        foreign = [k for k, _ in R.calls if k not in expected and k in elsewhere
                   and k not in R.touched]
        acc.count('registry_real_runs_with_actions_elsewhere', bool(elsewhere - set(expected)))
        if foreign:
            where = sorted({k[0] for k, b in buckets.items() for a in foreign
                            if a in b.entries})
            R.violation('ran-action-of-another-registry', ran=foreign, run=reg,
                        registered_only_in=where)

        def check_args(key, ent, payload):
            if family == 'system':
                a, k = payload
            else:
                srv_, a, k = payload
                if srv_ is not Server.default:
                    return f'server argument {srv_!r}'
            if tuple(a) != ent['args'] or k:
                return f'got {a!r} {k!r} expected {ent["args"]!r}'

        class _Snap:            # order relation as registered when the run began
            def __init__(self, b):
                self.b = b

            def before(self, x, y):
                ex, ey = snapshot[x], snapshot[y]
                return ex['first'] < ey['first'] and ex['last'] < ey['last']
        snaps = {id(b): _Snap(b) for b in home.values()}
        R.running_done = True
        R.compare(expected, lambda key: snaps[id(home[key])], check_args)
        R.running = None
        for u in use:
            for k, e in list(buckets[u].entries.items()):
                if e.get('once') and any(c[0] == k for c in R.calls):
                    buckets[u].remove(k)
                    R.spent_once.add(k)

    def defer_real(aid, args):
        # the library is initialised (this worker called sc3.init()): startup
        # is finished, StartUp.defer evaluates immediately and registers nothing
        R.log.append(['defer', 'StartUp', aid, list(args)])
        R.calls.clear(); R.touched.clear(); R.removed_at.clear(); R.readded.clear()
        f = funcs.setdefault(aid, make(aid))
        tmp = Bucket()
        tmp.add(aid, 0, args=tuple(args))
        R.run_library(lambda: sac.StartUp.defer(f, *args))
        acc.count('registry_defer_immediate')

        def check_args(key, ent, payload):
            a, k = payload
            if tuple(a) != ent['args'] or k:
                return f'got {a!r} {k!r} expected {ent["args"]!r}'
        R.compare(dict(tmp.entries), lambda k: tmp, check_args)

    R.running = None
    try:
        next_aid = 0
        names = sorted(regs)
        for _ in range(rng.randint(6, 40)):
            placed = [(k, a) for k, b in buckets.items() for a, e in b.entries.items()
                      if not e.get('once')]
            r = rng.random()
            if r < 0.4 or not placed:
                reg, sk = rng.choice(names), rng.choice(skeys)
                aid = None
                if placed and rng.random() < 0.3:
                    # the same callable in a second registry (or re-added to the
                    # same table); at most one table per registry, so that one
                    # run calls it at most once
                    cand = rng.choice(placed)[1]
                    homes = [k for k, b in buckets.items() if cand in b.entries and k[0] == reg]
                    if not homes or homes == [(reg, _sk(sk))]:
                        aid = cand
                if aid is None:
                    aid = next_aid; next_aid += 1
                args = [rng.randint(0, 9) for _ in range(rng.choice([0, 0, 1, 2]))]
                R.guarded('add', lambda: apply(('add', reg, sk, aid, args)))
            elif r < 0.45 and family == 'system':
                aid = next_aid; next_aid += 1
                R.guarded('do_once', lambda: apply(('do_once', 'CmdPeriod', None, aid,
                                                    [rng.randint(0, 9)])))
            elif r < 0.49 and family == 'system' and startup_done:
                aid = next_aid; next_aid += 1
                args = [rng.randint(0, 9) for _ in range(rng.choice([0, 1, 2]))]
                R.guarded('defer', lambda: defer_real(aid, args))
            elif r < 0.6:
                (reg, skr), aid = rng.choice(placed)
                sk = next(k for k in skeys if _sk(k) == skr)
                R.guarded('remove', lambda: apply(('remove', reg, sk, aid)))
            elif r < 0.7 and len(placed) >= 2:
                (_, _), holder = rng.choice(placed)
                (reg, skr), target = rng.choice(placed)
                sk = next(k for k in skeys if _sk(k) == skr)
                R.armed[holder] = ('remove', reg, sk, target)
                R.log.append(['arm', holder, 'remove', reg, repr(sk), target])
            else:
                R.guarded('run', lambda: run(rng.choice(names)))
        for n in names:
            R.guarded('run', lambda: run(n))
    except Stop:
        pass
    finally:
        for (reg, skr), b in buckets.items():
            sk = next(k for k in skeys if _sk(k) == skr)
            for aid in funcs:
                try:
                    if family == 'system':
                        regs[reg].remove(funcs[aid])
                    else:
                        regs[reg].remove(sk, funcs[aid])
                except Exception:
                    pass
        # pending do_once wrappers of this case: run them off with the guard on
        if family == 'system':
            R.faults.clear()
            try:
                if any(e.get('once') for b in buckets.values() for e in b.entries.values()):
                    sac.CmdPeriod.run()
            except Exception:
                pass
            sac.StartUp.done = startup_done
    return R


def _sk(k):
    return k if isinstance(k, str) or k is None else 'server'


def run(spec, acc):
    from sc3.base.systemactions import SystemAction, CmdPeriod, StartUp
    kinds = ['system', 'startup', 'cmdperiod', 'server', 'notify', 'real-system',
             'real-server']
    for i in iter_cases(spec):
        rng = case_rng(spec['seed'], 'C18', 'reg', i)
        kind = kinds[i % len(kinds)]
        if kind == 'system':
            R = run_system(acc, rng, i, SystemAction, 'SystemAction', False)
        elif kind == 'startup':
            R = run_system(acc, rng, i, StartUp, 'SystemAction', False)
        elif kind == 'cmdperiod':
            R = run_system(acc, rng, i, CmdPeriod, 'CmdPeriod', True)
        elif kind == 'server':
            R = run_server(acc, rng, i)
        elif kind == 'real-system':
            R = run_real_together(acc, rng, i, 'system')
        elif kind == 'real-server':
            R = run_real_together(acc, rng, i, 'server')
        else:
            R = run_notify(acc, rng, i)
        f = R.feat
        acc.case(h64(repr((kind, R.log))),
                 nontrivial=f['remove_then_run'] and f['max_actions'] >= 2)
        acc.count('registry_histories/' + kind)
        if acc.want_sample() and f['remove_then_run'] and f['in_run_ops'] \
                and len(R.log) < 16:
            acc.sample({'case': i, 'kind': 'reg/' + kind, 'history': R.log})
