"""Data-defined routine/clock programs: seeded generator + interpreter.

A program is a JSON-able tree (so the same program can be rebuilt in an RT
and in an NRT process).  The interpreter runs it on the real library and
(a) records a log of every resumption (relative logical seconds, beats,
values drawn, bundles sent) for differential comparison (C10), and
(b) carries, per routine, a *shadow expectation* of its logical time that is
advanced only by the deltas the routine yields - the C05 trace monitor: at
every resumption the observed `clock.seconds` / `clock.beats` must equal the
expectation (bit-for-bit in seconds on SystemClock/AppClock and, through the
clock's own public beats2secs map, on TempoClocks).

Clock indices: -1 SystemClock, -2 AppClock (NRT programs only), >= 0 TempoClocks
created by the program's root routine at the program's logical start T0 (so
their beats count from T0 in both modes).

Statements:
  ["y", d]            yield d
  ["play", R]         start child routine R at the current logical time
  ["tempo", ci, v]    set tempo of clock ci (from inside a routine)
  ["beats", ci, off]  clock.beats = clock.beats + off (from a routine of that clock)
  ["send", lat, id]   send_bundle(lat, ['/vf', id])   ["msg", id] send_msg
  ["rand", name, a, b]   draw with a builtin random function and log the value
  ["wait", c] ["sig", c]     Condition c (test = flag c)
  ["fget", f] ["fset", f, v] FlowVar f
  ["call", R, n]      drive inner (not played) routine R with next() n times
  ["pause", rid, d]   (C10) pause routine rid now and resume it d later ...
  ["yinf"] ["yend", v] yield inf / a non-delta value: never scheduled again
  ["nextbar"]         log clock.next_bar() (routine on a tempo clock)
  ["reenter"]         the routine calls next() on itself (must be refused) and goes on
  ["replay", rid]     reset() + play() of routine rid if it has ended (once)
  ["resched", rid, d] clock.sched(d, routine rid) while it is pending after a
                      yield: the queue moves it (one wake-up, at now + d)
"""

import enum
import functools
import random

SYS, APP = -1, -2


def _flag_is_set(flags, c):
    return flags[c]


class _FlagTest:
    def __init__(self, flags, c):
        self.flags, self.c = flags, c

    def is_set(self):
        return self.flags[self.c]

    def __call__(self):
        return self.flags[self.c]


# ---------------------------------------------------------------------------
# generator
# ---------------------------------------------------------------------------

RT_DELTAS = [0, 0, 0.001, 0.002, 0.003, 0.005, 0.01, 0.02, 0.03]
# exact binary fractions: sums are exact in floating point, so equal logical
# times are bit-equal whatever the (dyadic) start time is - needed when RT and
# NRT runs are compared, because ties are ordered by insertion
DYADIC_DELTAS = [0, 0, 1 / 1024, 2 / 1024, 3 / 1024, 5 / 1024, 10 / 1024, 20 / 1024,
                 31 / 1024]
NRT_DELTAS = [0, 0, 0.1, 0.25, 1 / 3, 0.5, 1, 1.5, 2, 3.7, 10, 0.001, 1e-9, 7]
TEMPOS = [0.25, 0.5, 1, 1.5, 2, 3, 4, 8, 16]


class Gen:
    def __init__(self, rng, rt_safe=True, nrt_only=False, features=()):
        self.rng = rng
        self.rt_safe = rt_safe          # deltas small; no AppClock
        self.nrt_only = nrt_only
        self.features = set(features)   # 'tempo', 'cond', 'flow', 'send', 'rand', 'call'
        self.next_id = 0
        self.dyadic = False
        self.single_clock = None      # force every routine onto this clock index
        self.all_seeded = False
        self.tempos = TEMPOS
        self.cond_heavy = False
        self.beat_offsets = [-8 / 1024, -2 / 1024, -1 / 1024]
        self.nconds = 0
        self.nflows = 0
        self.budget = 0

    def program(self):
        rng = self.rng
        nclocks = rng.choice([0, 1, 1, 2, 3])
        clocks = [{'kind': 'tempo', 'tempo': rng.choice(self.tempos)}
                  for _ in range(nclocks)]
        if self.single_clock is not None and self.single_clock >= 0 and not clocks:
            clocks = [{'kind': 'tempo', 'tempo': rng.choice(self.tempos)}]
        self.clocks = clocks
        self.budget = rng.choice([8, 20, 40]) if self.rt_safe else rng.choice([8, 25, 60])
        ntop = rng.randint(1, 4)
        # conditions: signallers are "free" routines (never wait themselves)
        self.pending_waits = []
        routines = []
        for _ in range(ntop):
            routines.append(self.routine(depth=0, free=rng.random() < 0.5))
        # every condition that is waited on gets exactly one signal in a free
        # routine; if there is none, add a dedicated free signaller
        prog = {'clocks': clocks, 'routines': routines}
        self._place_signals(prog)
        prog['nconds'] = self.nconds
        prog['nflows'] = self.nflows
        return prog

    def clock_index(self):
        rng = self.rng
        if self.single_clock is not None:
            return self.single_clock
        opts = [SYS, SYS] + list(range(len(self.clocks))) * 2
        if self.nrt_only:
            opts.append(APP)
        return rng.choice(opts)

    def delta(self):
        if self.dyadic:
            return self.rng.choice(DYADIC_DELTAS)
        return self.rng.choice(RT_DELTAS if self.rt_safe else NRT_DELTAS)

    def routine(self, depth, free):
        rng = self.rng
        rid = self.next_id
        self.next_id += 1
        ci = self.clock_index()
        R = {'id': rid, 'clock': ci, 'free': free,
             'seed': rng.randrange(1 << 30) if 'rand' in self.features
             and (rng.random() < 0.7 or self.all_seeded or depth == 0) else None}
        n = rng.randint(1, 7)
        body = []
        for _ in range(n):
            if self.budget <= 0:
                break
            self.budget -= 1
            x = rng.random()
            if 'resched' in self.features and rid > 0 and rng.random() < 0.07:
                # re-schedule an older routine that is pending in its clock's
                # queue: the queue moves it, it wakes once, at the new time
                body.append(['resched', rng.randrange(rid), self.delta()])
                continue
            if 'tick2' in self.features and self.clocks and rng.random() < 0.06:
                # ONE task object (a Function) pending on two clocks at once -
                # SystemClock and a tempo clock: it ticks on both, n times each
                body.append(['tick2', self.delta(), rng.randint(1, 3)])
                continue
            if 'reenter' in self.features and rng.random() < 0.04:
                # the routine calls next() on itself (refused) and carries on
                body.append(['reenter'])
                continue
            if 'replay' in self.features and rid > 0 and rng.random() < 0.06:
                # reset + play of an older routine that has ended
                body.append(['replay', rng.randrange(rid)])
                continue
            if self.cond_heavy and not free and rng.random() < 0.3:
                r_ = rng.random()
                x = 0.87 if r_ < 0.45 else 0.93 if r_ < 0.6 else 0.98
            if x < 0.45:
                body.append(['y', self.delta()])
            elif x < 0.58 and depth < 3:
                body.append(['play', self.routine(depth + 1, free=rng.random() < 0.5)])
            elif x < 0.66 and 'tempo' in self.features and self.clocks:
                # a routine changes the tempo of its own clock only when it runs
                # on a tempo clock (well defined "now"); any clock from SystemClock
                tci = ci if ci >= 0 else rng.randrange(len(self.clocks))
                if self.rt_safe and ci != tci:
                    body.append(['y', self.delta()])
                else:
                    body.append(['tempo', tci, rng.choice(self.tempos)])
            elif x < 0.69 and 'beats' in self.features and ci >= 0:
                # the routine re-bases the beat counter of its own clock
                body.append(['beats', ci, rng.choice(self.beat_offsets)])
            elif x < 0.74 and 'send' in self.features:
                body.append(['send', rng.choice([None, -1, 0, 0, 1e-9, 0.2, 3]),
                             rid * 1000 + len(body)])
                if rng.random() < 0.2:
                    # the very same bundle once more in the same wake-up (a doubled
                    # note): byte-identical, same time - still two bundles
                    body.append(list(body[-1]))
            elif x < 0.78 and 'send' in self.features:
                body.append(['msg', rid * 1000 + len(body)])
                if rng.random() < 0.2:
                    body.append(list(body[-1]))
            elif x < 0.86 and 'rand' in self.features:
                name = rng.choice(['rand', 'rand2', 'linrand', 'bilinrand', 'sum3rand',
                                   'coin', 'rrand', 'exprand', 'choice', 'shuffle',
                                   'choices', 'scramble', 'table_rand'])
                if name in ('rrand', 'exprand'):
                    body.append(['rand', name, 1.0, 10.0] if rng.random() < 0.5
                                else ['rand', name, 1, 10])
                elif name == 'coin':
                    body.append(['rand', name, 0.5, None])
                elif name in ('choice', 'shuffle', 'scramble', 'table_rand'):
                    body.append(['rand', name, [1, 2, 3, 5, 8], None])
                elif name == 'choices':
                    body.append(['rand', name, [1, 2, 3, 5, 8], [1, 1, 2, 3, 0.5]])
                else:
                    body.append(['rand', name, rng.choice([100, 7, 1.0, 2.5]), None])
            elif x < 0.92 and 'cond' in self.features and not free:
                if self.nconds == 0 or rng.random() < 0.5:
                    self.nconds += 1
                c = rng.randrange(self.nconds)
                body.append(['wait', c])
                self.pending_waits.append(('c', c))
            elif x < 0.95 and 'flow' in self.features and not free:
                if self.nflows == 0 or rng.random() < 0.5:
                    self.nflows += 1
                f = rng.randrange(self.nflows)
                body.append(['fget', f])
                self.pending_waits.append(('f', f))
            elif x < 0.97 and 'pr' in self.features and rid > 0:
                tgt = rng.randrange(rid)          # an older routine
                body.append([rng.choice(['pause', 'resume', 'resume', 'stop']), tgt])
            elif x < 0.985 and 'embed' in self.features:
                body.append(['embed', self.embedded(rid, ci, free, 1)])
            elif x < 0.99 and 'call' in self.features:
                inner = {'id': self.next_id, 'clock': ci,
                         'body': [['yv', rng.randrange(100)]
                                  for _ in range(rng.randint(1, 4))]}
                self.next_id += 1
                body.append(['call', inner, rng.randint(1, 5)])
            else:
                body.append(['y', self.delta()])
        if 'yinf' in self.features and rng.random() < 0.12:
            # yields inf / a value that is not a delta (a bool is not a number
            # for the clocks): never scheduled again
            body.append(rng.choice([['yinf'], ['yinf'], ['yend', True], ['yend', False],
                                    ['yend', 'x']]))
        R['body'] = body
        if 'ahead' in self.features and depth > 0 and ci == SYS and rng.random() < 0.25:
            R['ahead'] = rng.choice([0, 1 / 1024, 3 / 1024, 8 / 1024])
        return R

    def embedded(self, rid, ci, free, level):
        """Body of a routine embedded with `yield from embed(Routine(...))`:
        its yields and waits travel up to the played routine."""
        rng = self.rng
        body = []
        for _ in range(rng.randint(1, 4)):
            self.budget -= 1
            x = rng.random()
            if x < 0.4:
                body.append(['y', self.delta()])
            elif x < 0.6 and 'cond' in self.features and not free:
                if self.nconds == 0 or rng.random() < 0.5:
                    self.nconds += 1
                c = rng.randrange(self.nconds)
                body.append(['wait', c])
                self.pending_waits.append(('c', c))
            elif x < 0.7 and 'flow' in self.features and not free:
                if self.nflows == 0 or rng.random() < 0.5:
                    self.nflows += 1
                f = rng.randrange(self.nflows)
                body.append(['fget', f])
                self.pending_waits.append(('f', f))
            elif x < 0.9 and level < 4:
                body.append(['embed', self.embedded(rid, ci, free, level + 1)])
            else:
                body.append(['y', self.delta()])
        iid = self.next_id
        self.next_id += 1
        return {'id': iid, 'level': level, 'body': body}

    def _place_signals(self, prog):
        rng = self.rng
        conds = sorted({w[1] for w in self.pending_waits if w[0] == 'c'})
        flows = sorted({w[1] for w in self.pending_waits if w[0] == 'f'})
        if not conds and not flows:
            return
        sig = {'id': self.next_id, 'clock': self.single_clock if self.single_clock
               is not None else SYS if self.rt_safe or rng.random() < 0.6
               else self.clock_index(), 'free': True, 'seed': None, 'body': []}
        self.next_id += 1
        external = []
        if 'condx' in self.features and self.rt_safe and not self.nrt_only:
            external = [c for c in conds if rng.random() < 0.3]
            prog['external_conds'] = external
        items = [['sig', c] for c in conds if c not in external] \
            + [['fset', f, 1000 + f] for f in flows]
        rng.shuffle(items)
        for it in items:
            sig['body'].append(['y', self.delta()])
            if 'condx' in self.features and it[0] == 'sig':
                # a signal while the test is still false releases nobody;
                # unhang releases whoever is waiting whatever the test says
                if rng.random() < 0.4:
                    sig['body'].append(['sig0', it[1]])
                    sig['body'].append(['y', self.delta()])
                if rng.random() < 0.3:
                    sig['body'].append(['unhang', it[1]])
                    sig['body'].append(['y', self.delta()])
            if 'condx' in self.features and it[0] == 'fset' and rng.random() < 0.2:
                sig['body'].append(it)          # rebind is refused (logged)
            sig['body'].append(it)
            if it[0] == 'sig' and rng.random() < 0.3:
                sig['body'].append(['y', self.delta()])
                sig['body'].append(['sig', it[1]])
        prog['routines'].append(sig)


def rearm_program(rng, rt=False):
    """A debounce / watchdog program: one routine re-arms a pending watchdog
    routine 35-90 times (each `clock.sched(D, watchdog)` moves the pending entry
    and leaves a stale one behind in a lazy-deletion queue) while 8-24 voices with
    scattered deltas keep the queue populated.  Every resumption is judged by the
    ordinary shadow expectation; the stale entries outnumber the live ones."""
    ci = rng.choice([SYS, SYS, 0])
    clocks = [{'kind': 'tempo', 'tempo': rng.choice([1, 2, 4] if rt else TEMPOS)}] if ci == 0 else []
    u = 1 / 1024
    nv = rng.randint(8, 24)
    n = rng.randint(35, 90)
    step = rng.choice([1, 1, 2]) * u * (1 if rt else rng.choice([1, 16, 256]))
    D = step * rng.choice([8, 20, 64])
    wd = {'id': 0, 'clock': ci, 'free': True, 'seed': None,
          'body': [['y', D], ['y', step]]}
    voices = []
    for k in range(nv):
        body = [['y', step * rng.choice([0, 1, 2, 3, 5, 7, 11, 13, 29])]
                for _ in range(rng.randint(3, 9))]
        voices.append({'id': 1 + k, 'clock': ci, 'free': True, 'seed': None, 'body': body})
    body = []
    for _ in range(n):
        body.append(['resched', 0, D])
        body.append(['y', step * rng.choice([1, 1, 1, 2, 0])])
    inp = {'id': nv + 1, 'clock': ci, 'free': True, 'seed': None, 'body': body}
    order = voices[: nv // 2] + [inp] + voices[nv // 2:]
    return {'clocks': clocks, 'routines': [wd] + order, 'nconds': 0, 'nflows': 0}


def features_of(prog):
    out = set()

    def walk(R, depth):
        out.add(f"clock:{'sys' if R['clock'] == SYS else 'app' if R['clock'] == APP else 'tempo'}")
        if depth:
            out.add(f'depth{depth}')
        for st in R['body']:
            out.add(st[0])
            if st[0] == 'play':
                if st[1]['clock'] != R['clock']:
                    out.add('cross-clock-child')
                walk(st[1], depth + 1)
            if st[0] == 'embed':
                def wemb(E):
                    out.add(f"embed-level{E['level']}")
                    for t in E['body']:
                        out.add('embedded-' + t[0])
                        if t[0] == 'embed':
                            wemb(t[1])
                wemb(st[1])
    for R in prog['routines']:
        walk(R, 0)
    return out


# ---------------------------------------------------------------------------
# interpreter
# ---------------------------------------------------------------------------

class _Beats(float):
    """A float of the caller's own class (a unit type, numpy.float64, ...)."""
    __slots__ = ()


class _Count(int):
    __slots__ = ()


class _Steps(enum.IntEnum):
    ZERO = 0
    ONE = 1
    TWO = 2
    THREE = 3
    FOUR = 4


_USER_CLOCK = []


def _user_tempo_clock(base):
    if not _USER_CLOCK:
        class BpmClock(base):
            """A user's subclass: a convenience property, nothing overridden."""
            @property
            def bpm(self):
                return self.tempo * 60
        _USER_CLOCK.append(BpmClock)
    return _USER_CLOCK[0]


def _as_other_number(d, k):
    if isinstance(d, bool) or not isinstance(d, (int, float)):
        return d
    if isinstance(d, int) or float(d).is_integer() and k % 2:
        if 0 <= d <= 4 and k % 3 == 0:
            return _Steps(int(d))
        return _Count(int(d)) if isinstance(d, int) else _Beats(d)
    return _Beats(d)


class Run:
    """One program instance running on the real library."""

    def __init__(self, prog, mode, on_done=None, tag=0):
        from sc3.base.main import main
        from sc3.base import clock as clk, stream as stm, builtins as bi
        from sc3.base.netaddr import NetAddr
        self.main, self.clk, self.stm, self.bi = main, clk, stm, bi
        from sc3.base import functions as _fn
        self.fn = _fn
        self.prog = prog
        self.mode = mode
        self.tag = tag
        self.on_done = on_done
        self.log = []          # entries appended under the main lock
        self.fails = []        # C05 self-check failures
        self.errors = []       # exceptions escaping bodies (harness or library)
        self.clocks = []
        self.T0 = None
        self.live = 0
        self.done = False
        self.flags = {}
        self.sig = {}
        self.conds = {}
        self.flows = {}
        self.fsig = {}
        self.routines = {}
        self.sts = {}
        self.cmap = []
        self.cmap_ok = True      # False once a map was changed at an unknown time
        self.start_window = None
        self.addr = NetAddr('127.0.0.1', 57110)
        self.max_late = 0.0
        self.n_res = 0
        self.n_wrapped = 0
        self.n_tick2 = 0
        self.n_model = 0
        self.kinds = {}

    # ---- helpers ------------------------------------------------------
    def clock(self, ci):
        if ci == SYS:
            return self.clk.SystemClock
        if ci == APP:
            return self.clk.AppClock
        return self.clocks[ci]

    def now_secs(self):
        return self.clk.SystemClock.seconds      # logical seconds of current thread

    def fail(self, kind, **info):
        info['kind'] = kind
        info['prog_tag'] = self.tag
        self.fails.append(info)

    # ---- start --------------------------------------------------------
    def start(self, at=None, delta=None):
        """Schedules the root routine (call from the main thread); at: absolute
        logical start time (SystemClock seconds) instead of 'now'; delta: use
        SystemClock.sched(delta, routine) from this (non clock) thread and keep
        the interval of physical time in which the call was made."""
        run = self

        def root():
            run.T0 = run.now_secs()
            for ci_, c in enumerate(run.prog['clocks']):
                # every second tempo clock is an instance of a user's subclass
                # (documented way to add conveniences): same behaviour
                cls_ = _user_tempo_clock(run.clk.TempoClock) if (ci_ + int(run.tag or 0)) % 2 \
                    else run.clk.TempoClock
                run.clocks.append(cls_(c['tempo']))
                # independent model of the clock's affine beats/seconds map:
                # [base seconds, base beats, tempo]; re-based by the harness at
                # every tempo / beats statement, at the EXPECTED logical time of
                # the routine that executes it
                run.cmap.append([run.T0, 0.0, float(c['tempo'])])
            for c in range(run.prog.get('nconds', 0)):
                run.flags[c] = False
                # the test may be any callable: plain function, bound method,
                # partial, object with __call__
                kind = c % 4
                if kind == 0:
                    test = (lambda c=c: run.flags[c])
                elif kind == 1:
                    test = _FlagTest(run.flags, c).is_set
                elif kind == 2:
                    test = functools.partial(_flag_is_set, run.flags, c)
                else:
                    test = _FlagTest(run.flags, c)
                run.conds[c] = run.stm.Condition(test)
            for f in range(run.prog.get('nflows', 0)):
                run.flows[f] = run.stm.FlowVar()
            for R in run.prog['routines']:
                run.spawn(R, parent_secs=run.T0)
            run._dec()
        self.live += 1
        r = self.stm.Routine(root)
        if delta is not None:
            c0 = self.main.elapsed_time()
            self.clk.SystemClock.sched(delta, r)
            c1 = self.main.elapsed_time()
            self.start_window = (c0 + delta, c1 + delta)
        elif at is None:
            r.play(self.clk.SystemClock)
        else:
            self.clk.SystemClock.sched_abs(at, r)
        return r

    def _dec(self):
        self.live -= 1
        if self.live == 0 and not self.done:
            self.done = True
            if self.on_done:
                self.on_done(self)

    def stop_clocks(self):
        for c in self.clocks:
            try:
                c.stop()
            except Exception:
                pass

    # ---- spawning -----------------------------------------------------
    def spawn(self, R, parent_secs):
        """Starts routine R as a child at the current logical time."""
        clock = self.clock(R['clock'])
        st = {'rid': R['id'], 'clock': clock, 'ci': R['clock'], 'k': 0}
        if R['clock'] >= 0 and R.get('quant'):
            # started on the clock's grid (the grid itself is C12's subject)
            st['exp_beats'] = clock.next_time_on_grid(R['quant'])
            st['exp_secs'] = None
        elif R['clock'] >= 0:
            st['exp_beats'] = clock.beats       # == what play(quant=0) will schedule at
            st['exp_secs'] = None
        elif R.get('ahead') is not None and R['clock'] == SYS:
            # started with sched_abs at a time point a little ahead of the parent's
            # logical time (in real time that is usually the physical past already)
            st['exp_secs'] = parent_secs + R['ahead']
        else:
            st['exp_secs'] = parent_secs
        self.sts[R['id']] = st
        # every way the library offers to start a routine "now" (quant 0 on
        # tempo clocks: no quantisation): sched(0), play, Routine.run, the
        # routine.run decorator, with the quant spelled 0, Quant(0) or (0, 0)
        self.live += 1
        body = self.make_body(R, st)
        form = R['id'] % 6
        if R['clock'] >= 0 and R.get('quant'):
            rout = self.stm.Routine(body)
            rout.play(clock, R['quant'])
        elif R['clock'] >= 0:
            q = [0, self.clk.Quant(0), (0, 0)][(R['id'] // 6) % 3]
            if form in (0, 1):
                rout = self.stm.Routine(body)
                clock.sched(0, rout) if form else rout.play(clock, q)
            elif form in (2, 3):
                rout = self.stm.Routine.run(body, clock, q)
            else:
                rout = self.stm.routine.run(clock, q)(body)
        elif R.get('ahead') is not None and R['clock'] == SYS:
            rout = self.stm.Routine(body)
            clock.sched_abs(parent_secs + R['ahead'], rout)
        else:
            if form in (0, 1):
                rout = self.stm.Routine(body)
                clock.sched(0, rout) if form else rout.play(clock)
            elif form in (2, 3):
                rout = self.stm.Routine.run(body, clock)
            else:
                rout = self.stm.routine.run(clock)(body)
        st['rout'] = rout
        if R.get('seed') is not None:
            rout.rand_seed = R['seed']       # (before its first wake-up)
        self.routines[R['id']] = rout
        return rout

    def make_body(self, R, st):
        run = self

        def body(inval):
            try:
                run.resumed(st, 'start')
                yield from run.exec(R['body'], st, R)
                st['ended'] = True
                run.log.append(('end', st['rid']))
            except GeneratorExit:
                raise
            except run.stm.StopStream:
                raise
            except Exception as e:
                from vf.common import short_tb
                run.errors.append((st['rid'], type(e).__name__, short_tb(e)))
                run.log.append(('exc', st['rid'], type(e).__name__))
            finally:
                if not st.get('gone'):
                    run._dec()
        return body

    # ---- the C05 monitor ---------------------------------------------
    def resumed(self, st, what):
        clock = st['clock']
        obs_secs = clock.seconds
        k = st['k']
        st['k'] = k + 1
        self.n_res += 1
        kk = (what, 'tempo' if st['ci'] >= 0 else 'sys' if st['ci'] == SYS else 'app')
        self.kinds[kk] = self.kinds.get(kk, 0) + 1
        beats = None
        if st.pop('resync', False):
            st['unsynced'] = True       # its times now start from an observation
            # released from outside a routine: the release time is physical
            if st['ci'] >= 0:
                st['exp_beats'] = clock.beats
                st['now_model'] = obs_secs
                beats = st['exp_beats']
            else:
                st['exp_secs'] = obs_secs
        elif st['ci'] >= 0:
            beats = clock.beats
            eb = st['exp_beats']
            st['now_model'] = obs_secs
            exp_secs = clock.beats2secs(eb)
            if abs(obs_secs - exp_secs) > 1e-9 * max(1.0, abs(exp_secs)):
                self.fail('tempo-seconds', rid=st['rid'], k=k, after=what,
                          exp_beats=eb, exp_secs=exp_secs, obs_secs=obs_secs,
                          obs_beats=beats)
            elif abs(beats - eb) > 1e-9 * max(1.0, abs(eb)):
                self.fail('tempo-beats', rid=st['rid'], k=k, after=what,
                          exp_beats=eb, obs_beats=beats)
            elif self.cmap_ok and not st.get('unsynced'):
                ms = self.model_secs(st['ci'], eb)
                st['now_model'] = ms
                self.n_model += 1
                if abs(obs_secs - ms) > 1e-9 * max(1.0, abs(ms)):
                    self.fail('tempo-seconds-model', rid=st['rid'], k=k, after=what,
                              exp_beats=eb, model_secs=ms, obs_secs=obs_secs,
                              model_map=list(self.cmap[st['ci']]))
        else:
            if obs_secs != st['exp_secs']:
                self.fail('seconds', rid=st['rid'], k=k, after=what,
                          clock='AppClock' if st['ci'] == APP else 'SystemClock',
                          exp_secs=st['exp_secs'], obs_secs=obs_secs,
                          T0=self.T0)
        if self.mode == 'rt':
            late = self.main.elapsed_time() - obs_secs
            if late > self.max_late:
                self.max_late = late
        self.log.append(('res', st['rid'], k, obs_secs - self.T0, beats, what))

    def model_secs(self, ci, beats):
        bs, bb, tempo = self.cmap[ci]
        return bs + (beats - bb) / tempo

    def model_beats(self, ci, secs):
        bs, bb, tempo = self.cmap[ci]
        return bb + (secs - bs) * tempo

    def expected_now(self, st):
        """Expected logical seconds of the routine, without asking the library."""
        if st['ci'] >= 0:
            # the seconds at which this wake-up began (a beats statement moves
            # the beat that belongs to "now", not the time)
            return st['now_model']
        return st['exp_secs']

    def advance(self, st, d):
        if st['ci'] >= 0:
            st['exp_beats'] = st['exp_beats'] + d
        else:
            st['exp_secs'] = st['exp_secs'] + d

    def set_to_signal_time(self, st, sig):
        if sig is None:
            st['resync'] = True
            return
        secs, beats = sig
        if st['ci'] >= 0:
            st['exp_beats'] = beats[st['ci']]
        else:
            st['exp_secs'] = secs

    def release_from_outside(self, c, final=False):
        """Condition released by a plain thread (RT): flag + signal."""
        with self.main._main_lock:
            if final and self.flags.get(c):
                return
            self.flags[c] = True
            self.sig.setdefault(c, []).append(None)
            self.log.append(('sig', 'outside', c, None))
            self.conds[c].signal()

    def snapshot(self):
        return (self.now_secs(), [c.beats for c in self.clocks])

    # ---- statement execution -----------------------------------------
    def exec(self, stmts, st, R):
        bi = self.bi
        for s in stmts:
            op = s[0]
            if op == 'y':
                st['in_yield'] = True
                # every few yields the delta is a number of another numeric class
                # (subclass of float / int, an IntEnum member): still a delta
                st['ny'] = st.get('ny', 0) + 1
                if (st['ny'] * 7 + st['rid']) % 5 == 0:
                    self.n_wrapped += 1
                    yield _as_other_number(s[1], st['ny'])
                else:
                    yield s[1]
                st['in_yield'] = False
                mv = st.pop('moved', None)
                if mv is None:
                    self.advance(st, s[1])
                    self.resumed(st, 'yield')
                else:
                    if st['ci'] >= 0:
                        st['exp_beats'] = mv
                    else:
                        st['exp_secs'] = mv
                    self.resumed(st, 'moved')
            elif op == 'play':
                self.spawn(s[1], parent_secs=self.now_secs())
            elif op == 'tempo':
                c = self.clocks[s[1]]
                if st.get('unsynced'):
                    self.cmap_ok = False
                else:
                    S = self.expected_now(st)
                    self.cmap[s[1]] = [S, self.model_beats(s[1], S), float(s[2])]
                c.tempo = s[2]
                self.log.append(('tempo', st['rid'], s[1], s[2],
                                 self.now_secs() - self.T0))
            elif op == 'beats':
                c = self.clocks[s[1]]
                if st.get('unsynced'):
                    self.cmap_ok = False
                else:
                    S = self.expected_now(st)
                    self.cmap[s[1]] = [S, self.model_beats(s[1], S) + s[2],
                                       self.cmap[s[1]][2]]
                c.beats = c.beats + s[2]
                self.log.append(('beats', st['rid'], s[1], s[2],
                                 self.now_secs() - self.T0))
            elif op in ('pause', 'resume', 'stop'):
                tgt = self.routines.get(s[1])
                out = 'absent'
                if tgt is not None:
                    try:
                        if op == 'resume' and len(s) > 2:
                            tgt.resume(quant=s[2])      # 0: at the current beat
                        else:
                            getattr(tgt, op)()
                        out = 'ok'
                    except Exception as e:
                        out = type(e).__name__
                self.log.append((op, st['rid'], s[1], out, self.now_secs() - self.T0))
            elif op in ('yinf', 'yend'):
                # inf is "never", a bool or a string is not a delta: the routine
                # leaves its clock for good
                self.log.append(('yinf', st['rid'], self.now_secs() - self.T0))
                st['gone'] = True
                self._dec()
                yield (float('inf') if op == 'yinf' else s[1])
                self.log.append(('resumed-after-inf', st['rid']))
                self.fail('resumed-after-yielding-inf', rid=st['rid'], after='yinf')
            elif op == 'nextbar':
                c = st['clock']
                self.log.append(('nextbar', st['rid'], c.next_bar(), c.beats))
            elif op == 'reenter':
                me = st['rout']         # the routine that is running this body
                out = 'no-exception'
                try:
                    me.next()
                except BaseException as e:      # noqa: any refusal will do
                    out = type(e).__name__
                self.log.append(('reenter', st['rid'], out != 'no-exception'))
            elif op == 'replay':
                tst = self.sts.get(s[1])
                out = 'skip'
                if tst is not None and tst.get('ended') and not tst.get('replayed'):
                    tgt = tst['rout']
                    tst['replayed'] = True
                    tst['ended'] = False
                    tst['k'] = 0
                    tclock = tst['clock']
                    if tst['ci'] >= 0:
                        tst['exp_beats'] = tclock.beats
                    else:
                        tst['exp_secs'] = self.now_secs()
                    tst['unsynced'] = st.get('unsynced', False)
                    self.live += 1
                    tgt.reset()
                    if tst['ci'] >= 0:
                        tgt.play(tclock, 0)
                    else:
                        tgt.play(tclock)
                    out = 'replayed'
                self.log.append(('replay', st['rid'], s[1], out,
                                 self.now_secs() - self.T0))
            elif op == 'resched':
                tst = self.sts.get(s[1])
                out = 'skip'
                if tst is not None and tst.get('in_yield'):
                    # pending in its clock's queue: scheduling it again moves it
                    tclock = tst['clock']
                    if tst['ci'] >= 0:
                        tst['moved'] = tclock.beats + s[2]
                    else:
                        tst['moved'] = self.now_secs() + s[2]
                    tclock.sched(s[2], tst['rout'])
                    out = 'moved'
                self.log.append(('resched', st['rid'], s[1], out, s[2],
                                 self.now_secs() - self.T0))
            elif op == 'tick2':
                tclk = st['clock'] if st['ci'] >= 0 else (self.clocks[0] if self.clocks else None)
                if tclk is not None:
                    self.n_tick2 += 1
                    st['ntick'] = serial = st.get('ntick', 0) + 1     # (per routine)
                    left = {'sys': s[2], 'tempo': s[2]}
                    rid_, d_ = st['rid'], s[1]
                    sysclock = self.clk.SystemClock
                    self.live += 2

                    def tick(me, clock, left=left, rid_=rid_, d_=d_, serial=serial):
                        which = 'sys' if clock is sysclock else 'tempo'
                        self.log.append(('tick', rid_, serial, which, self.now_secs() - self.T0))
                        left[which] -= 1
                        if left[which] > 0:
                            return d_
                        self._dec()
                        return None
                    f = self.fn.Function(tick)
                    sysclock.sched(d_, f)
                    tclk.sched(d_, f)
            elif op == 'send':
                self.addr.send_bundle(s[1], ['/vf', self.tag * 100000 + s[2]])
                self.log.append(('send', st['rid'], s[2], s[1],
                                 self.now_secs() - self.T0))
            elif op == 'msg':
                self.addr.send_msg('/vf', self.tag * 100000 + s[1])
                self.log.append(('msg', st['rid'], s[1], self.now_secs() - self.T0))
            elif op == 'rand':
                name, a, b = s[1], s[2], s[3]
                f = getattr(bi, name)
                if name == 'shuffle':           # in place, returns None
                    v = list(a)
                    f(v)
                elif name == 'choices':
                    v = f(list(a), list(b), k=3)
                elif name == 'scramble':
                    v = list(f(list(a)))
                else:
                    v = f(a, b) if b is not None else f(a)
                self.log.append(('rand', st['rid'], name, v))
            elif op == 'wait':
                c = s[1]
                hung = not self.flags[c]
                nsig = len(self.sig.setdefault(c, []))
                self.log.append(('wbegin', st['rid'], 'c', c, hung))
                yield from self.conds[c].wait()
                if hung:
                    # released by the first signal issued after the wait began
                    if len(self.sig[c]) > nsig:
                        self.set_to_signal_time(st, self.sig[c][nsig])
                    else:       # resumed although nobody released the condition
                        self.fail('resumed-without-release', rid=st['rid'], cond=c,
                                  after='wait-hung')
                        st['resync'] = True
                self.resumed(st, 'wait-hung' if hung else 'wait-pass')
            elif op == 'sig':
                c = s[1]
                self.flags[c] = True
                self.sig.setdefault(c, []).append(self.snapshot())
                self.conds[c].signal()
                self.log.append(('sig', st['rid'], c, self.now_secs() - self.T0))
            elif op == 'sig0':
                c = s[1]
                if not self.flags[c]:
                    self.conds[c].signal()      # test is false: must release nobody
                    self.log.append(('sig0', st['rid'], c))
            elif op == 'unhang':
                c = s[1]
                self.sig.setdefault(c, []).append(self.snapshot())
                self.conds[c].unhang()
                self.log.append(('unhang', st['rid'], c, self.now_secs() - self.T0))
            elif op == 'fget':
                f = s[1]
                fv = self.flows[f]
                hung = f not in self.fsig
                self.log.append(('wbegin', st['rid'], 'f', f, hung))
                v = yield from fv.value
                if hung:
                    self.set_to_signal_time(st, self.fsig[f])
                self.resumed(st, 'flow-hung' if hung else 'flow-pass')
                self.log.append(('fval', st['rid'], f, v))
            elif op == 'fset':
                f = s[1]
                if f in self.fsig:
                    try:
                        self.flows[f].value = s[2]
                        self.log.append(('rebind-accepted', st['rid'], f))
                    except Exception as e:
                        self.log.append(('rebind-refused', st['rid'], f))
                else:
                    self.fsig[f] = self.snapshot()
                    self.flows[f].value = s[2]
                    self.log.append(('fset', st['rid'], f, self.now_secs() - self.T0))
            elif op == 'embed':
                inner = s[1]
                run = self

                ir = self.stm.Routine(self.make_embedded(inner, st))
                yield from self.stm.embed(ir)
                self.log.append(('embedded-end', st['rid'], inner['id']))
            elif op == 'call':
                inner, n = s[1], s[2]
                vals = []
                ir = self.stm.Routine(self.make_inner(inner, st))
                for _ in range(n):
                    st['cur_secs'] = self.now_secs()   # parent's logical time now
                    try:
                        vals.append(ir.next())
                    except self.stm.StopStream:
                        vals.append('stop')
                self.log.append(('call', st['rid'], inner['id'], vals))
            else:
                raise ValueError(op)

    def make_embedded(self, inner, st):
        run = self

        def ebody():
            yield from run.exec(inner['body'], st, inner)
        return ebody

    def make_inner(self, inner, parent_st):
        run = self

        def ibody():
            for s in inner['body']:
                obs = run.now_secs()
                pst = parent_st
                exp = pst['cur_secs']
                if obs != exp:
                    run.fail('inner-routine-time', rid=inner['id'], parent=pst['rid'],
                             exp_secs=exp, obs_secs=obs)
                run.n_res += 1
                yield s[1]
        return ibody
