"""Confirms a seeded property-breaking change and runs the check against it.

python -m vf.seedtest <dir with patch.diff, demo.py, meta.json> <seed id> [--tier quick] [--no-tests] [--prop Cyy]

Works on a scratch copy of /repo (outside /repo and /verif), never on /repo:
 1. demo.py on the clean copy           -> must exit 0
 2. patch applied, demo.py              -> must exit != 0
 3. baseline test suite on the patched copy -> same 60 stable tests pass
 4. VERIF_REPO=<copy> ./check <prop> <tier> -> exit code and keys recorded
The result is written to /verif/seeded/<seed id>/ (patch.diff, demo.py,
meta.json with what was run).  The copy is removed.
"""

import json
import os
import shutil
import subprocess
import sys
import tempfile

from .common import VERIF_DIR

PY = '/venv/bin/python'


def run(cmd, cwd=None, env=None, timeout=1800):
    try:
        p = subprocess.run(cmd, cwd=cwd, env=env, capture_output=True, text=True,
                           timeout=timeout)
        return p.returncode, (p.stdout + p.stderr)
    except subprocess.TimeoutExpired:
        return 'timeout', ''


def main(argv):
    src, sid = argv[0], argv[1]
    tier = argv[argv.index('--tier') + 1] if '--tier' in argv else 'quick'
    meta = json.load(open(os.path.join(src, 'meta.json')))
    prop = meta['property']
    other = argv[argv.index('--prop') + 1] if '--prop' in argv else None
    if other:       # run another property's check against this change
        prop = other
    scratch = tempfile.mkdtemp(prefix='vf-seed-')
    out = {'seed_id': sid, 'property': prop}
    try:
        dst = os.path.join(scratch, 'repo')
        subprocess.run(['rsync', '-a', '--exclude', '.git', '--exclude', '__pycache__',
                        '/repo/', dst + '/'], check=True)
        env = dict(os.environ, PYTHONPATH=dst, HOME=os.path.join(scratch, 'home'),
                   PYTHONDONTWRITEBYTECODE='1')
        os.makedirs(env['HOME'], exist_ok=True)
        demo = os.path.join(src, 'demo.py')
        rc0, o0 = run([PY, '-W', 'ignore', demo, dst], env=env, timeout=180)
        out['demo_clean_rc'] = rc0
        rcp, op = run(['patch', '-p1', '--no-backup-if-mismatch', '-i',
                       os.path.abspath(os.path.join(src, 'patch.diff'))], cwd=dst)
        out['patch_applies'] = rcp == 0
        if rcp != 0:
            out['patch_output'] = op[-800:]
        rc1, o1 = run([PY, '-W', 'ignore', demo, dst], env=env, timeout=180)
        out['demo_patched_rc'] = rc1
        out['demo_patched_tail'] = o1[-500:]
        if '--no-tests' not in argv:
            # the suite binds the library's fixed default ports: a private network
            # namespace keeps concurrent jobs from colliding on them
            rct, ot = run(['unshare', '-n', '--', 'bash', '-c',
                           'ip link set lo up; exec ' + PY + ' -m pytest -q -p no:cacheprovider '
                           '--timeout=900 --continue-on-collection-errors'],
                          cwd=dst, env=env, timeout=1500)
            out['tests_tail'] = ot.strip().splitlines()[-1] if ot.strip() else ''
        cenv = dict(os.environ, VERIF_REPO=dst)
        results = {}
        for t in ([tier] if tier != 'both' else ['quick', 'thorough']):
            rcc, oc = run(['./check', prop, t], cwd=VERIF_DIR, env=cenv, timeout=3600)
            keys = [l.strip() for l in oc.splitlines() if l.strip().startswith('key=')]
            results[t] = {'exit': rcc, 'keys': keys,
                          'summary': [l for l in oc.splitlines() if l.startswith('[')][-1:]}
        out['check'] = results
    finally:
        shutil.rmtree(scratch, ignore_errors=True)
    d = os.path.join(VERIF_DIR, 'seeded', sid)
    os.makedirs(d, exist_ok=True)
    if os.path.realpath(src) != os.path.realpath(d):
        for fn in ('patch.diff', 'demo.py'):
            try:
                shutil.copy(os.path.join(src, fn), d)
            except shutil.SameFileError:
                pass
    prev = {}
    try:
        prev = json.load(open(os.path.join(d, 'meta.json'))).get('verified', {})
    except Exception:
        pass
    if 'tests_tail' not in out and prev.get('tests_tail'):
        out['tests_tail'] = prev['tests_tail'] + ' (from the first verification)'
    if prev.get('check') and prev['check'].get('quick', {}).get('exit') == 0:
        out['first_check_missed_it'] = True
    if prev.get('first_check_missed_it'):
        out['first_check_missed_it'] = True
    if other:
        rc = out.get('check', {}).get(tier, {}).get('exit')
        meta.setdefault('other_property_checks', {})[other] = out.get('check')
        if rc == 1:
            meta['caught_by_other_property'] = other
        json.dump(meta, open(os.path.join(d, 'meta.json'), 'w'), indent=1)
        print(json.dumps(out, indent=1))
        return
    meta['verified'] = out
    meta['caught_by_quick'] = out.get('check', {}).get('quick', {}).get('exit') == 1
    json.dump(meta, open(os.path.join(d, 'meta.json'), 'w'), indent=1)
    print(json.dumps(out, indent=1))


if __name__ == '__main__':
    main(sys.argv[1:])
