"""Coverage survey (tooling, not a check): which lines of the anchored library
files do the workloads of each property reach?

python -m vf.covsurvey run  <dir> [ids...]   # runs ./check <id> quick with VF_COV_DIR=<dir>
python -m vf.covsurvey report <dir> [ids...] # per property: anchored files, missing lines

The result guides where generators / histories are widened; it is not evidence
of anything (evidence is what the monitors observed).  Evidence written by a
survey run goes to .scratch-evidence/ (VERIF_REPO is set to a symlink of /repo,
so that evidence/ is not overwritten by a slowed-down run).
"""

import glob
import json
import os
import subprocess
import sys

from .common import VERIF_DIR


def props():
    return [json.loads(l) for l in open(os.path.join(VERIF_DIR, 'properties.jsonl'))]


def run(d, ids):
    os.makedirs(d, exist_ok=True)
    link = os.path.join(d, 'repo')
    if not os.path.exists(link):
        os.symlink('/repo', link)
    for p in props():
        if ids and p['id'] not in ids:
            continue
        env = dict(os.environ, VF_COV_DIR=d, VERIF_REPO=link)
        r = subprocess.run(['./check', p['id'], 'quick'], cwd=VERIF_DIR, env=env,
                           capture_output=True, text=True)
        print(p['id'], 'rc', r.returncode, (r.stdout.strip().splitlines() or [''])[-1][:200],
              flush=True)


def report(d, ids):
    import coverage
    out = {}
    for p in props():
        pid = p['id']
        if ids and pid not in ids:
            continue
        files = glob.glob(os.path.join(d, f'.cov.{pid}.*'))
        if not files:
            continue
        comb = os.path.join(d, f'combined.{pid}')
        cov = coverage.Coverage(data_file=comb, config_file=False)
        cov.combine(files, keep=True)
        cov.save()
        cov = coverage.Coverage(data_file=comb, config_file=False)
        cov.load()
        res = {}
        for f in p['anchors']['files']:
            path = os.path.join(d, 'repo', f)
            real = os.path.realpath(path)
            for cand in (path, real):
                try:
                    _, stmts, _, missing, mstr = cov.analysis2(cand)
                except Exception:
                    continue
                if len(missing) < len(stmts) or cand == real:
                    res[f] = {'stmts': len(stmts), 'missing': len(missing), 'lines': mstr}
                    break
        out[pid] = res
        print(f'== {pid}')
        for f, r in res.items():
            print(f"  {f}: {r['stmts'] - r['missing']}/{r['stmts']}  missing: {r['lines'][:1500]}")
    json.dump(out, open(os.path.join(d, 'report.json'), 'w'), indent=1)


if __name__ == '__main__':
    cmd, d = sys.argv[1], sys.argv[2]
    (run if cmd == 'run' else report)(d, set(sys.argv[3:]))
