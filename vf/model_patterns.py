"""Denotational reference semantics of value patterns (oracle of C13).

Does NOT import sc3.  Written from the SuperCollider pattern documentation
(Pseq, Pser, Pn, Pfin, Pdrop, Pstutter, Pclump, Pflatten, Pdiff, Pconst,
Pswitch, Pswitch1, Place, Ptuple, Pslide, Pseries, Pgeom, Pcollect, Pselect,
Preject, Pwrap, Pseed help files and "Understanding Streams, Patterns and
Events"), the property statement, and the few in-code notes of the port that
document a deliberate difference:

* argument order is the port's (``Plen(pattern, n)``, ``Pstutter(pattern, n)``,
  ``Pclump(pattern, n)``, ``Pconst(pattern, sum)``, ``Pdrop(pattern, n)``,
  ``Pslide(lst, length, step, start, wrap, repeats)``); this is signature, not
  meaning.
* ``Pif`` (funcpatterns.py comment): "there is no default value and the stream
  ends with the first raised StopStream" - the model ends the sequence as soon
  as the condition or the *selected* branch is exhausted.
* ``Ptuple`` yields Python tuples; comparison is modulo list/tuple.

An expression is an AST: a *node* is a tuple whose first element is the class
name; anything else (int, float, bool, list) is a literal.  The denotation of a
node is a Python generator (lazy sequence).  The two documented coercions are

* ``embed(x)``: a pattern is embedded in place (all its values); any other
  object is embedded as the single value itself;
* ``stream(x)``: a pattern gives its sequence; any other object is an infinite
  constant sequence (numbers as operands / numeric arguments).

Places where the documentation is silent or ambiguous are *not* decided by
the model; the generator (vf/c13_gen.py) stays away from them:

* ``offset`` of Pseq/Pser/Place outside ``0 <= offset < len(list)``;
* ``Pflatten`` of items nested deeper than ``n`` (sclang flattens n levels and
  then spreads, a literal reading of the help text spreads n levels);
* ``Pconst`` running totals exactly ``tolerance`` away from the target, and
  totals inside the tolerance window when the target is not a multiple of the
  tolerance (see pconst_zone: which sentence decides which edge);
* ``Pwrap`` / ``clip`` with mixed int receiver and float bounds (C15's matter);
* Pselect/Preject predicates that do not return a ``bool``.

Round 7b added Pwhile, Platch, Pprorate, Pproduct, Pwalk, Pgate, Ptrace,
Pvalue, decorator-made patterns ('Pgen') and dict items; the help-file sentences
they are written from are quoted at each function, undecided inputs raise
OutOfDomain (see _pwalk, _pgate, compose).

Every pull and every outer-loop iteration consumes fuel; running out of fuel
means the expression is unproductive (e.g. ``Pn(Pseq([..], 0), inf)``) and the
case is discarded by the caller, never judged.
"""

import itertools
import operator
from fractions import Fraction

INF = float('inf')


class OutOfFuel(Exception):
    pass


class OutOfDomain(Exception):
    """A value left the numeric domain the oracle speaks about (sclang
    integers are 32 bit; beyond 2**31 the documentation promises nothing and
    float conversions inside integer kernels stop being exact)."""


LIMIT = 2 ** 31


def _check(v):
    if isinstance(v, (int, float)) and not isinstance(v, bool):
        if v != v or v > LIMIT or v < -LIMIT:
            raise OutOfDomain(repr(v))
    elif isinstance(v, list):
        for i in v:
            _check(i)


class Ctx:
    def __init__(self, fuel=20000, leaves=None, inval=None, notes=None):
        self.fuel = fuel
        self.leaves = leaves      # callable (randspec, seed) -> list, for Pseed
        self.inval = inval        # the input value handed to every pull
        self.notes = notes        # dict: which numeric edges the denotation met
        self.decimal = False      # the expression has decimal float literals

    def tick(self, n=1):
        self.fuel -= n
        if self.fuel < 0:
            raise OutOfFuel

    def note(self, name):
        if self.notes is not None:
            self.notes[name] = self.notes.get(name, 0) + 1


class NoInvalCtx:
    """View of a context in which every pull is made without an input value
    (what a generator function pulling its arguments with next() does)."""
    inval = None

    def __init__(self, parent):
        self.parent = parent
        self.leaves = parent.leaves
        self.decimal = parent.decimal

    def tick(self, n=1):
        self.parent.tick(n)

    def note(self, name):
        self.parent.note(name)


def iv(inval):
    """Number carried by an input value (shared with the builder): None -> 0,
    a number -> itself, a dict -> its 'k' entry."""
    if inval is None:
        return 0
    if isinstance(inval, dict):
        return inval.get('k', 0)
    return inval


class Inval:
    """The input value of pull number j of one stream: constant, or changing
    from pull to pull (base + j*delta; a dict carries it under 'k')."""

    def __init__(self, base=None, delta=0, gate=None):
        # gate: for dict input values, the entry 'g' of pull j is
        # gate[j % len(gate)] (None = no such entry in that pull)
        self.base, self.delta = base, delta
        self.gate = list(gate) if gate and isinstance(base, dict) else None

    def at(self, j):
        if self.base is None:
            return None
        if isinstance(self.base, dict):
            d = {'k': self.base['k'] + j * self.delta}
            if self.gate:
                g = self.gate[j % len(self.gate)]
                if g is not None:
                    d['g'] = g
            return d
        return self.base + j * self.delta

    def varies(self):
        return self.base is not None and (
            self.delta != 0 or (self.gate is not None and len(set(map(repr, self.gate))) > 1))

    def __repr__(self):
        if self.gate:
            return f'Inval({self.base!r}, {self.delta!r}, gate={self.gate!r})'
        return f'Inval({self.base!r}, {self.delta!r})'


def isnode(x):
    return isinstance(x, tuple) and len(x) > 0 and isinstance(x[0], str)


def counter(n):
    return itertools.count() if n == INF else range(int(n))


def compose(x, c):
    """A dict is an event specification: as a stream element or embedded in
    place it is composed with the input value of the pull (a copy of the input
    dict updated with its entries; itself when there is no input value).  Any
    other input value is outside the documented domain."""
    if isinstance(x, dict):
        if c.inval is None:
            return x
        if isinstance(c.inval, dict):
            return {**c.inval, **x}
        raise OutOfDomain('dict item with a non-dict input value')
    return x


def embed(x, c):
    if isnode(x):
        yield from den(x, c)
    else:
        c.tick()
        yield compose(x, c)


def const(x, c):
    while True:
        c.tick()
        yield compose(x, c)


def stream(x, c):
    if isnode(x):
        return den(x, c)
    return const(x, c)


# ---- pure functions shared by name between generator, builder and model ----

COLLECT = {
    'dbl': lambda x: x * 2,
    'inc': lambda x: x + 1,
    'neg': lambda x: -x,
    'sq': lambda x: x * x,
    'half': lambda x: x / 2,
    'box': lambda x: [x],
    'ident': lambda x: x,
}

PRED = {
    'gt2': lambda x: x > 2,
    'even': lambda x: x % 2 == 0,
    'lt5': lambda x: x < 5,
    'nonneg': lambda x: x >= 0,
    'true': lambda x: True,
    'false': lambda x: False,
}


def _exact(*vals):
    """wrap, mod and Pconst are specified mathematically; the library and the
    model may evaluate different (equal) formulas, so their operands must be
    numbers on which both are exact: multiples of 2**-20 below 2**31."""
    for v in vals:
        if isinstance(v, float) and (v * 1048576.0) % 1.0 != 0.0:
            raise OutOfDomain(f'precision {v!r}')


def num_wrap(x, lo, hi):
    """wrap: integers wrap inside the closed range lo..hi, floats inside
    [lo, hi); values already inside are unchanged."""
    _exact(x, lo, hi)
    if all(isinstance(v, int) and not isinstance(v, bool) for v in (x, lo, hi)):
        return lo + (x - lo) % (hi - lo + 1)
    if lo <= x < hi:
        return x
    r = hi - lo
    return lo + (x - lo) % r


def num_mod(a, b):
    _exact(a, b)
    return a % b


def num_clip(x, lo, hi):
    # the result is a number of the receiver's kind (a float when any argument
    # is a float): matters downstream, integer and float wrap differ at hi
    r = max(min(x, hi), lo)
    if any(isinstance(v, float) for v in (x, lo, hi)):
        return float(r)
    return r


UNOPS = {
    'neg': operator.neg,
    'abs': abs,
    'squared': lambda x: x * x,
    'pos': operator.pos,
}

BINOPS = {
    'add': operator.add, 'sub': operator.sub, 'mul': operator.mul,
    'mod': num_mod,                 # positive moduli only (generator)
    'min': min, 'max': max,
    'lt': operator.lt, 'le': operator.le, 'gt': operator.gt,
    'ge': operator.ge, 'eq': operator.eq, 'ne': operator.ne,
    'truediv': operator.truediv,    # non-zero dyadic divisors only
    'absdif': lambda a, b: abs(a - b),
    'sumsqr': lambda a, b: a * a + b * b,
}

NAROPS = {
    'clip': num_clip,
    'blend': lambda a, b, f: a + f * (b - a),
    'wrap': num_wrap,
}


def flatten_levels(v, n):
    """sclang flatten(n); on the generated domain (nesting <= n) this is the
    complete flattening, which every reading of the help text gives."""
    out = []
    for item in v:
        if isinstance(item, list) and n > 0:
            out.extend(flatten_levels(item, n - 1))
        else:
            out.append(item)
    return out


# ---- the semantics ---------------------------------------------------------

def den(node, c):
    for v in SEM[node[0]](node, c):
        _check(v)
        yield v


def _pseq(node, c):
    _, items, repeats, offset = node
    size = len(items)
    for _ in counter(repeats):
        c.tick()
        for i in range(size):
            yield from embed(items[(i + offset) % size], c)


def _pser(node, c):
    _, items, repeats, offset = node
    size = len(items)
    for i in counter(repeats):
        c.tick()
        yield from embed(items[(i + offset) % size], c)


def _pn(node, c):
    _, x, repeats = node
    for _ in counter(repeats):
        c.tick()
        yield from embed(x, c)


def _plen(node, c):
    _, x, n = node
    s = stream(x, c)
    for _ in range(n):
        try:
            v = next(s)
        except StopIteration:
            return
        yield v


def _pdrop(node, c):
    _, x, n = node
    s = stream(x, c)
    for _ in range(n):
        try:
            next(s)
        except StopIteration:
            return
    yield from s


def _pstutter(node, c):
    _, x, n = node
    s = stream(x, c)
    ns = stream(n, c)
    for v in s:
        c.tick()
        try:
            k = next(ns)
        except StopIteration:
            return
        for _ in range(abs(k)):
            yield v


def _pclump(node, c):
    _, x, n = node
    s = stream(x, c)
    ns = stream(n, c)
    while True:
        c.tick()
        try:
            k = next(ns)
        except StopIteration:
            return
        lst = []
        for _ in range(int(k)):
            try:
                lst.append(next(s))
            except StopIteration:
                if lst:
                    yield lst
                return
        yield lst


def _pflatten(node, c):
    _, x, n = node
    s = stream(x, c)
    ns = stream(n, c)
    for v in s:
        c.tick()
        try:
            k = next(ns)
        except StopIteration:
            return
        if isinstance(v, list):
            for item in flatten_levels(v, k):
                yield item
        else:
            yield v


def _pdiff(node, c):
    _, x = node
    s = stream(x, c)
    try:
        prev = next(s)
    except StopIteration:
        return
    for v in s:
        yield v - prev
        prev = v


DEFAULT_TOLERANCE = 0.001      # the port's signature (and sclang's)
GUARD = Fraction(1, 10 ** 9)


def pconst_zone(t, total, tol):
    """Where the running total t lies with respect to the constraint, and with
    it which sentence of the documentation decides what Pconst does there.

    Pconst help: "Embeds elements of the pattern into the stream until the sum
    comes close enough to sum.  At that point, the difference between the
    specified sum and the actual running sum is embedded."  How close is close
    enough is the argument `tolerance` (default 0.001; the port keeps name and
    default, and the same argument of Pdur - "Was Pfindur" - "until the
    duration comes close enough to dur").  /repo has no doc string for these
    classes, so those sentences are all there is.  With exact rational
    arithmetic on the given numbers, d = sum - t:

    'reached'  d <= 0.  The total has come up to the sum (or would pass it):
               "at that point" the difference is embedded and the pattern
               ends.  Decided by the help sentence under every reading of
               "close enough".
    'outside'  d > tolerance.  Not close enough under any reading in which
               `tolerance` bounds the distance: the value is handed on.
    'within'   0 < d < tolerance and sum is a multiple of tolerance (to one
               part in 1e9: users write decimals).  Closer to the sum than
               the tolerance: close enough, the pattern ends here.  This is
               the whole window, both halves (sum - tol, sum - tol/2] and
               (sum - tol/2, sum).
    'border'   d == tolerance to one part in 1e9: "close enough" does not say
               whether the border belongs to the window.  NOT decided.
    'off-grid' 0 < d < tolerance but sum is not a multiple of tolerance: the
               port (like sclang) compares the total quantised to multiples
               of tolerance, which on such sums is a narrower window than the
               distance; the help text does not speak about that.  NOT decided.
    tolerance == 0: nothing but 'reached' is close enough.

    The guard of 1e-9 (relative to the larger of |sum|, |t|, tolerance) around
    the border is there because the library decides with IEEE doubles
    (relative error 1e-16 per operation, three operations) and the model with
    rationals."""
    T, S, Q = Fraction(t), Fraction(total), Fraction(tol)
    if Q < 0:
        raise OutOfDomain('negative tolerance')
    d = S - T
    if d <= 0:
        return 'reached'
    if Q == 0:
        return 'outside'
    g = GUARD * max(abs(S), abs(T), Q)
    if d > Q + g:
        return 'outside'
    if d >= Q - g:
        return 'border'
    k = S / Q
    if abs(k - round(k)) <= GUARD * max(1, abs(k)) and round(k) >= 1:
        return 'within'
    return 'off-grid'


def _pconst(node, c):
    x, total = node[1], node[2]
    tol = node[3] if len(node) > 3 else DEFAULT_TOLERANCE
    s = stream(x, c)
    acc = 0
    for v in s:
        if isinstance(v, bool) or not isinstance(v, (int, float)):
            raise TypeError('Pconst of a non-number')
        if not c.decimal:
            _exact(v)               # (values are compared exactly: see _exact)
        nxt = acc + v
        zone = pconst_zone(nxt, total, tol)
        if zone in ('border', 'off-grid'):
            c.note('pconst_total_undecided_' + zone)
            raise OutOfDomain('Pconst: running total in the undecided zone ' + zone)
        if zone == 'within':
            half = Fraction(total) - Fraction(nxt) > Fraction(tol) / 2
            c.note('pconst_total_within_tolerance_' +
                   ('lower_half' if half else 'upper_half'))
        elif zone == 'reached':
            c.note('pconst_total_equal_to_sum' if nxt == total
                   else 'pconst_total_beyond_sum')
        elif Fraction(total) - Fraction(nxt) <= 2 * Fraction(tol):
            c.note('pconst_total_just_outside_tolerance')
        if zone != 'outside':
            yield total - acc
            return
        acc = nxt
        yield v
    # source ended before the sum was reached: the remainder completes it
    c.note('pconst_source_ended_first')
    yield total - acc


def _pswitch(node, c):
    _, items, which = node
    size = len(items)
    for idx in stream(which, c):
        c.tick()
        yield from embed(items[idx % size], c)


def _pswitch1(node, c):
    _, items, which = node
    streams = [stream(i, c) for i in items]
    size = len(items)
    for idx in stream(which, c):
        c.tick()
        try:
            v = next(streams[idx % size])
        except StopIteration:
            return
        yield v


def _place(node, c):
    _, items, repeats, offset = node
    size = len(items)
    for j in counter(repeats):
        c.tick()
        for i in range(size):
            item = items[(i + offset) % size]
            if isinstance(item, list):
                item = item[j % len(item)]
            yield from embed(item, c)


def _placep(node, c):
    # Ppatlace: one value from each stream in turn; a stream that has ended is
    # skipped (it stays ended); the pattern ends after `repeats` passes or
    # with the first pass in which no stream gave a value.  Items that are
    # not patterns are constant streams.
    _, items, repeats, offset = node
    size = len(items)
    streams = [stream(items[(i + offset) % size], c) for i in range(size)]
    alive = [True] * size
    for _ in counter(repeats):
        c.tick()
        got = 0
        for i in range(size):
            if not alive[i]:
                continue
            try:
                v = next(streams[i])
            except StopIteration:
                alive[i] = False
                continue
            got += 1
            yield v
        if got == 0:
            return


def _pfuncn(node, c):
    # Pfuncn(func, repeats): the function's value, repeats times
    _, value, repeats = node
    for _ in counter(repeats):
        c.tick()
        yield value


def _pfunc(node, c):
    # Pfunc(func): the function's value for ever (the function never ends it)
    _, value = node
    while True:
        c.tick()
        yield value


# -- the same with functions of the input value: every pull is made with the
# same input value (c.inval), the functions see exactly that value

def _pfuncn_i(node, c):
    _, a, b, repeats = node
    for _ in counter(repeats):
        c.tick()
        yield iv(c.inval) * a + b


def _prout_i(node, c):
    _, a, values = node
    for v in values:
        c.tick()
        yield iv(c.inval) * a + v


def _pcollect_i(node, c):
    # Pcollect(func(value, inval), pattern)
    _, a, x = node
    for v in stream(x, c):
        yield v + iv(c.inval) * a


def _plazy_i(node, c):
    # Plazy(func(inval) -> pattern)
    # the function is evaluated once, with the input value of the pull that
    # starts the embedding; the pattern it returns is then fixed
    _, a, values = node
    k = iv(c.inval) * a
    for v in values:
        c.tick()
        yield v + k


def _plazy(node, c):
    # Plazy(func): the pattern the function returns, embedded in place
    _, sub = node
    yield from embed(sub, c)


def _prout(node, c):
    # Prout(generator function): the values it yields
    _, values = node
    for v in values:
        c.tick()
        yield v


def _ptuple(node, c):
    _, items, repeats = node
    for _ in counter(repeats):
        c.tick()
        streams = [stream(i, c) for i in items]
        while True:
            c.tick()
            tpl = []
            done = False
            for s in streams:
                try:
                    tpl.append(next(s))
                except StopIteration:
                    done = True
                    break
            if done:
                break
            yield tpl


def _pslide(node, c):
    _, items, length, step, start, wrap, repeats = node
    size = len(items)
    pos = start
    ls = stream(length, c)
    ss = stream(step, c)
    for _ in counter(repeats):
        c.tick()
        try:
            n = next(ls)
        except StopIteration:
            return
        for j in range(n):
            k = pos + j
            if wrap:
                yield from embed(items[k % size], c)
            else:
                # "If false, the pattern stops if it goes outside the list bounds"
                if 0 <= k < size:
                    yield from embed(items[k], c)
                else:
                    return
        try:
            pos += next(ss)
        except StopIteration:
            return


# an argument the expression leaves out; the denotation uses the default the
# port's signature documents: Pseries(start=0.0, step=1.0, length=inf),
# Pgeom(start=1.0, grow=1.0, length=inf)
OMIT = 'default'
DEFAULTS = {'Pseries': (0.0, 1.0, INF), 'Pgeom': (1.0, 1.0, INF)}


def _with_defaults(node):
    d = DEFAULTS[node[0]]
    return tuple(d[i] if isinstance(a, str) and a == OMIT else a
                 for i, a in enumerate(node[1:]))


def _pseries(node, c):
    start, step, length = _with_defaults(node)
    cur = start
    ss = stream(step, c)
    for _ in counter(length):
        c.tick()
        try:
            st = next(ss)
        except StopIteration:
            return
        out = cur
        cur = cur + st
        yield out


def _pgeom(node, c):
    start, grow, length = _with_defaults(node)
    cur = start
    gs = stream(grow, c)
    for _ in counter(length):
        c.tick()
        try:
            g = next(gs)
        except StopIteration:
            return
        out = cur
        cur = cur * g
        yield out


def _pcollect(node, c):
    _, fname, x = node
    f = COLLECT[fname]
    for v in stream(x, c):
        yield f(v)


def _pselect(node, c):
    _, fname, x = node
    f = PRED[fname]
    for v in stream(x, c):
        c.tick()
        if f(v):
            yield v


def _preject(node, c):
    _, fname, x = node
    f = PRED[fname]
    for v in stream(x, c):
        c.tick()
        if not f(v):
            yield v


def _pif(node, c):
    _, cond, a, b = node
    cs = stream(cond, c)
    as_ = stream(a, c)
    bs = stream(b, c)
    for t in cs:
        c.tick()
        try:
            v = next(as_) if t else next(bs)
        except StopIteration:
            return
        yield v


def _pwrap(node, c):
    _, x, lo, hi = node
    s = stream(x, c)
    los = stream(lo, c)
    his = stream(hi, c)
    while True:
        c.tick()
        try:
            l = next(los)
            h = next(his)
            v = next(s)
        except StopIteration:
            return
        yield num_wrap(v, l, h)


def _pseed(node, c):
    # Pseed(seed or pattern of seeds, random pattern): for every seed the
    # enclosed pattern is embedded once with the generator reseeded; the
    # seeded sequence itself is opaque (supplied by c.leaves).
    _, seed, rnd = node
    for s in stream(seed, c):
        c.tick()
        for v in c.leaves(rnd, s):
            c.tick()
            yield v


def _punop(node, c):
    _, op, form, a = node
    f = UNOPS[op]
    for v in stream(a, c):
        yield f(v)


def _pbinop(node, c):
    _, op, form, a, b = node
    f = BINOPS[op]
    sa = stream(a, c)
    sb = stream(b, c)
    while True:
        try:
            x = next(sa)
            y = next(sb)
        except StopIteration:
            return
        yield f(x, y)


def _pnarop(node, c):
    _, op, form, a, *args = node
    f = NAROPS[op]
    sa = stream(a, c)
    ss = [stream(x, c) for x in args]
    while True:
        try:
            x = next(sa)
            ys = [next(s) for s in ss]
        except StopIteration:
            return
        yield f(x, *ys)



# ---- classes added with the coverage-driven widening (round 7b) -------------

def _pwhile(node, c):
    # Pwhile(func, pattern): "repeatedly embed pattern as long as func returns
    # true"; func is evaluated with the input value current at that moment
    # (first pull; later the pull that finds the pattern exhausted)
    _, op, t, x = node
    while WHILE[op](iv(c.inval), t):
        c.tick()
        yield from embed(x, c)


WHILE = {
    'lt': lambda k, t: k < t,
    'ge': lambda k, t: k >= t,
    'always': lambda k, t: True,
    'never': lambda k, t: False,
}


def _platch(node, c):
    # Platch (Pclutch): "if trig is true it returns the next value from the
    # pattern, otherwise the last value is repeated" (the first value is always
    # taken); ends with the trigger stream or when a new value is needed and
    # the pattern has none
    _, x, trig = node
    s = stream(x, c)
    ts = stream(trig, c)
    undefined = last = object()
    for t in ts:
        c.tick()
        if t or last is undefined:
            try:
                last = next(s)
            except StopIteration:
                return
        yield last


def _pprorate(node, c):
    # Pprorate (Prorate): "divide stream proportionally": a number p gives the
    # pair p * v, (1 - p) * v; a list gives one part per element
    _, x, prop = node
    s = stream(x, c)
    ps = stream(prop, c)
    for v in s:
        c.tick()
        try:
            p = next(ps)
        except StopIteration:
            return
        if isinstance(p, (list, tuple)):
            for el in p:
                yield el * v
        else:
            yield p * v
            yield (1 - p) * v


PRODUCT = {
    None: lambda vals: list(vals),          # the default function: the values
    'list': lambda vals: list(vals),
    'sum': lambda vals: sum(vals),
    'dot': lambda vals: sum((i + 1) * v for i, v in enumerate(vals)),
}


def _pproduct(node, c):
    # Pproduct (PstepNfunc): "the stream of pattern n+1 is iterated for every
    # value of the stream of pattern n"; func gets the list of current values
    _, fname, items = node
    f = PRODUCT[fname]
    last = len(items) - 1

    def rec(level, vals):
        for v in stream(items[level], c):
            c.tick()
            if level < last:
                yield from rec(level + 1, vals + [v])
            else:
                yield f(vals + [v])
    yield from rec(0, [])


def _pwalk(node, c):
    # Pwalk(list, steps, directions, start): the item at the index is embedded,
    # then the index moves by step * direction; when that leaves the list the
    # next direction is drawn (1: the step as it is, -1: reversed) and the
    # index wraps around.  Not decided here (OutOfDomain): a boundary crossed
    # with a negative step value ("as it is" and |step| * direction differ),
    # an exhausted step or direction pattern (length of the walk / fallback).
    _, items, steps, dirs, start = node
    size = len(items)
    idx = start
    ss = stream(steps, c)
    ds = stream(1 if isinstance(dirs, str) else dirs, c)
    try:
        d = next(ds)
    except StopIteration:
        raise OutOfDomain('Pwalk: empty direction pattern')
    while True:
        c.tick()
        try:
            raw = next(ss)
        except StopIteration:
            raise OutOfDomain('Pwalk: step pattern ended')
        if type(raw) is not int or d not in (1, -1) or type(d) is bool:
            raise OutOfDomain('Pwalk: step not an integer / direction not 1 or -1')
        yield from embed(items[idx], c)
        s = raw * d
        if idx + s < 0 or idx + s >= size:
            if raw < 0:
                raise OutOfDomain('Pwalk: boundary crossed with a negative step value')
            try:
                d = next(ds)
            except StopIteration:
                raise OutOfDomain('Pwalk: direction pattern ended')
            s = abs(s) * (1 if d > 0 else -1)
        idx = (idx + s) % size


def _pgate(node, c):
    # Pgate(pattern, repeats, key): "advances its subpattern whenever key is
    # true" in the input event, otherwise the last value is returned again
    # (embedded in place each time); every repeat starts with a new value
    _, x, repeats, key = node
    if not isinstance(c.inval, dict):
        raise OutOfDomain('Pgate without an input event')
    for _ in counter(repeats):
        c.tick()
        s = stream(x, c)
        undefined = out = object()
        while True:
            if not isinstance(c.inval, dict):
                raise OutOfDomain('Pgate without an input event')
            if c.inval.get(key, False) is True or out is undefined:
                try:
                    out = next(s)
                except StopIteration:
                    break
            yield compose(out, c)


def _ptrace(node, c):
    # Ptrace / Pattern.trace: prints the values, which pass unchanged
    _, form, x = node
    yield from stream(x, c)


def _pvalue(node, c):
    # Pvalue(value): a pattern of the value - the value embedded in place
    _, x = node
    yield from embed(x, c)


def _pgen(node, c):
    # a pattern made with the `pattern` decorator from the generator function
    # vf.c13_build.gfunc_mix: n values a * 2 + b, the arguments pulled with
    # next() - i.e. without input value - ending with the shorter one
    _, style, a, b, n = node
    sub = NoInvalCtx(c)
    sa, sb = stream(a, sub), stream(b, sub)
    for _ in range(n):
        c.tick()
        try:
            x = next(sa)
            y = next(sb)
        except StopIteration:
            return
        yield x * 2 + y


SEM = {
    'Pseq': _pseq, 'Pser': _pser, 'Pn': _pn, 'Plen': _plen, 'Pdrop': _pdrop,
    'Pstutter': _pstutter, 'Pclump': _pclump, 'Pflatten': _pflatten,
    'Pdiff': _pdiff, 'Pconst': _pconst, 'Pswitch': _pswitch,
    'Pswitch1': _pswitch1, 'Place': _place, 'Placep': _placep, 'Ptuple': _ptuple,
    'Pslide': _pslide, 'Pseries': _pseries, 'Pgeom': _pgeom,
    'Pcollect': _pcollect, 'Pselect': _pselect, 'Preject': _preject,
    'Pif': _pif, 'Pwrap': _pwrap, 'Pseed': _pseed,
    'Punop': _punop, 'Pbinop': _pbinop, 'Pnarop': _pnarop,
    'Pfuncn': _pfuncn, 'Pfunc': _pfunc, 'Plazy': _plazy, 'Prout': _prout,
    'PfuncnI': _pfuncn_i, 'ProutI': _prout_i, 'PcollectI': _pcollect_i,
    'PlazyI': _plazy_i,
    'Pwhile': _pwhile, 'Platch': _platch, 'Pprorate': _pprorate,
    'Pproduct': _pproduct, 'Pwalk': _pwalk, 'Pgate': _pgate, 'Ptrace': _ptrace,
    'Pvalue': _pvalue, 'Pgen': _pgen,
}


def take(node, n, fuel=20000, leaves=None, inval=None, notes=None):
    """At most n values of the denotation and whether the sequence ended
    within those n pulls.  Raises OutOfFuel for unproductive expressions.
    inval: None, a constant, or an Inval schedule - the value produced by pull
    j is computed with the input value of pull j (everything a pattern pulls
    from its sources during that pull sees the same input value)."""
    sched = inval if isinstance(inval, Inval) else Inval(inval, 0)
    c = Ctx(fuel, leaves, sched.at(0), notes)
    c.decimal = has_decimal(node)
    g = den(node, c)
    out = []
    for j in range(n):
        c.inval = sched.at(j)
        try:
            out.append(next(g))
        except StopIteration:
            return out, True
    return out, False


def has_decimal(x):
    """The expression has a float literal that is not a multiple of 2**-20
    (0.1, 0.7493, the default tolerance is not a literal): model and library
    then round, possibly in different (mathematically equal) formulas, and
    values are compared to one part in 1e9 instead of exactly."""
    if isinstance(x, float):
        return x == x and abs(x) != INF and (x * 1048576.0) % 1.0 != 0.0
    if isinstance(x, (list, tuple)):
        return any(has_decimal(i) for i in x)
    if isinstance(x, dict):
        return any(has_decimal(i) for i in x.values())
    return False


REL = 1e-9


def norm(v):
    """Compare modulo list/tuple and int/float representation."""
    if isinstance(v, (list, tuple)):
        return [norm(i) for i in v]
    return v


def same_kind(a, b):
    """int against int, float against float (bool is its own kind)."""
    if isinstance(a, (list, tuple)) and isinstance(b, (list, tuple)):
        return len(a) == len(b) and all(same_kind(x, y) for x, y in zip(a, b))
    num = (int, float)
    if isinstance(a, num) and isinstance(b, num):
        return type(a) is type(b)
    return True


# operations whose result kind (int or float) the documentation does not fix:
# the clip / wrap / mod kernels choose it from their arguments' kinds
KIND_LOOSE = {('Pwrap',), ('Pnarop', 'clip'), ('Pnarop', 'wrap'), ('Pbinop', 'mod')}


def kind_is_fixed(node):
    """True when every number the expression yields has a documented kind:
    leaves and defaults as written / as in the port's signatures, Python
    arithmetic in between."""
    for n in walk(node):
        if (n[0],) in KIND_LOOSE or (
                len(n) > 1 and isinstance(n[1], str) and (n[0], n[1]) in KIND_LOOSE):
            return False
    return True


def same_value(a, b, rel=0.0):
    """rel: only for expressions with decimal (non-dyadic) float literals,
    where a series may legitimately be computed in closed form or by
    accumulation: |a - b| <= rel * max(1, |a|, |b|)."""
    if isinstance(a, (list, tuple)) or isinstance(b, (list, tuple)):
        if not (isinstance(a, (list, tuple)) and isinstance(b, (list, tuple))):
            return False
        return len(a) == len(b) and all(same_value(x, y, rel) for x, y in zip(a, b))
    if isinstance(a, float) and isinstance(b, float) and a != a and b != b:
        return True
    if rel and isinstance(a, (int, float)) and isinstance(b, (int, float)) \
            and not isinstance(a, bool) and not isinstance(b, bool):
        try:
            return abs(a - b) <= rel * max(1.0, abs(a), abs(b))
        except Exception:
            return False
    try:
        return bool(a == b)
    except Exception:
        return False


def subnodes(node):
    """Direct child nodes (patterns) of a node."""
    out = []
    if node[0] == 'Pseed':          # the random spec is an opaque leaf
        return [node[1]] if isnode(node[1]) else []
    if node[0] in ('Prout', 'ProutI', 'PlazyI'):
        return []
    for x in node[1:]:
        if isnode(x):
            out.append(x)
        elif isinstance(x, list):
            out.extend(i for i in x if isnode(i))
    return out


def walk(node):
    yield node
    for s in subnodes(node):
        yield from walk(s)
