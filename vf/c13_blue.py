"""C13, second sentence: patterns are immutable blueprints - for EVERY Pattern
subclass the library defines.

The classes are discovered at run time (all modules of sc3.seq.patterns plus
sc3.seq.pattern); each concrete class is instantiated with canonical and with
generated constructor arguments (sub-patterns come from the typed expression
generator vf/c13_gen.py, random classes are wrapped in Pseed) and the clause
is observed without any denotational model:

 * a second fresh stream gives the same sequence as the first one;
 * 2-3 streams of the one pattern object (made with stream(), iter(), the
   embedding protocol) consumed alternately under a random schedule each give
   that sequence;
 * a stream that was partly consumed and reset() gives it again;
 * the pattern re-embedded through Pn(p, 2) and Pseq([p, p]) gives it twice
   (a prefix of it twice when it does not end: Plen(p, k));
 * three OS threads, each consuming its own stream of the one pattern object
   at the same time, each get it;
 * a deep snapshot of the pattern object graph (vars() of every pattern node,
   lists, dicts - i.e. also the argument objects the caller handed in) is the
   same before and after all of that.

Input values: one schedule per instance (None, a constant dict, or - Pgate,
Pkey, Pn with key - a dict changing with the pull index; then the re-embedding
check, whose second copy would see other input values, is left out).  Time
patterns (Ptime, Pstep, Pseg) read the logical time: the harness sets the NRT
logical time before every pull to base + j * 0.25 with a different dyadic base
per stream, so equal sequences are required exactly where the documentation
promises them ("relative time from the moment of embedding").  Pmono needs a
playing EventStreamPlayer: its streams are pulled inside a player whose
_play_and_delta records the event instead of playing it.

A class without a recipe makes the run INCONCLUSIVE (a class added to the
library must get a recipe).  An instance whose reference stream raises is only
required to raise the same way in every stream.
"""

import copy
import sys
import threading

from vf.common import iter_cases, case_rng, h64, short_tb

N = 40
DT = 0.25
INF = float('inf')


# ---------------------------------------------------------------------------
# discovery

def library():
    import importlib
    import pkgutil
    import sc3.seq.patterns as pk
    from sc3.seq import pattern as ptt
    mods = {}
    for mi in pkgutil.iter_modules(pk.__path__):
        mods[mi.name] = importlib.import_module(f'sc3.seq.patterns.{mi.name}')
    return ptt, mods


def discover():
    """(concrete classes, abstract classes) - Pattern subclasses defined by the
    library (not the harness' own subclasses, not decorator-made ones)."""
    ptt, mods = library()
    Pattern = ptt.Pattern
    base_streams = {Pattern.__stream__}
    for m in mods.values():
        for name in ('EventPattern', 'ValuePattern'):
            c = getattr(m, name, None)
            if c is not None and '__stream__' in vars(c):
                base_streams.add(vars(c)['__stream__'])
    seen, concrete, abstract = set(), [], []

    def walk(c):
        for s in c.__subclasses__():
            if s in seen:
                continue
            seen.add(s)
            walk(s)
            if not s.__module__.startswith('sc3.') or hasattr(s, '_gfunc'):
                continue
            if s.__embed__ is Pattern.__embed__ and s.__stream__ in base_streams:
                abstract.append(s)
            else:
                concrete.append(s)
    walk(Pattern)
    key = lambda c: (c.__module__, c.__name__)
    return sorted(concrete, key=key), sorted(abstract, key=key)


# ---------------------------------------------------------------------------
# instances

class Inst:
    def __init__(self, pat, desc, sched=None, varying=False, timed=False,
                 player=False, drop=(), cls=None):
        from vf import model_patterns as mp
        self.pat, self.desc = pat, desc
        self.sched = sched if sched is not None else mp.Inval(None, 0)
        self.varying = varying          # input values depend on the pull index
        self.timed = timed
        self.player = player
        self.drop = frozenset(drop)     # event keys that are fresh per stream
        self.cls = cls
        self.node = None                # the expression (generated instances)


class Skip(Exception):
    pass


class Maker:
    """Helpers shared by the recipes: sub-patterns from the expression
    generator (checked productive by the model - never used as an oracle
    here), literals, seeds."""

    def __init__(self, rng, canonical):
        from vf import c13_build as cb
        self.r = rng
        self.canonical = canonical
        self.m = cb.mods()
        self.texts = []

    # -- expression generator ------------------------------------------------
    def node(self, make, n=N, inval=None, finite=None):
        """AST from make(gen) that the model finds productive (and, if asked,
        finite / infinite)."""
        from vf import model_patterns as mp, c13_gen as gen
        from vf.props import C13
        for _ in range(30):
            g = gen.Gen(self.r)
            g.noinval = 0 if (inval is not None and inval.gate) else 1
            try:
                nd = make(g)
                if C13.zero_walk(nd):
                    continue
                exp, ended = mp.take(nd, n, leaves=self.leaves, inval=inval)
            except (mp.OutOfFuel, mp.OutOfDomain, C13.LeafBroken):
                continue
            except Exception:
                continue
            if finite is True and not ended:
                continue
            if finite is False and ended:
                continue
            return nd
        raise Skip('no productive expression')

    def sub(self, kind='num', d=2, finite=None, n=N):
        """(built pattern, text) for a generated sub-expression."""
        from vf import c13_gen as gen, c13_build as cb
        if self.canonical:
            d = 1
        nd = self.node(lambda g: g.g(g.subkind(kind), d), n, None, finite)
        return cb.build(nd), gen.show(nd)

    def num(self, kind='num'):
        from vf import c13_gen as gen
        return gen.Gen(self.r).lit(kind)

    def seed(self):
        lp = self.m['lp']
        r = self.r
        if r.random() < 0.7:
            s = [r.randrange(10 ** 6)]
            return lp.Pseq(list(s), 1), f'Pseq({s}, 1)'
        s = r.randrange(10 ** 6)
        return s, repr(s)


def _leaves_stub():
    # the generator's random leaves need the seeded runs of the real library
    from vf.props import C13

    class _Acc:
        def count(self, *a):
            pass

        def violation(self, *a):
            pass
    lv = C13.Leaves(_Acc())
    lv.case = -1
    return lv


# ---------------------------------------------------------------------------
# recipes: name -> function(Maker) -> Inst

AST = ['Pseq', 'Pser', 'Place', 'Placep', 'Pn', 'Plen', 'Pdrop', 'Pstutter',
       'Pswitch', 'Pswitch1', 'Pslide', 'Pwalk', 'Platch', 'Pwhile', 'Ptrace',
       'Pvalue', 'Pseries', 'Pgeom', 'Pdiff', 'Pconst', 'Pwrap', 'Pcollect',
       'Pselect', 'Preject', 'Pif', 'Punop', 'Pbinop', 'Pnarop', 'Pfuncn',
       'Prout', 'Pfunc', 'Plazy', 'Pprorate', 'Pproduct', 'Pclump', 'Pflatten',
       'Ptuple', 'Pseed']


def ast_recipe(name):
    def recipe(mk):
        from vf import c13_gen as gen, c13_build as cb, model_patterns as mp
        r = mk.r
        kind = {'Pclump': 'list1', 'Ptuple': 'tup', 'Pflatten': 'num'}.get(
            name, r.choice(['int', 'flt', 'num']))
        if name in gen.POLY + gen.POLY2 and r.random() < 0.3:
            kind = r.choice(['list1', 'bool', 'evt', 'tup'])
        d = 1 if mk.canonical else r.choice([1, 2, 2, 3])
        base = r.choice([None, None, {'k': 1}]) if name != 'Pfunc' else None
        sched = mp.Inval(base, 0)

        def make(g):
            return getattr(g, 'mk_' + name)(kind, d)
        nd = mk.node(make, N, sched)
        inst = Inst(cb.build(nd), gen.show(nd), sched)
        inst.node = nd
        return inst
    return recipe


def _pgate(mk):
    from vf import c13_gen as gen, c13_build as cb, model_patterns as mp
    r = mk.r
    if mk.canonical or r.random() < 0.4:
        sched = mp.Inval({'k': 1}, 0, [r.choice([True, False, None])])
        varying = False
    else:
        sched = mp.Inval({'k': 1}, r.choice([0, 1]),
                         [r.choice([True, True, False, None])
                          for _ in range(r.randint(2, 6))])
        varying = True
    nd = mk.node(lambda g: g.mk_Pgate(r.choice(['int', 'num', 'evt', 'list1']),
                                      r.choice([1, 2])), N, sched)
    return Inst(cb.build(nd), gen.show(nd), sched, varying)


def _pn_key(mk):
    """Pn(pattern, repeats, key) sets the key in the input event"""
    from vf import model_patterns as mp
    fp = mk.m['fp']
    p, t = mk.sub('num', 2, finite=True)
    reps = mk.r.choice([1, 2, 3])
    return Inst(fp.Pn(p, reps, 'g'), f"Pn({t}, {reps}, 'g')", mp.Inval({'k': 2}, 0))


def _rand_list(name):
    def recipe(mk):
        r = mk.r
        lp, fp = mk.m['lp'], mk.m['fp']
        items, texts = [], []
        for _ in range(1 if mk.canonical else r.randint(1, 5)):
            if r.random() < 0.3 and not mk.canonical:
                p, t = mk.sub('num', 1, finite=True)
            else:
                p = mk.num('num')
                t = repr(p)
            items.append(p)
            texts.append(t)
        reps = r.choice([1, 2, 5, INF]) if not mk.canonical else 3
        if name == 'Pwrand':
            w = [r.choice([0, 1, 2, 0.5]) for _ in items]
            w[r.randrange(len(w))] = 1
            inner = lp.Pwrand(items, w if r.random() < 0.8 else None, reps)
            t = f"Pwrand([{', '.join(texts)}], {w}, {reps})"
        else:
            inner = getattr(lp, name)(items, reps) if not mk.canonical \
                else getattr(lp, name)(items)
            t = f"{name}([{', '.join(texts)}], {reps})"
        s, st = mk.seed()
        return Inst(fp.Pseed(s, inner), f'Pseed({st}, {t})', cls=name)
    return recipe


def _rand_value(name):
    def recipe(mk):
        r = mk.r
        lp, fp, vp = mk.m['lp'], mk.m['fp'], mk.m['vp']

        def arg(vals):
            """a number or a pattern of numbers"""
            if not mk.canonical and r.random() < 0.3:
                xs = [r.choice(vals) for _ in range(r.randint(1, 3))]
                reps = r.choice([INF, INF, 4])
                return lp.Pseq(list(xs), reps), f'Pseq({xs}, {reps})'
            v = r.choice(vals)
            return v, repr(v)
        n = r.choice([1, 3, 8, INF])
        if mk.canonical:
            inner, t = getattr(vp, name)() if name != 'Pprob' else \
                vp.Pprob([0, 1, 2, 1]), f'{name}()'
        elif name in ('Pwhite', 'Plprand', 'Phprand', 'Pmeanrand', 'Pexprand'):
            los = [0.5, 1, 2] if name == 'Pexprand' else [-1.0, 0, 0.5, -3]
            his = [3, 4.5, 8]
            (lo, tl), (hi, th) = arg(los), arg(his)
            inner, t = getattr(vp, name)(lo, hi, n), f'{name}({tl}, {th}, {n})'
        elif name in ('Pbrown', 'Pgbrown'):
            (lo, tl), (hi, th), (st, ts) = arg([0.5, 1.0]), arg([2.0, 8.0]), \
                arg([0.125, 0.5])
            inner, t = getattr(vp, name)(lo, hi, st, n), f'{name}({tl}, {th}, {ts}, {n})'
        elif name == 'Pprob':
            dist = [r.choice([0, 1, 2, 0.5]) for _ in range(r.randint(2, 6))] + [1]
            (lo, tl), (hi, th) = arg([-1.0, 0]), arg([1, 2.5])
            size = r.choice([None, 16, 100])
            inner = vp.Pprob(dist, lo, hi, size, n)
            t = f'Pprob({dist}, {tl}, {th}, {size}, {n})'
        elif name == 'Pbeta':
            (lo, tl), (hi, th) = arg([-1.0, 0]), arg([1, 2.5])
            (p1, t1), (p2, t2) = arg([1, 0.5, 2]), arg([1, 0.25, 3])
            inner, t = vp.Pbeta(lo, hi, p1, p2, n), f'Pbeta({tl}, {th}, {t1}, {t2}, {n})'
        elif name in ('Pcauchy', 'Pgauss'):
            (a, ta), (b, tb) = arg([0.0, -2.0, 1]), arg([1.0, 0.25, 2])
            inner, t = getattr(vp, name)(a, b, n), f'{name}({ta}, {tb}, {n})'
        elif name == 'Ppoisson':
            (a, ta) = arg([0.5, 1, 2, 4])
            inner, t = vp.Ppoisson(a, n), f'Ppoisson({ta}, {n})'
        else:
            raise Skip(name)
        s, st = mk.seed()
        return Inst(fp.Pseed(s, inner), f'Pseed({st}, {t})', cls=name)
    return recipe


def _pfsm(mk):
    from vf import c13_gen as gen
    lp, fp = mk.m['lp'], mk.m['fp']
    g = gen.Gen(mk.r)
    spec = g.fsm_spec(gen.INT_LITS if mk.r.random() < 0.5 else gen.FLT_LITS)
    lst = copy.deepcopy(spec[1])
    if not mk.canonical and mk.r.random() < 0.4:
        # an item that is a pattern (embedded in place)
        p, t = mk.sub('num', 1, finite=True)
        lst[1] = p
    s, st = mk.seed()
    return Inst(fp.Pseed(s, lp.Pfsm(lst, spec[2])), f'Pseed({st}, Pfsm({lst}, {spec[2]}))',
                cls='Pfsm')


def _pdfsm(mk):
    r = mk.r
    lp = mk.m['lp']
    ns = 1 if mk.canonical else r.randint(1, 3)
    sigs = [0, 1, 2]
    nsig = r.randint(1, 8)
    sig = lp.Pseq([r.choice(sigs) for _ in range(nsig)], r.choice([1, 2]))
    states = []
    for _ in range(ns):
        st = {}
        for k in r.sample(sigs, r.randint(0, 3)):
            st[k] = (r.choice(list(range(ns)) * 3 + [None]), r.choice(['a', 'b', 7, 2.5]))
        out = r.choice(['d', 0, lp.Pseq([1, 2], 1)])
        st['default'] = (r.randrange(ns), out)
        states.append(st)
    start = r.randrange(ns)
    reps = r.choice([1, 2, 3])
    p = lp.Pdfsm([sig] + states, start, reps) if not mk.canonical \
        else lp.Pdfsm([sig] + states)
    return Inst(p, f'Pdfsm(signals x{nsig}, {ns} states, {start}, {reps})')


def _pavaroh(mk):
    from sc3.seq.scale import Scale
    r = mk.r
    fp, lp = mk.m['fp'], mk.m['lp']
    degs = [r.randint(-7, 14) for _ in range(r.randint(1, 8))]
    src = lp.Pseq(list(degs), r.choice([1, 2, INF]))
    aroh = Scale(sorted(r.sample(range(12), 7)))
    avaroh = Scale(sorted(r.sample(range(12), r.choice([5, 7]))))
    return Inst(fp.Pavaroh(src, aroh, avaroh) if mk.canonical else
                fp.Pavaroh(src, aroh, avaroh, lp.Pseq([12], INF)),
                f'Pavaroh(Pseq({degs}), {tuple(aroh)}, {tuple(avaroh)})')


def _pfunc_full(mk):
    """Pfunc with next_func(inval, data), reset_func and data"""
    up = mk.m['up']
    data = {'offset': mk.num('int')}
    p = up.Pfunc(lambda inval, data: data['offset'] * 2, lambda data: None, data)
    return Inst(p, f'Pfunc(f(inval, data), reset, {data})')


def _decorated(mk):
    """a class made by the `pattern` decorator (also: is it discovered as a
    Pattern subclass, does it keep its generator function's name)"""
    from vf import c13_build as cb
    style = mk.r.choice([False, True])
    cls = cb.gen_classes()[False, style]
    a, ta = mk.sub('num', 1)
    b = mk.num('num')
    n = mk.r.choice([1, 4, 9])
    return Inst(cls(a, b, n), f'{cls.__name__}({ta}, {b}, {n})', cls='pattern()')


# -- event patterns ------------------------------------------------------------

def _bind_mapping(mk, dur=False):
    r = mk.r
    lp = mk.m['lp']
    mapping, texts = {}, []
    keys = ['a', 'b', 'degree', 'amp']
    for k in r.sample(keys, 1 if mk.canonical else r.randint(1, 3)):
        if r.random() < 0.7:
            v, t = mk.sub('num', 1 if r.random() < 0.6 else 2, n=12)
        else:
            v = mk.num('num')
            t = repr(v)
        mapping[k] = v
        texts.append(f'{k!r}: {t}')
    if r.random() < 0.25 and not mk.canonical:
        mapping[('x', 'y')] = lp.Ptuple([lp.Pseq([1, 2, 3], INF), 5], INF)
        texts.append("('x','y'): Ptuple")
    if dur:
        durs = [r.choice([0.25, 0.5, 1, 2]) for _ in range(r.randint(1, 4))]
        mapping['dur'] = lp.Pseq(list(durs), r.choice([1, 2, 3]))
        texts.append(f"'dur': Pseq({durs})")
    return mapping, '{' + ', '.join(texts) + '}'


def _sched_evt(mk):
    from vf import model_patterns as mp
    return mp.Inval(mk.r.choice([None, {'k': 1}]), 0)


def _pbind(mk):
    ep = mk.m['ep']
    mp_, t = _bind_mapping(mk)
    return Inst(ep.Pbind(mp_), f'Pbind({t})', _sched_evt(mk))


def _pchain(mk):
    ep = mk.m['ep']
    a, ta = _bind_mapping(mk)
    b, tb = _bind_mapping(mk)
    p = ep.Pchain(ep.Pbind(a), ep.Pbind(b))
    if not mk.canonical and mk.r.random() < 0.4:
        c, tc = _bind_mapping(mk)
        p = p.chain(ep.Pbind(c))
        tb += ').chain(Pbind(' + tc
    return Inst(p, f'Pchain(Pbind({ta}), Pbind({tb}))', _sched_evt(mk))


def _pevent(mk):
    ep = mk.m['ep']
    a, ta = _bind_mapping(mk)
    ev = {'z': mk.num('int')}
    return Inst(ep.Pevent(ep.Pbind(a), ev), f'Pevent(Pbind({ta}), {ev})', _sched_evt(mk))


def _pkey(mk):
    from vf import model_patterns as mp
    ep, lp = mk.m['ep'], mk.m['lp']
    r = mk.r
    if mk.canonical or r.random() < 0.5:
        src, t = mk.sub('num', 1, n=12)
        p = ep.Pbind({'a': src, 'b': ep.Pkey('a') * 2, 'c': ep.Pkey('b', 5)})
        return Inst(p, f"Pbind({{'a': {t}, 'b': Pkey('a') * 2, 'c': Pkey('b', 5)}})",
                    cls='Pkey')
    # on its own: the entry of the input event
    n = r.choice([3, INF])
    keys = [r.choice(['k', 'g']) for _ in range(r.randint(1, 3))]
    sched = mp.Inval({'k': 3}, 1, [True, False])
    return Inst(ep.Pkey(lp.Pseq(list(keys), INF), n), f'Pkey(Pseq({keys}, inf), {n})',
                sched, varying=True)


def _ppar(mk):
    ep = mk.m['ep']
    parts, texts = [], []
    for _ in range(1 if mk.canonical else mk.r.randint(1, 3)):
        a, t = _bind_mapping(mk, dur=True)
        parts.append(ep.Pbind(a))
        texts.append(f'Pbind({t})')
    return Inst(ep.Ppar(*parts), f"Ppar({', '.join(texts)})", _sched_evt(mk))


def _pdur(mk):
    fp, ep = mk.m['fp'], mk.m['ep']
    a, t = _bind_mapping(mk, dur=True)
    d = mk.r.choice([0.5, 1, 2.25, 4])
    if mk.canonical:
        return Inst(fp.Pdur(d, ep.Pbind(a)), f'Pdur({d}, Pbind({t}))', _sched_evt(mk))
    q = mk.r.choice([None, 1, 0.5])
    return Inst(fp.Pdur(d, ep.Pbind(a), quant=q), f'Pdur({d}, Pbind({t}), quant={q})',
                _sched_evt(mk))


def _pdelta(mk):
    fp, ep = mk.m['fp'], mk.m['ep']
    a, t = _bind_mapping(mk, dur=True)
    d = mk.r.choice([0, 0.5, 2])
    return Inst(fp.Pdelta(d, ep.Pbind(a)), f'Pdelta({d}, Pbind({t}))', _sched_evt(mk))


def _pmono(mk):
    ep, lp = mk.m['ep'], mk.m['lp']
    r = mk.r
    degs = [r.randint(0, 7) for _ in range(r.randint(1, 5))]
    durs = [r.choice([0.25, 0.5, 1])]
    artic = (not mk.canonical) and r.random() < 0.4
    mapping = {'degree': lp.Pseq(list(degs), r.choice([1, 2])),
               'dur': lp.Pseq(list(durs), INF)}
    if artic:
        mapping['legato'] = lp.Pseq([1, 0.5, 1.2], INF)
    p = ep.Pmono('default', mapping, artic) if not mk.canonical \
        else ep.Pmono('default', mapping)
    return Inst(p, f'Pmono(default, degree {degs}, dur {durs}, articulate={artic})',
                player=True, drop=('node_id',))


# -- time patterns ---------------------------------------------------------------

def _ptime(mk):
    tp = mk.m['tp']
    n = mk.r.choice([INF, 3, 7])
    return Inst(tp.Ptime() if mk.canonical else tp.Ptime(n), f'Ptime({n})', timed=True)


def _levels(mk, n):
    return [mk.r.choice([0, 1, 2.5, -1, 4]) for _ in range(n)]


def _pstep(mk):
    tp, lp = mk.m['tp'], mk.m['lp']
    r = mk.r
    n = r.randint(1, 4)
    lev = _levels(mk, n)
    durs = [r.choice([0.25, 0.5, 1]) for _ in range(r.randint(1, 3))]
    reps = r.choice([1, 2, INF])
    if mk.canonical:
        return Inst(tp.Pstep(list(lev)), f'Pstep({lev})', timed=True)
    if r.random() < 0.5:
        return Inst(tp.Pstep(list(lev), list(durs), reps), f'Pstep({lev}, {durs}, {reps})',
                    timed=True)
    return Inst(tp.Pstep(lp.Pseq(list(lev), 2), lp.Pseq(list(durs), INF), reps),
                f'Pstep(Pseq({lev}, 2), Pseq({durs}, inf), {reps})', timed=True)


def _pseg(mk):
    tp, lp = mk.m['tp'], mk.m['lp']
    r = mk.r
    n = r.randint(2, 4)
    lev = _levels(mk, n)
    durs = [r.choice([0.25, 0.5, 1]) for _ in range(r.randint(1, 3))]
    reps = r.choice([1, 2])
    if mk.canonical:
        return Inst(tp.Pseg(list(lev)), f'Pseg({lev})', timed=True)
    curve = r.choice(['lin', 'step', 'sin', 2, -3])
    return Inst(tp.Pseg(lp.Pseq(list(lev), INF), lp.Pseq(list(durs), 3), curve, reps),
                f'Pseg(Pseq({lev}, inf), Pseq({durs}, 3), {curve!r}, {reps})', timed=True)


def recipes():
    rec = {name: [ast_recipe(name)] for name in AST}
    rec['Pgate'] = [_pgate]
    rec['Pn'].append(_pn_key)
    rec['Pfunc'].append(_pfunc_full)
    for name in ('Prand', 'Pxrand', 'Pshuffle', 'Pwrand'):
        rec[name] = [_rand_list(name)]
    for name in ('Pwhite', 'Pbrown', 'Pgbrown', 'Plprand', 'Phprand', 'Pmeanrand',
                 'Pprob', 'Pbeta', 'Pcauchy', 'Pgauss', 'Ppoisson', 'Pexprand'):
        rec[name] = [_rand_value(name)]
    rec.update(Pfsm=[_pfsm], Pdfsm=[_pdfsm], Pavaroh=[_pavaroh], Pbind=[_pbind],
               Pchain=[_pchain], Pevent=[_pevent], Pkey=[_pkey], Ppar=[_ppar],
               Pdur=[_pdur], Pdelta=[_pdelta], Pmono=[_pmono], Ptime=[_ptime],
               Pstep=[_pstep], Pseg=[_pseg])
    rec['pattern()'] = [_decorated]
    return rec


# ---------------------------------------------------------------------------
# drivers

def norm(v, drop=frozenset(), depth=0):
    """Comparable form of a delivered value, taken when it is delivered."""
    if isinstance(v, dict):
        return ('dict', tuple(sorted((repr(k), norm(x, drop, depth + 1))
                                     for k, x in v.items() if k not in drop)))
    if isinstance(v, (list, tuple)):
        return tuple(norm(i, drop, depth + 1) for i in v)
    if isinstance(v, float):
        return 'nan' if v != v else v
    if v is None or isinstance(v, (int, str, bool)):
        return v
    return repr(v)


class _Gen:
    """embedding protocol as a stream-like"""

    def __init__(self, pat, stm):
        self.pat, self.stm, self.g = pat, stm, None

    def next(self, inval):
        if self.g is None:
            self.g = self.stm.embed(self.pat, inval)
            return next(self.g)
        return self.g.send(inval)


class _Iter:
    def __init__(self, pat):
        self.it = iter(pat)

    def next(self, inval):
        return next(self.it)


class _Player:
    """stream of an event pattern pulled inside an EventStreamPlayer that
    records instead of playing"""

    def __init__(self, pat, stm):
        from sc3.seq import eventstream as est
        got = self.got = []

        class Recorder(est.EventStreamPlayer):
            def _play_and_delta(self, outevent):
                got.append(outevent)
                return 0

        self.pl = Recorder(stm.stream(pat), {})

    def next(self, inval):
        self.pl.next(None)
        return self.got[-1]

    def reset(self):
        self.pl.reset()


def make_stream(inst, kind, pat=None):
    from vf import c13_build as cb
    stm = cb.mods()['stm']
    pat = inst.pat if pat is None else pat
    if inst.player:
        return _Player(pat, stm)
    if kind == 'embed' and not (inst.sched.base is None and
                                getattr(pat, 'is_event_pattern', False)):
        # (an event pattern embedded without an input event gives nothing,
        # by design: "equivalent to ^nil.yield")
        return _Gen(pat, stm)
    if kind == 'iter' and inst.sched.base is None:
        return _Iter(pat)
    return stm.stream(pat)


def set_time(t):
    from sc3.base import main as mm
    mm.main._update_logical_time(t)


def pull(s, inst, j, base):
    """value number j of stream-like s (None, True when it has ended)"""
    if inst.timed and base is not None:
        set_time(base + j * DT)
    try:
        return norm(s.next(inst.sched.at(j)), inst.drop), False
    except StopIteration:
        return None, True
    except Exception as e:
        from vf.c13_build import RealTimeout
        if isinstance(e, RealTimeout):
            raise
        return ('raised', type(e).__name__), True


def take(inst, kind='stream', n=N, base=0.0, pat=None):
    s = make_stream(inst, kind, pat)
    out = []
    for j in range(n):
        v, ended = pull(s, inst, j, base)
        if v is not None:
            out.append(v)
        if ended:
            return out, True
    return out, False


def same(a, b):
    return a[1] == b[1] and a[0] == b[0]


# ---------------------------------------------------------------------------

def check(inst, rng, acc, name, i, inj=None):
    from vf import c13_build as cb
    m = cb.mods()
    fp, lp = m['fp'], m['lp']
    w = {'case': i, 'class': name, 'pattern': inst.desc[:600],
         'input_values': repr(inst.sched)}
    key = f'C13/blueprint/{name}/'
    snap0 = cb.snapshot(inst.pat)
    ref = take(inst, 'stream', N, 0.0)
    acc.count('blueprint_instances')
    acc.count('blue_' + name)
    if ref[0] and isinstance(ref[0][-1], tuple) and ref[0][-1][:1] == ('raised',):
        acc.count('blueprint_reference_stream_raises')
        acc.count('blue_raises_' + name)
    clean = not (ref[0] and isinstance(ref[0][-1], tuple) and ref[0][-1][:1] == ('raised',))
    nontrivial = len(ref[0]) >= 2 and clean

    def differs(what, got, **kw):
        acc.violation(key + what, dict(w, first_stream=ref[0][:12], ended=ref[1],
                                       this_stream=got[0][:12], this_ended=got[1], **kw))

    # 1. a second fresh stream, any way of making it, another time base
    kind = rng.choice(['stream', 'iter', 'embed'])
    got = take(inst, kind, N, rng.choice([8.0, 64.0, 1024.5]))
    acc.count('blueprint_streams_compared')
    if not same(ref, got):
        differs('second-stream-differs', got, made_with=kind)

    # 2. streams consumed alternately
    k = rng.randint(2, 3)
    kinds = [rng.choice(['stream', 'iter', 'embed']) for _ in range(k)]
    ss = [make_stream(inst, kd) for kd in kinds]
    bases = [rng.choice([0.0, 16.0, 4096.25]) for _ in range(k)]
    outs, done = [[] for _ in range(k)], [False] * k
    itered = [False] * k
    while not all(done[q] or len(outs[q]) >= N for q in range(k)):
        q = rng.randrange(k)
        if done[q] or len(outs[q]) >= N:
            continue
        if kinds[q] == 'stream' and not inst.player and rng.random() < 0.15:
            # iterator protocol: iter() of a stream is that stream, wherever it is
            it = iter(ss[q])
            itered[q] = True
            acc.count('iter_of_a_running_stream')
            if it is not ss[q]:
                acc.violation('C13/blueprint/Stream/iter-of-a-stream-is-not-that-stream',
                              dict(w, stream=type(ss[q]).__name__, got=type(it).__name__))
        v, ended = pull(ss[q], inst, len(outs[q]), bases[q])
        if v is not None:
            outs[q].append(v)
        done[q] = ended
    for q in range(k):
        acc.count('blueprint_interleaved_streams_compared')
        if not same(ref, (outs[q], done[q])):
            if itered[q] and same(ref, take(inst, kinds[q], N, bases[q])):
                # only the stream iter() was called on differs: one mechanism
                # whatever the pattern class
                acc.violation('C13/blueprint/Stream/iter-of-a-running-stream-changes-it',
                              dict(w, first_stream=ref[0][:12], this_stream=outs[q][:12]))
            else:
                differs('interleaved-streams-differ', (outs[q], done[q]), made_with=kinds)
            break

    # 3. consumed in part, reset(), consumed again
    s = make_stream(inst, 'stream')
    if hasattr(s, 'reset') and clean:
        prefixes = {rng.randint(0, max(0, min(len(ref[0]), 6))), min(1, len(ref[0]))}
        for npre in sorted(prefixes):
            for j in range(npre):
                pull(s, inst, j, 32.0)
            try:
                s.reset()
                out = []
                ended = False
                for j in range(N):
                    v, ended = pull(s, inst, j, 128.0)
                    if v is not None:
                        out.append(v)
                    if ended:
                        break
                acc.count('blueprint_reset_streams_compared')
                if not same(ref, (out, ended)):
                    differs('stream-after-reset-differs', (out, ended),
                            consumed_before_reset=npre)
                    break
                s.reset()
            except cb.RealTimeout:
                raise
            except Exception as e:
                # mechanism = where it is raised (one key for every pattern
                # class whose generator is suspended there)
                from vf.common import tb_sites
                site = (tb_sites(e) or [('?', '?')])[-1]
                where = type(s).__name__ if site[0] == 'eventstream.py' else name
                acc.violation(f'C13/blueprint/{where}/reset-raises-{type(e).__name__}',
                              dict(w, tb=short_tb(e), consumed_before_reset=npre))
                break

    # 4. re-embedded
    if clean and not inst.varying and ref[0]:
        half = N // 2
        whole = ref[1] and len(ref[0]) <= half
        unit = ref[0] if whole else ref[0][:min(len(ref[0]), half)]
        exp = (unit + unit, True)

        def reembed_fail(pat):
            p1 = pat if whole else fp.Plen(pat, len(unit))
            for what, outer in (('Pn', fp.Pn(p1, 2)), ('Pseq', lp.Pseq([p1, p1], 1)),
                                ('Pseq-offset', lp.Pseq([p1, 0, p1], 1, 2))):
                got = take(inst, 'stream', len(unit) * 2 + 2, 256.0, outer)
                if what == 'Pseq-offset':
                    # Pseq([p, 0, p], 1, 2): p, p, 0 - the item 0 is composed with
                    # the input value by event streams: only the two copies count
                    got = (got[0][:len(unit) * 2], True) \
                        if len(got[0]) >= len(unit) * 2 else got
                acc.count('blueprint_reembeddings_compared')
                if not same(exp, got):
                    return what, got
            return None
        bad = reembed_fail(inst.pat)
        if bad:
            vkey = key + f're-embedded-through-{bad[0]}-differs'
            if inst.node is not None and inst.sched.base is not None:
                # the two known input-value mechanisms (vf/props/C13.py) show here
                # as a second copy that starts without input value: same keys
                from vf.props import C13
                from vf import model_patterns as mp
                names = {n_[0] for n_ in mp.walk(inst.node)}
                cands = [({'Pproduct-inval'}, C13.PPRODUCT_KEY)] * ('Pproduct' in names) \
                    + [({'Pgen'}, C13.PGEN_KEY)] * ('Pgen' in names)
                if len(cands) == 2:
                    cands.append(({'Pproduct-inval', 'Pgen'}, C13.PPRODUCT_KEY))
                for rep, k2 in cands:
                    cb.REPAIR.clear()
                    cb.REPAIR.update(rep)
                    try:
                        pat2 = cb.build(inst.node)
                    finally:
                        cb.REPAIR.clear()
                    if reembed_fail(pat2) is None:
                        vkey = k2
                        break
            acc.violation(vkey, dict(w, one_embedding=unit[:12],
                                     two_embeddings=bad[1][0][:24]))

    # 5. one stream per OS thread, at the same time
    if clean:
        frozen = ref
        if inst.timed:
            set_time(512.0)
            frozen = take(inst, 'stream', N, None)
        T = 3
        streams = [make_stream(inst, 'stream') for _ in range(T)]
        res = [None] * T
        barrier = threading.Barrier(T)

        def work(q):
            try:
                barrier.wait(10)
            except threading.BrokenBarrierError:
                pass
            out, ended = [], False
            for j in range(N):
                v, ended = pull(streams[q], inst, j, None)
                if v is not None:
                    out.append(v)
                if ended:
                    break
            res[q] = (out, ended)
        ths = [threading.Thread(target=work, args=(q,), daemon=True) for q in range(T)]
        old = sys.getswitchinterval()
        if inj is not None:
            inj.p_yield = 0.03
        sys.setswitchinterval(5e-5)
        try:
            for t in ths:
                t.start()
            for t in ths:
                t.join(30)
        finally:
            sys.setswitchinterval(old)
            if inj is not None:
                inj.p_yield = 0.0
        if any(t.is_alive() for t in ths):
            acc.violation(key + 'threads-hang', w)
            return 'stop'
        from sc3.base import main as mm
        if mm.main.current_tt is not mm.main.main_tt:
            acc.violation(key + 'current-thread-not-restored-after-threads', w)
            mm.main.current_tt = mm.main.main_tt
        for q in range(T):
            acc.count('blueprint_thread_streams_compared')
            if res[q] is None or not same(frozen, res[q]):
                differs('streams-in-threads-differ', res[q] or ([], None),
                        single_threaded=frozen[0][:12])
                break

    # 6. the blueprint itself
    snap1 = cb.snapshot(inst.pat)
    acc.count('blueprint_snapshots_compared')
    if snap0 != snap1:
        cls, attr = cb.snapshot_diff(snap0, snap1) or ('?', '?')
        acc.violation(f'C13/blueprint/{name}/pattern-mutated/{cls}.{attr}', w)
    acc.case(h64(inst.desc), nontrivial=nontrivial)
    if nontrivial:
        acc.count('blue_nontrivial_' + name)
    return None


def coercions(rng, acc, i):
    """stream(x) / embed(x) of objects that are not patterns (ValueStream,
    DictionaryStream): "common objects are infinite streams returning
    themselves; when embedded they become a unique value stream"; a dict is
    composed with the input dict (a copy each time)."""
    from vf import c13_build as cb, c13_gen as gen
    stm = cb.mods()['stm']
    g = gen.Gen(rng)
    x = g.lit(rng.choice(['num', 'list1', 'evt', 'bool', 'evt']))
    before = copy.deepcopy(x)
    s = stm.stream(x)
    inval = rng.choice([None, {'k': 1, 'a': 'in'}]) if isinstance(x, dict) else \
        rng.choice([None, 7, {'k': 1}])
    expect = {**inval, **x} if isinstance(x, dict) and inval is not None else x
    vals = [next(s), s.next(), next(iter(s)), s.next(None)]
    via_inval = [s.next(inval), s.next(inval)]
    s.reset()
    vals.append(next(s))
    emb = list(stm.embed(x, inval))
    all_embedded = list(stm.embed(x))
    acc.count('coercion_cases')
    acc.count('coercion_' + type(s).__name__)
    w = {'case': i, 'object': repr(x), 'input_value': repr(inval)}
    if any(v != x for v in vals) or any(type(v) is not type(x) for v in vals):
        acc.violation(f'C13/object-as-stream/{type(s).__name__}/not-the-object-every-time',
                      dict(w, values=repr(vals)))
    if any(v != expect for v in via_inval):
        acc.violation(f'C13/object-as-stream/{type(s).__name__}/next-with-input-value',
                      dict(w, values=repr(via_inval), expected=repr(expect)))
    if emb != [expect] or all_embedded != [x]:
        acc.violation(f'C13/object-as-stream/{type(s).__name__}/embedded-not-once',
                      dict(w, embedded=repr(emb), without_input=repr(all_embedded)))
    if isinstance(x, dict):
        # the copies handed out are the consumer's: changing them changes nothing
        for v in vals + via_inval:
            if v is x:
                acc.violation('C13/object-as-stream/DictionaryStream/hands-out-the-dict-itself', w)
                break
            v['changed'] = True
    if x != before or (isinstance(inval, dict) and inval != {'k': 1, 'a': 'in'}
                       and inval != {'k': 1}):
        acc.violation(f'C13/object-as-stream/{type(s).__name__}/object-or-input-changed',
                      dict(w, now=repr(x)))


def trace_prints(rng, acc, i):
    """Ptrace "prints out the results of a pattern": one record per value,
    prefix first, and the values pass unchanged."""
    from vf import c13_build as cb
    m = cb.mods()
    vals = [rng.choice([1, 2.5, -3, 0, 7]) for _ in range(rng.randint(0, 6))]
    if not vals:
        vals = [4]
    prefix = rng.choice([None, 'p> ', 'x'])
    src = m['lp'].Pseq(list(vals), 1)
    p = rng.choice([lambda: m['fp'].Ptrace(src, prefix),
                    lambda: src.trace(prefix)])()
    cb.TRACE.records.clear()
    got = list(p)
    recs = list(cb.TRACE.records)
    acc.count('trace_runs')
    acc.count('trace_records_compared', len(recs))
    exp = [f"{prefix or ''}{v}" for v in vals]
    if got != vals or recs != exp:
        acc.violation('C13/Ptrace/printed-records-differ',
                      {'case': i, 'values': vals, 'prefix': prefix, 'delivered': got,
                       'records': recs[:12]})


def unseeded_neighbour(rng, acc, i):
    """A seeded stream is consumed while another OS thread consumes an
    UNSEEDED random stream of another pattern: the seeded one must still give
    its sequence ("under the same random seed ... streams never influence one
    another")."""
    from vf import c13_build as cb
    m = cb.mods()
    lp, fp, vp, stm = m['lp'], m['fp'], m['vp'], m['stm']
    L = 1500
    shape = rng.choice(['Pwhite', 'Prand', 'Pbrown', 'Pgauss', 'Pxrand'])
    inner = {'Pwhite': lambda: vp.Pwhite(0, 10 ** 6, L),
             'Prand': lambda: lp.Prand(list(range(50)), L),
             'Pbrown': lambda: vp.Pbrown(0.0, 100.0, 1.0, L),
             'Pgauss': lambda: vp.Pgauss(0.0, 1, L),
             'Pxrand': lambda: lp.Pxrand(list(range(50)), L)}[shape]()
    seed = rng.randrange(10 ** 6)
    pat = fp.Pseed(lp.Pseq([seed], 1), inner)
    ref = list(pat)
    noise_pat = rng.choice([lambda: vp.Pwhite(0, 10, INF),
                            lambda: lp.Prand([1, 2, 3], INF),
                            lambda: vp.Pbrown(0.0, 1.0, 0.125, INF)])()
    stop = []

    def noise():
        s = stm.stream(noise_pat)
        while not stop:
            s.next()
    t = threading.Thread(target=noise, daemon=True)
    old = sys.getswitchinterval()
    sys.setswitchinterval(2e-5)
    runs = []
    try:
        t.start()
        for _ in range(3):
            runs.append(list(pat))
    finally:
        stop.append(1)
        t.join(10)
        sys.setswitchinterval(old)
    acc.count('seeded_streams_next_to_unseeded_consumer', len(runs))
    from sc3.base import main as mm
    if mm.main.current_tt is not mm.main.main_tt:
        mm.main.current_tt = mm.main.main_tt
    after = list(pat)
    if after != ref:
        acc.violation('C13/blueprint/Pseed/single-threaded-runs-differ',
                      {'case': i, 'pattern': f'Pseed({seed}, {shape} x{L})'})
        return
    bad = [k for k, r_ in enumerate(runs) if r_ != ref]
    if bad:
        r_ = runs[bad[0]]
        first = next((j for j, (x, y) in enumerate(zip(r_, ref)) if x != y),
                     min(len(r_), len(ref)))
        # Observation, not a verdict: the library keeps ONE current time thread per
        # process (main.current_tt), so an unseeded random stream that another OS
        # thread consumes at the same moment draws from the generator of whatever
        # routine is current.  The statement quantifies over pattern expressions, not
        # over concurrent consumers in several OS threads without the library lock,
        # and the documentation does not promise that use; seeded streams consumed
        # concurrently, each in its own thread, ARE judged (threads shards).
        acc.count('observed_unseeded_stream_in_another_thread_takes_seeded_random_numbers')
        if acc.want_sample():
            acc.sample(
                      {'case': i, 'pattern': f'Pseed(Pseq([{seed}], 1), {shape} x{L})',
                       'other_thread': type(noise_pat).__name__ + ' (not seeded)',
                       'runs_differing': len(bad), 'first_difference_at': first,
                       'alone': ref[first:first + 6], 'with_neighbour': r_[first:first + 6]})


def run_blue(spec, acc):
    from vf import c13_build as cb, inject
    from sc3.seq import eventstream as est
    ptt, mods = library()
    m = cb.mods()
    m.setdefault('ep', mods['eventpatterns'])
    m.setdefault('tp', mods['timepatterns'])
    concrete, abstract = discover()
    rec = recipes()
    names = [c.__name__ for c in concrete] + ['pattern()']
    acc.maxi('max_blueprint_classes_discovered', len(concrete))
    acc.maxi('max_blueprint_abstract_classes', len(abstract))
    missing = [n for n in names if n not in rec]
    if missing:
        acc.mark_inconclusive('Pattern subclasses without a recipe in vf/c13_blue.py: '
                              + ', '.join(missing))
        names = [n for n in names if n in rec]
    # is every class the recipes speak of really a Pattern subclass of the library?
    stale = [n for n in rec if n not in names]
    if stale:
        acc.mark_inconclusive('recipes for classes the library does not define: '
                              + ', '.join(stale))
    deco = cb.gen_classes()[False, False]
    if not (isinstance(deco, type) and issubclass(deco, ptt.Pattern)
            and deco.__name__ == 'gfunc_mix'):
        acc.violation('C13/blueprint/pattern()/not-a-named-Pattern-subclass',
                      {'class': repr(deco), 'name': getattr(deco, '__name__', None)})
    leaves = _leaves_stub()
    codes = [inject.func_code(m['stm'].Routine.next),
             inject.func_code(est.PatternValueStream.next),
             inject.func_code(m['fp'].Pseed.__embed__)]
    inj = inject.Injector(codes, seed=spec['seed'])
    inj.max_sleep = 0.0002
    inj.start()
    try:
        for i in iter_cases(spec):
            rng = case_rng(spec['seed'], 'C13', 'blue', i)
            name = names[i % len(names)]
            canonical = (i // len(names)) % 4 == 0
            mk = Maker(rng, canonical)
            mk.leaves = leaves
            recipe = rng.choice(rec[name])
            try:
                with cb.time_limit(20):
                    inst = recipe(mk)
                    if inst.cls:
                        name = inst.cls
                    if check(inst, rng, acc, name, i, inj) == 'stop':
                        break
            except Skip:
                acc.count('blueprint_no_instance')
                continue
            except cb.RealTimeout:
                acc.count('blueprint_timeouts')
                acc.count('blue_timeout_' + name)
                continue
            finally:
                set_time(0.0)
            if i % 7 == 0:
                coercions(rng, acc, i)
                trace_prints(rng, acc, i)
            if i % 23 == 5:
                unseeded_neighbour(rng, acc, i)
            if acc.want_sample() and i % 5 == 0:
                acc.sample({'case': i, 'class': name, 'pattern': inst.desc[:300],
                            'input_values': repr(inst.sched)})
    finally:
        inj.stop()
        acc.counters['blue_injected_yields'] = inj.injected
