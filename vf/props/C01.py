"""C01 - SynthDef compilation preserves the meaning of the graph function.

Translation validation of every generated program by *random ring evaluation*:

  source side   vf.gen_graph builds the program as data (shadow DAG) and renders
                it to the Python graph function that the real SynthDef compiles;
  output side   bytes(SynthDef(...).as_bytes()) decoded by the independent
                parser vf.scgf.

Both sides are evaluated under the same random interpretation rho
(vf.gen_graph.Rho): wires take values in a prime field, constants are their
exact rational value, `+ - * /` (opcodes 0,1,2,4), `neg`, MulAdd, Sum3, Sum4 are
the field operations (x/0 := 0, which keeps x/1 = x and x/-1 = -x), K2A / A2K /
DC are the identity, a control output is H(control name, channel) and every
other unit output is H(class, rate, special index, number of outputs, input
values, output number) for a keyed hash H.  Any compilation that only uses the
ring identities of the statement and congruence gives every wire the same value
on both sides, in every field and for every H, so the monitor cannot alarm on a
correct optimiser; a wrong rewrite survives one rho with probability about
degree/p (p >= 2^61) and three independent rho over three different primes are
used.  Decided per program:

  (i)   side-effecting units: multiset of unit signatures equal on both sides;
  (ii)  stateful side-effect-free units (oscillators, filters): every one a
        side-effecting unit transitively reads is present, none is duplicated
        or invented; stateless functions (operators with other opcodes,
        LinExp, Clip ...) that are live must be present;
  (iii) operator units carry the opcode of vf.opcodes (part of the signature);
  (iv)  every UnaryOp/BinaryOp/MulAdd/Sum3/Sum4 unit runs at the maximum rate
        of its decoded input wires, tagged units at their creation rate (part
        of the signature);
  (v)   SynthDef(...) / as_bytes() do not raise.

Round 9 - two classes of behaviour the 40 unit classes of the first table did
not reach (shards x*, vf.gen_graph.gen_program(extra=True), a case stream of
its own; the g* stream is unchanged):

  (A) "only side-effect-free units that nothing references may be dropped" was
      exercised with noise units, Line, FreeSelf, SendTrig, Out and the
      width-first units only.  Now every kind of side effect beyond the output
      the server documentation knows is placed in the graphs, mostly as a
      statement whose output nothing reads: done actions (DetectSilence, XLine,
      Linen, EnvGen, PlayBuf, Duty, TDuty, DemandEnvGen, RecordBuf; action a
      constant 1-14 or a control), node control (PauseSelf, Free, Pause,
      FreeSelfWhenDone, PauseSelfWhenDone on a unit with a done flag),
      messages (SendReply, SendPeakRMS, Poll, Dpoll, CheckBadValues), buffer
      and bus writes (RecordBuf, BufWr, DelTapWr, ScopeOut, DiskOut, Dbufwr,
      XOut).  Monitor (i) applies unchanged: each must be in the definition
      exactly once with the inputs of the source.  A unit whose only effect is
      its done action and whose action is the constant 0 has no effect: it is
      held to the rule of stateful units (may be dropped when unreferenced).
      Which of these classes the library itself marks as removable (a base
      class with PureUGenMixin) is read from the class tree at run time and
      reported as evidence; the verdict only comes from the emitted bytes.
  (B) rate law (iv) with the fourth rate: demand-rate units (Dseq, Dser,
      Dshuf, Drand, Dxrand, Dseries, Dgeom, Dwhite, Diwhite, Dbrown, Dibrown,
      wrapped by Dstutter, Dswitch1, Dswitch, Dreset, Dconst, Dbufrd, Dbufwr,
      Dpoll) as operands of unary / binary operators together with numbers,
      scalar, control and audio rate signals and each other, on either side,
      behind neutral constants and `d + (-x)` / `d - (-x)`, pulled by Demand,
      Duty, TDuty, DemandEnvGen.  An operation on a demand-rate value is
      demand rate (the library's documented order demand > audio > control >
      scalar, rate numbers 3 > 2 > 1 > 0 in the definition), so (iv) is the
      same maximum over the decoded input wires.

Round 10 - operator units that are NOT functions of their inputs (shards r*,
gen_program(stateful=True), a third case stream; g* and x* are unchanged).
The ring evaluation treated every operator unit other than + - * / neg as an
uninterpreted FUNCTION of opcode and input values, so a definition in which two
units with a random-generator opcode over the same operand were one unit
evaluated to the same values as the source.  The class now reached: the unary
opcodes rand, rand2, linrand, bilinrand, sum3rand, coin and the binary opcodes
rrand, exprand (vf.opcodes.STATEFUL_*) applied two or three times to the same
operand object, to the same pair of objects, to `x, x` and to equal constants
(also 440 / 440.0), the copies read directly by one Out, through `c + dev`
into one tagged oscillator per voice, through a second random operator each,
combined with each other by one operator (r0 - r1), one of them unreferenced,
next to a stateless operator applied twice to the same operand (which MAY be
one unit).  Monitor (vi), compare_stateful(), on every program of any stream
that has such an opcode on either side, after (i)-(v) passed: the same
comparison under an interpretation in which these units are STATEFUL LEAVES,
one identity per creation ("each ... stateful unit generator appears exactly
once" = one unit per unit the function created).  The n creations over the
same operand values are interchangeable, so the definition is accepted iff
some injection of its units with that opcode and those input values into the
creations makes all monitors pass (depth-first search in unit order, at most
STATEFUL_SEARCH_CAP runs, capped searches are counted and not judged); a
creation without a unit must be dead by the rule of stateful units.  Keys
C01/stateful-operator-units-merged|-unit-duplicated|-unit-extra|-unit-wiring.
"""

import json
from collections import Counter

from vf.common import iter_cases, case_rng, h64, split, short_tb, tb_sites


def safe(fn, *a):
    """formatting of library objects must never take the shard down (their
    __repr__ runs library code)"""
    try:
        return fn(*a)
    except Exception as x:      # noqa
        return f'<{type(x).__name__} while formatting>'


LEVEL = 'exploration'
RULE = ("seeded random graph functions as data (vf/gen_graph.py, profile c01): "
        "0-6 controls (kr/ar/ir/tr/lagged), tagged oscillators/filters/noise/"
        "info units at ar/kr/ir, multi-output units, 49 unary and 48 binary "
        "operators with numbers on either side, madd, Sum3/Sum4, list sums and "
        "Mix, + chains of length 3-6 in random association, a*b+c, a+(-b), "
        "a-(-b), neutral/absorbing constants, the same object used twice by "
        "one operator, unreferenced pure and side-effecting units, 1-4 output "
        "units, madd/Sum3/Sum4/operators expanded over channel lists whose "
        "channels run at different rates (each channel to a sink of its own "
        "rate), width-first units (RandSeed, RandID, LocalBuf with SetBuf / "
        "ClearBuf) between the arithmetic; <= 60 units, depth <= 7.  Shards x*: "
        "the same plus 21 classes of units with a side effect beyond their "
        "output (done actions, node control, messages, buffer / bus writes), "
        "70 % of them as statements whose output nothing reads, and demand-"
        "rate expressions (19 demand-rate classes under unary / binary "
        "operators with numbers, ir / kr / ar signals and each other) pulled "
        "by Demand / Duty / TDuty / DemandEnvGen.  Shards r*: the c01 profile plus "
        "2-3 applications of one random-generator operator (6 unary, 2 binary "
        "opcodes) to the same operand object(s) / equal constants in 7 "
        "consumer shapes, at least one group per program.  A program is non-trivial when at "
        "least one optimiser rewrite, constructor shortcut or dead-code removal "
        "fired while it was compiled; distinct = hash of the program data")
ASSUMPTIONS = [
    "independent SCgf-2 parser vf/scgf.py and opcode table vf/opcodes.py "
    "(transcribed from the server's opcode enumeration)",
    "side-effect / state classification of the 40 unit classes the generator "
    "uses (vf/gen_graph.py:UGENS), taken from the server documentation",
    "ring semantics of + - * / neg MulAdd Sum3 Sum4 and identity semantics of "
    "K2A/A2K/DC; every other unit is an uninterpreted function",
    "counters of fired rewrites are read by wrapping sc3 internals (evidence "
    "only, never part of a verdict)",
    "purity table of the extension (vf/gen_graph.py:EXT_UGENS): which unit "
    "classes have a side effect beyond their output (done action, node "
    "control, message to clients / post window, buffer or bus write, shared "
    "random generator) and the order of their inputs are transcribed from the "
    "SuperCollider class and server documentation; a done-action-only unit "
    "with the constant action 0 counts as side-effect free.  The library's own "
    "marker (PureUGenMixin among the bases, _optimize_graph not overridden) is "
    "read at run time for the evidence counters effect_class_* only",
    "demand rate is rate number 3 in a definition and the highest rate "
    "(library comment and server documentation); fused MulAdd / Sum3 / Sum4 "
    "on demand-rate operands are outside the generated domain",
    "operator opcodes that are not functions of their inputs "
    "(vf/opcodes.py:STATEFUL_UNARY / STATEFUL_BINARY): unary rand, rand2, "
    "linrand, bilinrand, sum3rand, coin and binary rrand, exprand draw from the "
    "synth's random generator in the server's UnaryOpUGens.cpp / "
    "BinaryOpUGens.cpp (the 'random operators' of the operator documentation); "
    "every other opcode is a stateless function, so equal applications of it "
    "may share a unit.  Such a unit has no effect beyond its output: an "
    "unreferenced one may be dropped (rule of stateful units)",
]
MIN_COUNTERS = {
    'programs_compiled': 300, 'wires_compared': 3000,
    'arith_units_rate_checked': 1000, 'opaque_units_matched': 1000,
    'fired_replace_Sum3': 20, 'fired_replace_Sum4': 5,
    'fired_replace_MulAdd': 20, 'fired_replace_addneg_to_sub': 5,
    'fired_replace_subneg_to_add': 3, 'fired_dead_code_removed': 100,
    'fired_shortcut_BinaryOpUGen': 50, 'fired_shortcut_MulAdd': 10,
    'operator_units_opcode_checked': 300, 'feature_mixed-rate-channels': 500,
    'feature_width-first-unit': 500, 'width_first_pairs_checked': 1000,
    'feature_array-control-arithmetic': 200, 'folding_agnostic_programs': 1500,
    'feature_infinite-constant': 300, 'feature_number-channel-in-list': 300,
    'programs_compiled_after_a_width_first_definition': 1000,
    # round 9 (x shards; thresholds leave room for a machine shared 6-fold)
    'feature_effect-unit': 400, 'feature_effect-unit-output-unused': 300,
    'effect_units_unreferenced_must_stay': 1000,
    'max_effect_unit_classes_unreferenced': 25,
    'effect_unreferenced_DetectSilence': 20, 'effect_unreferenced_EnvGen': 20,
    'effect_unreferenced_XLine': 20, 'effect_unreferenced_Linen': 20,
    'effect_unreferenced_PlayBuf': 20, 'effect_unreferenced_RecordBuf': 20,
    'effect_unreferenced_BufWr': 20, 'effect_unreferenced_DelTapWr': 20,
    'effect_unreferenced_DiskOut': 20, 'effect_unreferenced_ScopeOut': 20,
    'effect_unreferenced_Free': 20, 'effect_unreferenced_Pause': 20,
    'effect_unreferenced_PauseSelf': 20,
    'effect_unreferenced_FreeSelfWhenDone': 20,
    'effect_unreferenced_PauseSelfWhenDone': 20,
    'effect_unreferenced_SendReply': 20, 'effect_unreferenced_SendPeakRMS': 20,
    'effect_unreferenced_Poll': 20, 'effect_unreferenced_CheckBadValues': 20,
    'effect_unreferenced_XOut': 20, 'effect_unreferenced_Duty': 20,
    'effect_unreferenced_TDuty': 20, 'effect_unreferenced_DemandEnvGen': 20,
    'done_action_zero_units': 40, 'max_effect_class_in_library': 40,
    'feature_demand-rate': 400, 'feature_demand-with-control-or-audio': 200,
    'arith_units_with_demand_input': 1000,
    'arith_units_demand_and_control_input': 200,
    'arith_units_demand_and_audio_input': 200,
    'unary_units_with_demand_input': 100,
    # round 10 (r shards)
    'feature_stateful-operator-repeated': 150,
    'feature_stateful-operator-unary': 80,
    'feature_stateful-operator-binary': 60,
    'feature_stateful-operator-shape-direct': 20,
    'feature_stateful-operator-shape-voices': 40,
    'feature_stateful-operator-shape-nested': 20,
    'feature_stateful-operator-shape-combine': 20,
    'feature_stateful-operator-shape-dead-one': 20,
    'feature_stateful-operator-shape-pure-twin': 20,
    'stateful_operator_programs_checked': 200,
    'stateful_operator_units_matched': 600,
    'stateful_operator_groups_of_two_or_more': 200,
}


def plan(tier, seed):
    total = 90000 if tier == 'quick' else 1_200_000
    parts = 10      # + 4 x shards + 2 r shards = 16 workers (one batch)
    secs = 40 if tier == 'quick' else 600
    shards = [{'name': f'g{p}', 'mode': 'nrt', 'kind': 'g', 'first_case': f,
               'n': n, 'secs': secs, 'hard_timeout': secs + 150}
              for p, (f, n) in enumerate(split(total, parts))]
    # round 9: side-effecting units as statements, demand-rate operands
    xtotal = 30000 if tier == 'quick' else 400_000
    shards += [{'name': f'x{p}', 'mode': 'nrt', 'kind': 'x', 'first_case': f,
                'n': n, 'secs': secs, 'hard_timeout': secs + 150}
               for p, (f, n) in enumerate(split(xtotal, 4))]
    # round 10: repeated operator units with a random-generator opcode
    rtotal = 12000 if tier == 'quick' else 160_000
    shards += [{'name': f'r{p}', 'mode': 'nrt', 'kind': 'r', 'first_case': f,
                'n': n, 'secs': secs, 'hard_timeout': secs + 150}
               for p, (f, n) in enumerate(split(rtotal, 2))]
    return shards


# ---------------------------------------------------------------------------
# decoded side
# ---------------------------------------------------------------------------
class Problem(Exception):
    def __init__(self, key, detail):
        super().__init__(key)
        self.key = key
        self.detail = detail


class DecodedEval:
    def __init__(self, d, rho, gg, oc, src_counts=None, choices=()):
        self.d = d
        self.rho = rho
        # leaf semantics of random-generator opcodes (rho.stateful_ops): a
        # unit with such an opcode takes the identity of one of the source
        # creations with the same opcode and input values that no other unit
        # has taken; which one is the next entry of `choices` (0 beyond it),
        # `branching` records how many were free at each such unit
        src_counts = src_counts or {}
        used = set()
        self.branching = []
        self.unmatched = []       # stateful operator units no creation is left for
        self.stateful_matched = 0
        self.vals = []            # per unit: list of output values
        self.units = []           # opaque units {'u','cls','sig','eff','ins'}
        self.ops = []             # opaque operator units {'u','cls','special','ins','val'}
        self.arith = []           # ring-interpreted units {'u','desc','ins','val'}
        self.structural = []      # (key, detail) problems found while decoding
        self.rate_problems = []   # rate law (reported after value comparison)
        names = sorted(d.param_names, key=lambda t: t[1])
        consts = [rho.const(c) for c in d.constants]
        self.consts = consts

        def slot(s):
            best = None
            for nm, ix in names:
                if ix <= s:
                    best = (nm, s - ix)
            return best or ('?', s)

        def wire(w):
            if w[0] == 'c':
                return consts[w[1]]
            return self.vals[w[1]][w[2]]

        def wrate(w):
            if w[0] == 'c':
                return 0
            return d.units[w[1]].out_rates[w[2]]

        r = rho
        for u in d.units:
            ins = [wire(w) for w in u.inputs]
            cls = u.cls
            nout = len(u.out_rates)
            shape = gg.UNIT_SHAPE.get(cls)
            if shape is not None:
                if (shape[0] is not None and shape[0] != len(ins)) or \
                        (shape[1] is not None and shape[1] != nout):
                    self.structural.append((
                        f'C01/unit-shape/{cls}',
                        f'unit {u.index} {cls}: {len(ins)} inputs / {nout} '
                        f'outputs, expected {shape}'))
            if cls in gg.CONTROL_CLASSES:
                out = []
                for k in range(nout):
                    nm, ch = slot(u.special + k)
                    out.append(r.ctl(nm, ch))
                self.vals.append(out)
                continue
            if cls in gg.ARITH_CLASSES:
                wrs = [wrate(w) for w in u.inputs]
                want = max(wrs, default=0)
                if u.rate != want or u.out_rates != [u.rate]:
                    self.rate_problems.append((
                        f'C01/arith-rate-not-max/{cls}'
                        + ('/demand-rate-input' if 3 in wrs else ''),
                        f'unit {u.index} {u!r}: input wire rates {wrs} '
                        f'(0 scalar, 1 control, 2 audio, 3 demand)'))
                v = None
                desc = cls
                if cls == 'BinaryOpUGen':
                    if not (0 <= u.special < len(oc.BINARY_NAME)):
                        self.structural.append((
                            'C01/opcode-out-of-range/binary', repr(u)))
                        name = f'#{u.special}'
                    else:
                        name = oc.BINARY_NAME[u.special]
                    desc = f'BinaryOpUGen({name})'
                    if len(ins) == 2:
                        if name == '+': v = r.add(*ins)
                        elif name == '-': v = r.sub(*ins)
                        elif name == '*': v = r.mul(*ins)
                        elif name == '/': v = r.div(*ins)
                elif cls == 'UnaryOpUGen':
                    if not (0 <= u.special < len(oc.UNARY_NAME)):
                        self.structural.append((
                            'C01/opcode-out-of-range/unary', repr(u)))
                        name = f'#{u.special}'
                    else:
                        name = oc.UNARY_NAME[u.special]
                    desc = f'UnaryOpUGen({name})'
                    if len(ins) == 1 and name == 'neg':
                        v = r.neg(ins[0])
                elif cls == 'MulAdd' and len(ins) == 3:
                    v = r.add(r.mul(ins[0], ins[1]), ins[2])
                elif cls in ('Sum3', 'Sum4'):
                    v = 0
                    for x in ins:
                        v = r.add(v, x)
                if v is not None:
                    self.arith.append({'u': u, 'desc': desc, 'ins': ins, 'val': v})
                elif r.stateful_ops and oc.is_stateful_op(cls, u.special):
                    key = (cls, u.special, tuple(ins))
                    free = [k for k in range(src_counts.get(key, 0))
                            if (key, k) not in used]
                    if free:
                        pos = len(self.branching)
                        pick = choices[pos] if pos < len(choices) else 0
                        self.branching.append(len(free))
                        k = free[min(pick, len(free) - 1)]
                        used.add((key, k))
                        v = r.stateful_op(cls, u.special, ins, k)
                        self.stateful_matched += 1
                    else:
                        v = r.h('stateful-op-unmatched', u.index)
                        self.unmatched.append((u, desc))
                    self.ops.append({'u': u, 'cls': cls, 'special': u.special,
                                     'ins': ins, 'val': v, 'desc': desc,
                                     'stateful': True})
                else:
                    v = r.op(cls, u.special, ins)
                    self.ops.append({'u': u, 'cls': cls, 'special': u.special,
                                     'ins': ins, 'val': v, 'desc': desc})
                self.vals.append([v] * max(nout, 1))
                continue
            ent = gg.UGENS.get(cls)
            if ent is not None and ent['eff'] == 'conv':
                need = {'K2A': 2, 'A2K': 1}.get(cls)
                if need is not None and u.rate != need:
                    self.rate_problems.append((f'C01/unit-rate/{cls}', repr(u)))
                self.vals.append([ins[k] if k < len(ins) else 0
                                  for k in range(max(nout, 1))])
                continue
            sig = r.unit_sig(cls, u.rate, u.special, nout, ins)
            self.units.append({'u': u, 'cls': cls, 'sig': sig, 'ins': ins,
                               'eff': ent['eff'] if ent else 'unknown',
                               'rate': u.rate})
            self.vals.append([r.out(sig, k) for k in range(nout)])


def _flat(vals):
    for v in vals:
        if isinstance(v, list):
            yield from v
        elif v is not None:
            yield v


def compare(prog, d, rho, gg, oc, stats, choices=(), trace=None):
    """Problems (key, detail) of definition d w.r.t. program prog under rho."""
    src = gg.SourceEval(prog, rho)
    n_eff = sum(1 for u in src.units if u['eff'] == 'effect')
    if n_eff and not d.units:
        return [('C01/definition-without-its-side-effect-units',
                 f'the function creates {n_eff} output / side-effecting units, '
                 f'the definition has no unit at all')]
    src_inf = {o[1] for nd in prog['nodes'] for o in gg.operands_of(nd)
               if o[0] == 'c' and abs(o[1]) == float('inf')}
    bad = [c for c in d.constants
           if c != c or (abs(c) == float('inf') and c not in src_inf)]
    if bad:
        # NaN never, an infinity only where the function wrote one
        return [('C01/non-finite-constant',
                 f'constants {d.constants}; infinities of the source: '
                 f'{sorted(src_inf)}')]
    dec = DecodedEval(d, rho, gg, oc, src.stateful_count, choices)
    if trace is not None:
        trace['branching'] = dec.branching
        trace['matched'] = dec.stateful_matched
    if dec.structural:
        return dec.structural[:1]
    if dec.unmatched:
        u, desc = dec.unmatched[0]
        return [(f'C01/stateful-operator-unit-extra/{desc}',
                 f'unit {u!r}: every creation of this operator over these '
                 f'operand values already has its unit')]
    live = src.live_nodes()
    problems = []

    s_cnt, s_live, s_rec, s_nodes = Counter(), Counter(), {}, {}
    if prog.get('extra'):
        refs = {o[1] for nd in prog['nodes'] for o in gg.operands_of(nd)
                if o[0] == 'n'}
        for u in src.units:
            if u['cls'] not in gg.EXT_UGENS:
                continue
            if u['eff'] == 'effect' and u['node'] not in refs:
                stats['effect_units_unreferenced_must_stay'] += 1
                stats['effect_unreferenced_' + u['cls']] += 1
            elif u['eff'] == 'effect':
                stats['effect_units_referenced'] += 1
            elif u['cls'] in gg.DONE_ACTION_ONLY:
                stats['done_action_zero_units'] += 1
    for u in src.units:
        s_cnt[u['sig']] += 1
        s_rec[u['sig']] = u
        s_nodes.setdefault(u['sig'], []).append(u['node'])
        if u['eff'] == 'effect' or u['node'] in live:
            s_live[u['sig']] += 1
    d_cnt, d_rec = Counter(), {}
    for u in dec.units:
        d_cnt[u['sig']] += 1
        d_rec[u['sig']] = u

    bad_src, bad_dec = [], []
    for sig, u in s_rec.items():
        s, lv, c = s_cnt[sig], s_live[sig], d_cnt.get(sig, 0)
        eff = u['eff']
        if eff == 'effect':
            ok = c == s
        elif eff == 'stateful':
            ok = lv <= c <= s
        else:
            ok = c >= 1 if lv >= 1 else True
        if not ok and c < lv and eff != 'effect':
            # units referenced only through absorbed operands (x*0 ...): after
            # the reduction nothing references them, so they may be dropped
            lv2 = sum(1 for n in s_nodes[sig]
                      if n in live and src.semantically_live(n))
            if lv2 < lv:
                stats['absorbed_units_dropped'] += lv - lv2
                lv = lv2
                ok = (lv <= c <= s) if eff == 'stateful' else \
                    (c >= 1 if lv >= 1 else True)
        if ok:
            stats['opaque_units_matched'] += c
            stats['wires_compared'] += c * len(u['ins'])
        else:
            bad_src.append((u, s, lv, c))
    for sig, u in d_rec.items():
        if sig not in s_rec and u['eff'] != 'pure':
            bad_dec.append(u)
        elif sig not in s_rec:
            stats['decoded_pure_units_not_in_source'] += 1

    # live opaque operators must exist with the same opcode and input values
    d_ops = Counter(o['val'] for o in dec.ops)
    missing_ops = []
    for o in src.ops:
        if o['node'] in live:
            if d_ops.get(o['val'], 0) < 1:
                if src.semantically_live(o['node'], o.get('chan')):
                    missing_ops.append(o)
                else:
                    stats['absorbed_units_dropped'] += 1
            else:
                stats['operator_units_opcode_checked'] += 1
                stats['wires_compared'] += len(o['ins'])

    if not (bad_src or bad_dec or missing_ops):
        return dec.rate_problems[:1]

    # ---- diagnosis: name the mechanism --------------------------------------
    if prog.get('extra') and not LOST_IN_SORT:
        # a side-effecting unit that is gone (fewer units of its class than
        # the function created) is the root; units only it read follow
        n_src = Counter(u['cls'] for u in src.units if u['eff'] == 'effect')
        n_dec = Counter(u['cls'] for u in dec.units)
        for u, s, lv, c in bad_src:
            if u['eff'] == 'effect' and n_dec[u['cls']] < n_src[u['cls']]:
                return [(f'C01/unit-missing/{u["cls"]}',
                         f'node v{u["node"]} (side-effecting, '
                         f'{"output not read" if u["node"] not in refs else "output read"}'
                         f'): the function creates {n_src[u["cls"]]} '
                         f'{u["cls"]} unit(s), the definition has '
                         f'{n_dec[u["cls"]]}')]
    lost_inf = [x for x in src_inf if x not in d.constants]
    if lost_inf:
        big = [c for c in d.constants if abs(c) > 1e38 and abs(c) != float('inf')]
        return [('C01/infinite-constant-not-preserved',
                 f'the function uses the constant(s) {lost_inf}; the constant '
                 f'table has {big or "no such value"} instead')]
    known = set(_flat(src.vals))
    known.update(rho.const(c) for c in d.constants)
    known.add(0)
    for nd in prog['nodes']:           # partial sums a list sum goes through
        if nd['k'] in ('lsum', 'mix', 'sumn'):
            items = nd['args' if nd['k'] == 'sumn' else 'items']
            acc = 0
            for o in items:
                v = src.operand(o)
                if not isinstance(v, int):      # expanded over a list
                    break
                acc = rho.add(acc, v)
                known.add(acc)
    # (a) an operator unit with the inputs of a source operator, other opcode
    by_ins = {}
    for o in src.ops:
        by_ins.setdefault((o['cls'], tuple(o['ins'])), set()).add(o['special'])
    s_opvals = {o['val'] for o in src.ops}
    for o in dec.ops:
        if o['val'] in s_opvals:
            continue
        want = by_ins.get((o['cls'], tuple(o['ins'])))
        if want and o['special'] not in want:
            arity = 'unary' if o['cls'] == 'UnaryOpUGen' else 'binary'
            names = (oc.UNARY_NAME if arity == 'unary' else oc.BINARY_NAME)
            return [(f'C01/opcode-mismatch/{arity}',
                     f'unit {o["u"]!r} carries special index {o["special"]}; the '
                     f'source operator with these inputs is '
                     f'{sorted(names[s] for s in want)} = {sorted(want)}')]
    # (b) first ring unit, among those a mismatching unit reads, whose value
    #     no source node has although all its inputs do
    cone = set()
    stack = [w[1] for du in bad_dec for w in du['u'].inputs if w[0] == 'u']
    stack += [w[1] for o in dec.ops if o['val'] not in s_opvals
              for w in o['u'].inputs if w[0] == 'u']
    while stack:
        k = stack.pop()
        if k not in cone:
            cone.add(k)
            stack.extend(w[1] for w in d.units[k].inputs if w[0] == 'u')
    for a in dec.arith:
        if a['u'].index in cone and a['val'] not in known \
                and all(x in known for x in a['ins']):
            return [(f'C01/wrong-value/{a["desc"]}',
                     f'unit {a["u"]!r} computes a value no source expression has '
                     f'(all of its inputs are values of source expressions)')]
    for o in dec.ops:
        if o['val'] not in s_opvals and all(x in known for x in o['ins']):
            return [('C01/wrong-operands/operator-unit',
                     f'unit {o["u"]!r} {o["desc"]}: no source operator has this '
                     f'opcode with these operand values')]
    # (c) same class and tag, other rate / other inputs
    def tag_of(u):
        return u.get('tag')
    src_by_tag = {(u['cls'], u['tag']): u for u in src.units if u['tag']}
    tagvals = {rho.const(t): t for (_, t) in src_by_tag}
    for du in bad_dec:
        t = next((tagvals[x] for x in du['ins'] if x in tagvals), None)
        su = src_by_tag.get((du['cls'], t))
        if su is not None:
            if su['rate'] != du['rate']:
                return [(f'C01/unit-rate/{du["cls"]}',
                         f'{du["u"]!r} created at rate {su["rate"]}')]
            diff = [k for k, (x, y) in enumerate(zip(su['ins'], du['ins']))
                    if x != y]
            if len(su['ins']) != len(du['ins']):
                return [(f'C01/unit-input-count/{du["cls"]}', repr(du['u']))]
            return [('C01/wire-differs/tagged-unit-input',
                     f'{du["u"]!r}: inputs {diff} do not carry the value of the '
                     f'source expression (node v{su["node"]})')]
    for u, s, lv, c in bad_src:
        if c > s:
            return [(f'C01/unit-duplicated/{u["cls"]}',
                     f'node v{u["node"]}: {s} in source, {c} in definition')]
        if LOST_IN_SORT:
            # refinement of the key only (internal probes, see install_counters)
            return [('C01/unit-missing/lost-in-topological-sort/'
                     + '+'.join(ORPHAN_KINDS or ['unknown']),
                     f'node v{u["node"]} {u["cls"]} ({u["eff"]}): {s} in source, '
                     f'{c} in definition; units that never became available in '
                     f'SynthDef._topological_sort: {LOST_IN_SORT}')]
        return [(f'C01/unit-missing/{u["cls"]}',
                 f'node v{u["node"]} ({u["eff"]}, live={lv}): {s} in source, '
                 f'{c} in definition')]
    for du in bad_dec:
        return [(f'C01/unit-extra/{du["cls"]}', repr(du['u']))]
    o = missing_ops[0]
    return [(f'C01/operator-missing/{o["cls"]}({o["name"]})',
             f'live node v{o["node"]} has no unit with its opcode and operands')]


STATEFUL_SEARCH_CAP = 150


def has_stateful_ops(prog, d, oc):
    for nd in prog['nodes']:
        if (nd['k'] == 'un' and nd['op'] in oc.STATEFUL_UNARY) or \
                (nd['k'] == 'bin' and nd['op'] in oc.STATEFUL_BINARY):
            return True
    return any(oc.is_stateful_op(u.cls, u.special) for u in d.units)


def compare_stateful(prog, d, key, gg, oc, stats):
    """Second interpretation of the same program (run after the functional
    one passed): operator units with a random-generator opcode are STATEFUL
    LEAVES, one per creation.  The source gives the n creations of one
    operator over the same operand values the identities 0..n-1; they are
    interchangeable, so the definition is right iff SOME injection of its
    units with that opcode and those operand values into the creations makes
    every other monitor of compare() pass (absent creations must be dead).
    Depth-first search over the injections in unit order; a correct
    compilation is found by the first run when the sort keeps creation order."""
    rho = gg.Rho(key, gg.PRIMES[0], stateful_ops=True)
    choices, runs, first = [], 0, None
    while True:
        tr, st = {}, Counter()
        probs = compare(prog, d, rho, gg, oc, st, choices, tr)
        runs += 1
        if not probs:
            stats['stateful_operator_units_matched'] += tr.get('matched', 0)
            stats['stateful_operator_programs_checked'] += 1
            stats['max_stateful_assignment_runs'] = max(
                stats['max_stateful_assignment_runs'], runs)
            if runs > 1:
                stats['stateful_assignment_not_first'] += 1
            src = gg.SourceEval(prog, rho)
            grp = [n for n in src.stateful_count.values() if n > 1]
            stats['stateful_operator_groups_of_two_or_more'] += len(grp)
            stats['stateful_operator_units_in_groups'] += sum(grp)
            return []
        first = first or probs
        br = tr.get('branching', [])
        ch = (list(choices) + [0] * len(br))[:len(br)]
        i = len(br) - 1
        while i >= 0 and ch[i] + 1 >= br[i]:
            i -= 1
        if i < 0:
            break
        choices = ch[:i] + [ch[i] + 1]
        if runs >= STATEFUL_SEARCH_CAP:
            stats['stateful_assignment_search_capped'] += 1
            return []
    # ---- no injection works: name the mechanism ------------------------------
    fn = gg.Rho(key, gg.PRIMES[0])
    src = gg.SourceEval(prog, fn)
    dec = DecodedEval(d, fn, gg, oc)
    live = src.live_nodes()
    groups = {}
    for o in src.ops:
        if oc.is_stateful_op(o['cls'], o['special']):
            g = groups.setdefault(o['val'], {'s': 0, 'lv': 0, 'o': o})
            g['s'] += 1
            g['lv'] += o['node'] in live and src.semantically_live(
                o['node'], o.get('chan'))     # not absorbed by x*0 ...
    d_cnt = Counter(o['val'] for o in dec.ops
                    if oc.is_stateful_op(o['cls'], o['special']))
    for val, g in groups.items():
        o, c = g['o'], d_cnt.get(val, 0)
        nm = f'{o["cls"]}({o["name"]})'
        if c < g['lv']:
            return [(f'C01/stateful-operator-units-merged/{nm}',
                     f'node v{o["node"]}: the function creates {g["s"]} {nm} '
                     f'units over the same operand(s), {g["lv"]} of them read '
                     f'by the outputs; the definition has {c}.  {o["name"]} is '
                     f'a random generator: each unit draws its own numbers')]
        if c > g['s']:
            return [(f'C01/stateful-operator-unit-duplicated/{nm}',
                     f'node v{o["node"]}: {g["s"]} in source, {c} in definition')]
    o = next(iter(groups.values()))['o'] if groups else None
    nm = f'{o["cls"]}({o["name"]})' if o else 'none-in-source'
    return [(f'C01/stateful-operator-unit-wiring/{nm}',
             f'no assignment of the definition\'s random-operator units to the '
             f'units the function creates makes the consumers read what the '
             f'function wired; first attempt: {first[0][0]}: {first[0][1]}')]


def width_first_order(d, prog, gg, stats):
    """creation order is known from the tag constants: every tagged unit
    created after a width-first unit must be placed after it"""
    tags = gg.tag_creation_order(prog)
    pos = []
    for u in d.units:
        for w in u.inputs:
            if w[0] == 'c':
                c = d.constants[w[1]]
                if c == c and abs(c) < 1e9 and c == int(c) \
                        and int(c) in tags and gg.tag_belongs_to(
                        prog['nodes'][tags[int(c)]], u.cls):
                    pos.append((u.index, tags[int(c)], u))
                    break
    for pw, nw, w in pos:
        if w.cls not in gg.WIDTH_FIRST_CLASSES:
            continue
        stats['width_first_units_checked'] += 1
        for pt, nt, t in pos:
            if nt > nw:
                stats['width_first_pairs_checked'] += 1
                if pt < pw:
                    return [('C01/width-first-order',
                             f'{t!r} was created after {w!r} but is placed '
                             f'before it')]
    return []


# ---------------------------------------------------------------------------
# counters of fired optimiser paths (evidence only)
# ---------------------------------------------------------------------------
FOLDED_KEY = 'C01/operand-folded-to-python-number'
LOST_IN_SORT = []     # names of units the last build's topological sort dropped
ORPHAN_KINDS = []     # why units read by the graph were not part of it
_HISTORY = {'removed': [], 'replaced': [], 'installed': []}


def install_counters(fired):
    from sc3.synth import ugen as ugn
    from sc3.synth import synthdef as sdf

    orig_sort = sdf.SynthDef.__dict__.get('_topological_sort')
    if orig_sort is not None:
        def sort_probe(self):
            before = list(self._children)
            ids = {id(u) for u in before}
            kinds = set()
            for u in before:          # units the graph reads but does not hold
                for x in u.inputs:
                    if isinstance(x, ugn.OutputProxy):
                        x = x.source_ugen
                    if isinstance(x, ugn.SynthObject) and id(x) not in ids:
                        if any(x is y for y in _HISTORY['removed']):
                            kinds.add('removed-unit-still-read')
                        elif any(x is y for y in _HISTORY['replaced']):
                            kinds.add('replaced-unit-still-read')
                        elif any(x is y for y in _HISTORY['installed']):
                            kinds.add('superseded-replacement-still-read')
                        else:
                            kinds.add('never-installed-unit-read')
            orig_sort(self)
            after = {id(u) for u in self._children}
            LOST_IN_SORT[:] = [type(u).__name__ for u in before
                               if id(u) not in after]
            ORPHAN_KINDS[:] = sorted(kinds)
        sdf.SynthDef._topological_sort = sort_probe

    orig_remove = sdf.SynthDef.__dict__.get('_remove_ugen')
    if orig_remove is not None:
        def remove_probe(self, ugen):
            _HISTORY['removed'].append(ugen)
            return orig_remove(self, ugen)
        sdf.SynthDef._remove_ugen = remove_probe

    def wrap_method(cls, name, label_of):
        orig = cls.__dict__.get(name)
        if orig is None:
            return

        def w(self, *a, **k):
            r = orig(self, *a, **k)
            lab = label_of(self, a, r)
            if lab:
                fired[lab] += 1
            return r
        setattr(cls, name, w)

    def wrap_new1(cls):
        cm = cls.__dict__.get('_new1')
        if cm is None:
            return
        orig = cm.__func__

        def w(c, *a, **k):
            r = orig(c, *a, **k)
            if not isinstance(r, cls):
                fired[f'shortcut_{cls.__name__}'] += 1
            return r
        setattr(cls, '_new1', classmethod(w))

    def rep_label(self, a, r):
        old, new = a[0], a[1]
        _HISTORY['replaced'].append(old)
        _HISTORY['installed'].append(new)
        oop = getattr(old, 'operator', None)
        if isinstance(new, ugn.BinaryOpUGen):
            return {('+', '-'): 'replace_addneg_to_sub',
                    ('-', '+'): 'replace_subneg_to_add'}.get(
                        (oop, new.operator), f'replace_{oop}_to_{new.operator}')
        return f'replace_{type(new).__name__}'

    wrap_method(sdf.SynthDef, '_replace_ugen', rep_label)
    wrap_method(ugn.SynthObject, '_perform_dead_code_elimination',
                lambda self, a, r: 'dead_code_removed' if r else None)
    for c in (ugn.BinaryOpUGen, ugn.MulAdd, ugn.Sum3, ugn.Sum4):
        wrap_new1(c)


def raise_site(e):
    """'graph-function' when the exception is raised by the statement of the
    graph function itself (Python semantics of the objects the library
    handed out), else innermost library frame"""
    tb = e.__traceback__
    last = None
    while tb is not None:
        last = tb
        tb = tb.tb_next
    if last is not None and last.tb_frame.f_code.co_filename.startswith(
            '<program'):
        return 'graph-function'
    sites = tb_sites(e)
    return ':'.join(sites[-1]) if sites else 'graph-function'


class no_folding:
    """Attribution probe (keys only, never a verdict): inside this context the
    two constructor shortcuts that hand a Python number back to the graph
    function (`x * 0 -> 0.0`, `x.madd(0, c) -> c`) are switched off, everything
    else is the library as it is.  A violation of a program of the lifted class
    that disappears here is attributable to the folded operand."""

    def __enter__(self):
        from sc3.synth import ugen as ugn
        self.ugn = ugn
        self.saved = (ugn.BinaryOpUGen.__dict__['_new1'],
                      ugn.MulAdd.__dict__['_new1'])
        bin_orig = self.saved[0].__func__
        mad_orig = self.saved[1].__func__
        plain = ugn.SynthObject.__dict__['_new1'].__func__

        def is_zero(x):
            return isinstance(x, (int, float)) and x == 0

        def bin_new1(cls, rate, selector, a, b):
            if selector == '*' and (is_zero(a) or is_zero(b)) and not (
                    isinstance(a, (int, float)) and isinstance(b, (int, float))):
                return plain(cls, rate, selector, a, b)
            return bin_orig(cls, rate, selector, a, b)

        def mad_new1(cls, rate, input, mul, add):
            if is_zero(mul):
                if is_zero(add):
                    return input * mul
                if cls._can_be_muladd(input, mul, add):
                    return plain(cls, rate, input, mul, add)
                return (input * mul) + add
            return mad_orig(cls, rate, input, mul, add)
        ugn.BinaryOpUGen._new1 = classmethod(bin_new1)
        ugn.MulAdd._new1 = classmethod(mad_new1)
        return self

    def __exit__(self, *a):
        self.ugn.BinaryOpUGen._new1, self.ugn.MulAdd._new1 = self.saved
        return False


def attributable_to_folding(prog, gg, oc, scgf, seed_key):
    """the program is of the lifted class and is compiled faithfully once
    the library does not fold `x*0` / `madd(0, c)` to a Python number"""
    if not (prog.get('folding_agnostic') and prog.get('foldable_nodes')):
        return False
    try:
        with no_folding():
            d = scgf.parse(bytes(gg.build(prog).as_bytes()))
        for k in range(2):
            rho = gg.Rho(f'{seed_key}-cf-{k}'.encode(), gg.PRIMES[k])
            if compare(prog, d, rho, gg, oc, Counter()):
                return False
        if has_stateful_ops(prog, d, oc) and compare_stateful(
                prog, d, f'{seed_key}-cf-leaf'.encode(), gg, oc, Counter()):
            return False
        return not width_first_order(d, prog, gg, Counter())
    except Exception:
        return False


def mechanism_suffix(prog, exc=None, site=None):
    """class of input that names the mechanism of a failure (keys only)"""
    feats = prog.get('features', ())
    if exc is not None:
        # raised by the graph function itself on a plain Python object ...
        if site == 'graph-function' and 'array-control-arithmetic' in feats \
                and "'list'" in safe(str, exc):
            return '/array-control-is-a-plain-list'
        if 'array-control-arithmetic' in feats and any(
                t in safe(str, exc) for t in ('list', 'sequence')):
            return '/array-control-is-a-plain-list'
        return ''
    if 'array-control-arithmetic' in feats:
        return '/array-control-arithmetic'
    return ''


def purity_census(gg, acc):
    """which of the side-effecting classes of the documentation based table
    the library's class tree marks as removable (evidence only)"""
    try:
        import sc3.synth.ugens as ugens
        from sc3.synth import ugen as ugn
    except Exception:
        return
    mixin = getattr(ugn, 'PureUGenMixin', None)
    n_lib = n_pure = n_exempt = 0
    for name, ent in gg.UGENS.items():
        if ent['eff'] != 'effect' or ent.get('implicit'):
            continue
        cls = getattr(ugens, name, None)
        if not isinstance(cls, type):
            acc.count('max_effect_class_not_in_library_' + name, 1)
            continue
        n_lib += 1
        if mixin is not None and mixin in cls.__mro__:
            n_pure += 1
            owner = next((k for k in cls.__mro__
                          if '_optimize_graph' in k.__dict__), None)
            if owner is not mixin:
                n_exempt += 1
                acc.count('max_effect_class_pure_base_exempted_' + name, 1)
            else:
                acc.count('max_effect_class_pure_base_not_exempted_' + name, 1)
    acc.count('max_effect_class_in_library', n_lib)
    acc.count('max_effect_class_with_pure_base', n_pure)
    acc.count('max_effect_class_with_pure_base_exempted', n_exempt)


def demand_counters(d, gg, acc):
    for u in d.units:
        if u.cls not in gg.ARITH_CLASSES:
            continue
        rs = [0 if w[0] == 'c' else d.units[w[1]].out_rates[w[2]]
              for w in u.inputs]
        if 3 in rs:
            acc.count('arith_units_with_demand_input')
            if u.cls == 'UnaryOpUGen':
                acc.count('unary_units_with_demand_input')
            if 1 in rs:
                acc.count('arith_units_demand_and_control_input')
            if 2 in rs:
                acc.count('arith_units_demand_and_audio_input')
            if rs.count(3) > 1:
                acc.count('arith_units_two_demand_inputs')


def run_shard(spec, acc):
    from vf import gen_graph as gg, opcodes as oc, scgf
    fired = Counter()
    install_counters(fired)
    rhos = None
    seen_wf = False
    stats = Counter()
    kind = spec['shard'].get('kind', 'g')
    extra = kind == 'x'
    stateful = kind == 'r'
    if extra:
        purity_census(gg, acc)
    for i in iter_cases(spec):
        rng = case_rng(spec['seed'], 'C01', kind, i)
        if stateful:
            prog = gg.gen_program(rng, name=f'c01r_{i}', stateful=True)
        else:
            prog = gg.gen_program(rng, name=f'c01{"x" if extra else ""}_{i}',
                                  extra=extra)
        prog['extra'] = extra
        sig = h64(json.dumps([prog['params'], prog['nodes']], sort_keys=True))
        f0 = sum(fired.values())
        LOST_IN_SORT[:] = []
        ORPHAN_KINDS[:] = []
        for v in _HISTORY.values():
            v[:] = []
        acc.count('programs_generated')
        acc.count('source_nodes', len(prog['nodes']))
        if prog.get('folding_agnostic'):
            acc.count('folding_agnostic_programs')
            if prog.get('foldable_nodes'):
                acc.count('folding_agnostic_programs_with_foldable_nodes')
        for ft in prog.get('features', ()):
            acc.count('feature_' + ft)
        try:
            sd = gg.build(prog)
            raw = bytes(sd.as_bytes())
        except Exception as e:
            site = raise_site(e)
            acc.case(sig, nontrivial=sum(fired.values()) > f0)
            key = f'C01/compile-raises/{type(e).__name__}/{site}' \
                + mechanism_suffix(prog, e, site)
            manifestation = key
            if attributable_to_folding(prog, gg, oc, scgf,
                                       f'{spec["seed"]}-{i}'):
                key = FOLDED_KEY
                acc.count('folded_operand_' + f'{type(e).__name__}@{site}')
            acc.violation(key,
                          {'case': i, 'manifestation': manifestation,
                           'error': f'{type(e).__name__}: '
                                    + safe(lambda: str(e)[:300]),
                           'script': gg.script(prog),
                           'tb': safe(short_tb, e, 5)})
            continue
        acc.count('programs_compiled')
        if seen_wf:
            acc.count('programs_compiled_after_a_width_first_definition')
        if 'width-first-unit' in prog.get('features', ()):
            seen_wf = True
        acc.case(sig, nontrivial=sum(fired.values()) > f0)
        try:
            d = scgf.parse(raw)
        except scgf.ScgfError as e:
            acc.violation('C01/definition-undecodable',
                          {'case': i, 'error': str(e), 'script': gg.script(prog)})
            continue
        acc.count('decoded_units', len(d.units))
        if extra:
            try:
                demand_counters(d, gg, acc)
            except (IndexError, TypeError):
                pass            # malformed wires are reported by compare()
        for u in d.units:
            if u.cls in gg.ARITH_CLASSES:
                acc.count('arith_units_rate_checked')
                if u.cls in ('Sum3', 'Sum4', 'MulAdd'):
                    acc.count('decoded_' + u.cls)
        # three independent interpretations over three different primes
        rhos = [gg.Rho(f'C01-{spec["seed"]}-{i}-{k}'.encode(), gg.PRIMES[k])
                for k in range(3)]
        found = None
        wfo = width_first_order(d, prog, gg, stats)
        for k, rho in enumerate(rhos):
            st = Counter()
            probs = compare(prog, d, rho, gg, oc, st)
            if k == 0:
                stats.update(st)
            if probs:
                found = (k, probs[0])
                break
        if not found and has_stateful_ops(prog, d, oc):
            probs = compare_stateful(
                prog, d, f'C01-{spec["seed"]}-{i}-leaf'.encode(), gg, oc, stats)
            if probs:
                found = (0, probs[0])
        if not found and wfo:
            found = (0, wfo[0])
        if found:
            k, (key, detail) = found
            if not key.startswith(('C01/arith-rate', 'C01/width-first',
                                   'C01/opcode', 'C01/infinite-constant',
                                   'C01/non-finite',
                                   'C01/stateful-operator')):
                key += mechanism_suffix(prog)
            manifestation = key
            if attributable_to_folding(prog, gg, oc, scgf,
                                       f'{spec["seed"]}-{i}'):
                key = FOLDED_KEY
                acc.count('folded_operand_' + manifestation.split('/')[1])
            acc.violation(key, {'case': i, 'rho': k, 'detail': detail,
                                'manifestation': manifestation,
                                'script': gg.script(prog),
                                'definition': d.describe()['units']})
        if acc.want_sample() and 6 <= len(prog['nodes']) <= 18 \
                and sum(fired.values()) > f0:
            acc.sample({'case': i, 'program': gg.render(prog),
                        'definition_units': [repr(u) for u in d.units]})
    if extra:
        acc.count('max_effect_unit_classes_unreferenced',
                  sum(1 for k in stats if k.startswith('effect_unreferenced_')))
    for k, v in stats.items():
        acc.count(k, v)
    for k, v in fired.items():
        acc.count('fired_' + k, v)
