"""C18, responders that SHARE their function (round 10).

The class the other monitors cannot reach: to tell responders apart in its log
the history monitor (vf/c18_hist.py) gives every responder a closure of its own,
so the dispatcher tables never hold the same function twice.  Users do: one
handler registered by two modules, one bound method on several paths, the
hot-reload idiom `new = OscFunc(handler, path); old.free()`, a callable
instance behind an exact and a matching responder.  Every bookkeeping step of
the dispatchers that looks a function up BY VALUE (membership, index, remove,
a dict or set keyed by the function, equality of bound methods) is then able to
confuse two responders, and 'each once' / 'freed ... never invoked' / 'in
registration order' of the statement are about responders, not functions.

Workload: per history a pool of 1-3 handlers - plain function, lambda, bound
method (a fresh `obj.method` expression per use: equal, not identical),
callable instance, functools.partial - and 2-9 responders created over them
(exact and matching, 2-3 paths with collisions, default dispatchers and
dispatcher instances, constructor / .matching / @oscfunc, 35 % with a src /
recv_port / argument-template filter), interleaving create, hot reload (create
the copy, then free / disable the old one - or the other way round), free,
disable, enable, one_shot, function replacement (to a handler another responder
already uses), permanent, CmdPeriod.run() with messages.

Oracle: a handler cannot know which responder invoked it, so invocations are
COUNTED per handler: for every message the number of invocations of handler h
must equal the number of enabled responders with function h that accept the
message (vf.model_dispatch.DispatchModel, one model responder per real
responder); every operation returns normally (a later free() of a sharer must
not raise), `enabled` and the class listings agree with the model; after the
epilogue freed everything nothing is invoked.  Order: when all responders a
message must invoke sit on one path of one dispatcher, the sequence of handler
labels must be the one registration order gives (both readings - creation and
last enabling - have to agree for a pair to be constrained, as in c18_hist).
Templates only hold values and messages are never shorter than a template, so
no verdict is left open."""

import functools

from . import osc
from . import c18_gen as gen
from .c18_rig import same_value, tb_sites, exc_name
from .common import short_tb
from .model_dispatch import DispatchModel, osc_match

KEY = 'C18/shared-function/'
INJECTED = ()


class Stop(Exception):
    pass


class Target:
    """Object whose bound method / __call__ is used as a responder function."""

    def __init__(self, rig, label):
        self.rig, self.label = rig, label

    def method(self, msg, time, addr, port):
        self.rig._on_inv(self.label, 0, msg, time, addr, port)

    def __call__(self, msg, time, addr, port):
        self.rig._on_inv(self.label, 0, msg, time, addr, port)


HANDLER_KINDS = ['function', 'function', 'lambda', 'bound-method', 'bound-method',
                 'callable-instance', 'partial']


class Handler:
    def __init__(self, rig, label, kind):
        self.label, self.kind = label, kind
        if kind == 'function':
            def handler(msg, time, addr, port):
                rig._on_inv(label, 0, msg, time, addr, port)
            self.obj = handler
        elif kind == 'lambda':
            self.obj = lambda *a: rig._on_inv(label, 0, *a)
        elif kind == 'partial':
            self.obj = functools.partial(rig._on_inv, label, 0)
        else:
            self.obj = Target(rig, label)

    def get(self):
        """What a user hands over for this handler now."""
        if self.kind == 'bound-method':
            return self.obj.method      # a new, equal bound method object
        return self.obj


class SharedRunner:
    def __init__(self, rig, rng, acc, case, ports):
        self.rig, self.rng, self.acc, self.case = rig, rng, acc, case
        self.model = DispatchModel()
        self.ports = [rig.port] + list(ports)
        self.senders = list(gen.SENDERS)
        self.log = []
        self.objs = {}          # rid -> OscFunc
        self.hof = {}           # rid -> handler label (current function)
        self.spec = {}          # rid -> creation spec
        self.disps = {}
        self.next_rid = 0
        self.feat = {'shared_msgs': 0, 'state_ops': 0, 'must': 0, 'negatives': 0}
        base = rng.choice(['/s', '/sh/a', '/k'])
        self.paths = [base + x for x in rng.sample(['/a', '/b', '/ab', '/a/b'],
                                                    rng.choice([1, 2, 2, 3]))]
        kinds = [rng.choice(HANDLER_KINDS) for _ in range(rng.choice([1, 2, 2, 3]))]
        self.handlers = [Handler(rig, f'h{k}-{kind}', kind)
                         for k, kind in enumerate(kinds)]
        self.by_label = {h.label: h for h in self.handlers}
        rig.on_invoke = None

    # ------------------------------------------------------------ reporting
    def violation(self, key, **w):
        res = getattr(self, 'last_res', None)
        if res is not None and res.clock_step:
            self.acc.mark_inconclusive('host clock stepped during a delivery')
            raise Stop(key)
        w.update({'case': self.case, 'history': self.log[-40:],
                  'handlers': [h.label for h in self.handlers],
                  'responders': [dict(r.describe(), handler=self.hof.get(r.rid))
                                 for r in self.model.resps.values()][:20]})
        self.acc.violation(key, w)
        raise Stop(key)

    # ------------------------------------------------------------ creation
    def new_spec(self, like=None):
        rng = self.rng
        if like is not None:
            spec = dict(self.spec[like])
            spec['handler'] = self.hof[like]
        else:
            live = [r for r in self.model.resps.values() if not r.freed]
            if live and rng.random() < 0.6:
                t = rng.choice(live)
                path, kind = t.path, (t.kind if rng.random() < 0.7
                                      else rng.choice(['exact', 'match']))
            else:
                path, kind = rng.choice(self.paths), rng.choice(['exact', 'exact', 'match'])
            spec = {'kind': kind, 'path': path, 'src': None, 'recv_port': None,
                    'template': None, 'disp': 0, 'via': 'ctor',
                    'handler': rng.choice(self.handlers).label}
            k = rng.random()
            if k < 0.12:
                ip, p = rng.choice(self.senders)
                spec['src'] = (ip, rng.choice([p, None]))
            elif k < 0.24:
                spec['recv_port'] = rng.choice(self.ports)
            elif k < 0.35:
                spec['template'] = [('val', rng.choice([1, 2]))]
            if rng.random() < 0.15:
                spec['disp'] = 1
            if rng.random() < 0.15:
                spec['via'] = 'decorator'
        spec['rid'] = self.next_rid
        self.next_rid += 1
        return spec

    def dispatcher(self, kind, n):
        d = self.disps.get((kind, n))
        if d is None:
            from sc3.base import responders as rpd
            d = (rpd.OscMessagePatternDispatcher if kind == 'match'
                 else rpd.OscMessageDispatcher)()
            self.disps[(kind, n)] = d
        return d

    def construct(self, spec):
        from sc3.base.responders import OscFunc, oscfunc
        from sc3.base.netaddr import NetAddr
        f = self.by_label[spec['handler']].get()
        src = NetAddr(*spec['src']) if spec['src'] else None
        tmpl = None if spec['template'] is None else [it[1] for it in spec['template']]
        disp = self.dispatcher(spec['kind'], spec['disp']) if spec['disp'] else None
        kw = {}
        if spec['via'] == 'decorator':
            if src is not None:
                kw['src_id'] = src
            if spec['recv_port'] is not None:
                kw['recv_port'] = spec['recv_port']
            if tmpl is not None:
                kw['arg_template'] = tmpl
            if disp is not None:
                obj = oscfunc(spec['path'], dispatcher=disp, **kw)(f)
            elif spec['kind'] == 'match':
                obj = oscfunc(spec['path'], matching=True, **kw)(f)
            else:
                obj = oscfunc(spec['path'], **kw)(f)
        elif disp is not None:
            obj = OscFunc(f, spec['path'], src, spec['recv_port'], arg_template=tmpl,
                          dispatcher=disp)
        else:
            ctor = OscFunc.matching if spec['kind'] == 'match' else OscFunc
            obj = ctor(f, spec['path'], src, spec['recv_port'], arg_template=tmpl)
        rid = spec['rid']
        self.objs[rid] = obj
        self.hof[rid] = spec['handler']
        self.spec[rid] = spec
        self.model.create(spec['kind'], spec['path'], spec['src'], spec['recv_port'],
                          spec['template'], rid=rid, disp=spec['disp'])

    # ------------------------------------------------------------ operations
    def sharers(self, rid):
        """Other live responders with the same function as rid."""
        h = self.hof[rid]
        return [q for q, r in self.model.resps.items()
                if q != rid and not r.freed and self.hof[q] == h]

    def op(self, name, rid=None, arg=None):
        m = self.model
        entry = ['op', name, rid, arg if name != 'create' else
                 {k: v for k, v in arg.items()}]
        self.log.append(entry)
        shared = False
        try:
            if name == 'create':
                shared = any(not r.freed and self.hof[q] == arg['handler']
                             for q, r in m.resps.items())
                self.construct(arg)
            elif name == 'cmd_period':
                from sc3.base.systemactions import CmdPeriod
                shared = True
                CmdPeriod.run()
                m.cmd_period()
            else:
                obj, r = self.objs[rid], m.resps[rid]
                shared = bool(self.sharers(rid))
                if name == 'free':
                    obj.free(); m.free(rid)
                elif name == 'disable':
                    obj.disable(); m.disable(rid)
                elif name == 'enable':
                    obj.enable(); m.enable(rid)
                elif name == 'one_shot':
                    obj.one_shot(); m.one_shot(rid)
                elif name == 'set_perm':
                    obj.permanent = arg; m.set_permanent(rid, arg)
                elif name == 'set_func':
                    obj.func = self.by_label[arg].get()
                    m.set_func(rid)
                    self.hof[rid] = arg
                    shared = shared or bool(self.sharers(rid))
                else:
                    raise AssertionError(name)
        except Stop:
            raise
        except AssertionError:
            raise
        except Exception as e:
            sites = tb_sites(e)
            where = sites[-1][1] if sites else 'harness'
            self.violation(f'{KEY}op-raises/{name}/{exc_name(e)}/{where}',
                           tb=short_tb(e), rid=rid, shares_function_with=(
                               self.sharers(rid) if rid in self.hof else None))
        self.acc.count('shared_op/' + name)
        if shared:
            self.acc.count('shared_ops_on_a_sharer')
            self.acc.count('shared_ops_on_a_sharer/' + name)
        if name != 'create':
            self.feat['state_ops'] += 1
        self.check_flags('after-' + name)

    def check_flags(self, when):
        from sc3.base.responders import OscFunc
        for rid, r in self.model.resps.items():
            obj = self.objs[rid]
            if bool(obj.enabled) != bool(r.enabled):
                self.violation(f'{KEY}enabled-flag-differs/{when}', rid=rid,
                               library=bool(obj.enabled), model=bool(r.enabled))
        try:
            listed = {id(x) for x in list(OscFunc._all_func_proxies)}
        except Exception as e:
            self.violation(f'{KEY}listing-raises/{exc_name(e)}', tb=short_tb(e))
        for rid, r in self.model.resps.items():
            if (id(self.objs[rid]) in listed) != (not r.freed):
                self.violation(f'{KEY}listing-differs/{when}', rid=rid,
                               listed=id(self.objs[rid]) in listed, freed=r.freed)
        self.acc.count('shared_flag_checks')

    # ------------------------------------------------------------ messages
    def patterns_for(self, path):
        head, last = path.rsplit('/', 1)
        out = [path, path, head + '/*', head + '/' + last[:-1] + '?',
               head + '/{' + last + ',zz}', head + '/' + last[0] + '*']
        return out

    def gen_message(self):
        rng, m = self.rng, self.model
        live = [r for r in m.resps.values() if r.enabled]
        sender = rng.choice(self.senders)
        port = rng.choice(self.ports) if rng.random() < 0.25 else self.ports[0]
        if live and rng.random() < 0.85:
            r = rng.choice(live)
            addr = rng.choice(self.patterns_for(r.path)) if rng.random() < 0.35 else r.path
            if r.src is not None and rng.random() < 0.7:
                cands = [s for s in self.senders if s[0] == r.src[0]
                         and (r.src[1] is None or r.src[1] == s[1])]
                if cands:
                    sender = rng.choice(cands)
            if r.recv_port is not None and rng.random() < 0.7:
                port = r.recv_port
        else:
            addr = rng.choice(self.paths + [self.paths[0] + 'q'])
        args = [rng.choice([1, 1, 2, 3])] + ([rng.choice([7, 'x', 1.5])]
                                             if rng.random() < 0.4 else [])
        return addr, args, sender, port

    def send(self, addr=None, args=None, epilogue=False):
        if addr is None:
            addr, args, sender, port = self.gen_message()
        else:
            sender, port = self.senders[0], self.ports[0]
        d = osc.enc_msg(addr, *args)
        self.log.append(['msg', addr, list(args), list(sender), port])
        res = self.rig.deliver(d, sender, port)
        self.last_res = res
        self.check(addr, args, res, epilogue)

    def check(self, addr, args, res, epilogue):
        acc, m = self.acc, self.model
        if res.hangs:
            self.violation(KEY + 'hang/' + res.hangs[0][0], res=res.witness())
        if res.escaped:
            self.violation(f"{KEY}handle-request-raises/{res.escaped['exc']}",
                           res=res.witness())
        if not res.canary_ok:
            self.violation(KEY + 'receiver-dead', res=res.witness())
        errs = [e for e in res.errs if e['exc']]
        if errs:
            e = errs[0]
            site = e['sites'][-1][1] if e['sites'] else e['logger']
            self.violation(f"{KEY}dispatch-raises/{e['exc']}/{site}", err=e,
                           res=res.witness())
        sender, port = tuple(res.sender), res.recv_port
        exp = m.expectations(addr, args, sender, port)
        assert 'either' not in exp.values(), (addr, args, exp)
        must = [rid for rid, v in sorted(exp.items()) if v == 'must']
        want = {}
        for rid in must:
            want[self.hof[rid]] = want.get(self.hof[rid], 0) + 1
        got = {}
        seq = []
        for e in res.inv:
            if e[0] != 'inv':
                continue
            _, label, _, msg, time_, a, p = e
            got[label] = got.get(label, 0) + 1
            seq.append(label)
            if not (msg[0] == addr and same_value(msg[1:], list(args))):
                self.violation(KEY + 'wrong-args/msg', got=repr(msg)[:200])
            if p is not None and p != port:
                self.violation(KEY + 'wrong-args/port', got=p, arrived_on=port)
            if a is not None and (a[0] != sender[0] or a[2] != sender[1]):
                self.violation(KEY + 'wrong-args/sender', got=list(a), expected=list(sender))
        acc.count('shared_messages')
        acc.count('shared_invocations_checked', sum(got.values()))
        self.feat['must'] += len(must)
        if any(v == 'not' and m.resps[r].enabled for r, v in exp.items()):
            self.feat['negatives'] += 1
        # responders of this message that share their function with another
        # live responder (enabled or not)
        n_live = {}
        for rid, r in m.resps.items():
            if not r.freed:
                n_live[self.hof[rid]] = n_live.get(self.hof[rid], 0) + 1
        if any(c > 1 for c in want.values()):
            acc.count('shared_messages_invoking_one_function_more_than_once')
            self.feat['shared_msgs'] += 1
        for label in sorted(set(want) | set(got)):
            w, g = want.get(label, 0), got.get(label, 0)
            if w == g:
                if w and n_live.get(label, 0) > w:
                    acc.count('shared_sharer_silent_while_other_fires')
                continue
            mine = [rid for rid in must if self.hof[rid] == label]
            kinds = sorted({m.resps[rid].kind for rid in mine}) or \
                sorted({r.kind for rid, r in m.resps.items() if self.hof[rid] == label})
            kind = kinds[0] if len(kinds) == 1 else 'exact+match'
            if epilogue or not w:
                why = ('after-everything-was-freed' if epilogue else
                       'no-enabled-responder-with-this-function-accepts')
                self.violation(f'{KEY}unexpected-invocation/{why}', handler=label,
                               invoked=g, msg=[addr] + list(args))
            side = 'missed-invocation' if g < w else 'extra-invocation'
            groups = {(m.resps[rid].kind, m.resps[rid].disp, m.resps[rid].path)
                      for rid in mine}
            where = ('sharers-on-one-path' if len(groups) < len(mine)
                     else 'one-responder-per-path')
            self.violation(f'{KEY}{side}/{kind}/{where}', handler=label,
                           invoked=g, enabled_responders_that_accept=w, rids=mine,
                           msg=[addr] + list(args), sender=list(sender), port=port)
        # order: all of them on one path of one dispatcher
        groups = {(m.resps[rid].kind, m.resps[rid].disp, m.resps[rid].path)
                  for rid in must}
        if len(groups) == 1 and len(must) > 1:
            by_created = sorted(must, key=lambda q: m.resps[q].created)
            by_enabled = sorted(must, key=lambda q: m.resps[q].enabled_at)
            e1 = [self.hof[q] for q in by_created]
            e2 = [self.hof[q] for q in by_enabled]
            if e1 == e2 and len(set(e1)) > 1:
                acc.count('shared_order_sequences_checked')
                if seq != e1:
                    self.violation(f'{KEY}order/{m.resps[must[0]].kind}', got=seq,
                                   expected=e1, rids=by_created,
                                   path=m.resps[must[0]].path)
        # follow
        for rid in must:
            m.fired(rid)
            if m.resps[rid].spent:
                acc.count('shared_one_shots_fired')
        self.check_flags('after-dispatch')

    # ------------------------------------------------------------ driver
    def run(self):
        rng, m = self.rng, self.model
        n_ops = rng.choice([rng.randint(4, 10), rng.randint(8, 25), rng.randint(15, 40)])
        weights = {'create': 4, 'reload': 2.5, 'msg': 10, 'free': 1.5, 'disable': 1.5,
                   'enable': 1.5, 'one_shot': 1.2, 'set_func': 1.2, 'set_perm': 0.4,
                   'cmd_period': 0.3}
        names, ws = zip(*weights.items())
        try:
            first = self.new_spec()
            self.op('create', arg=first)
            for _ in range(rng.randint(1, 3)):
                spec = self.new_spec()
                if rng.random() < 0.7:
                    # the shape this module is about: same function, same path
                    spec['handler'] = first['handler']
                    if rng.random() < 0.7:
                        spec['path'], spec['kind'], spec['disp'] = \
                            first['path'], first['kind'], first['disp']
                self.op('create', arg=spec)
            for _ in range(n_ops):
                name = rng.choices(names, ws)[0]
                alive = [r for r in m.resps.values() if not r.freed]
                if name == 'msg':
                    self.send()
                elif name == 'create':
                    if len(alive) < 9:
                        self.op('create', arg=self.new_spec())
                elif name == 'cmd_period':
                    self.op('cmd_period')
                elif not alive:
                    continue
                elif name == 'reload':
                    old = rng.choice(alive)
                    how = rng.choice(['new-then-free', 'new-then-free', 'new-then-disable',
                                      'free-then-new', 'new-then-one-shot-old'])
                    self.acc.count('shared_reloads/' + how)
                    if how == 'free-then-new':
                        self.op('free', old.rid)
                        self.op('create', arg=self.new_spec(like=old.rid))
                    else:
                        self.op('create', arg=self.new_spec(like=old.rid))
                        if how == 'new-then-free':
                            self.op('free', old.rid)
                        elif how == 'new-then-disable' and old.enabled:
                            self.op('disable', old.rid)
                        elif how == 'new-then-one-shot-old':
                            self.op('one_shot', old.rid)
                    if rng.random() < 0.7:
                        self.send(old.path, [rng.choice([1, 2])])
                else:
                    # prefer responders that share their function
                    sh = [r for r in alive if self.sharers(r.rid)]
                    pool = sh if sh and rng.random() < 0.75 else alive
                    if name == 'enable':
                        pool = [r for r in pool if not r.enabled] or \
                            [r for r in alive if not r.enabled]
                    elif name == 'disable':
                        pool = [r for r in pool if r.enabled] or \
                            [r for r in alive if r.enabled]
                    if not pool:
                        continue
                    t = rng.choice(pool)
                    if name == 'set_func':
                        self.op('set_func', t.rid, rng.choice(self.handlers).label)
                    elif name == 'set_perm':
                        self.op('set_perm', t.rid, rng.random() < 0.7)
                    else:
                        self.op(name, t.rid)
            # epilogue: every responder is freed (no free() may raise), then
            # nothing is invoked
            order = [r.rid for r in m.resps.values() if not r.freed]
            rng.shuffle(order)
            for k, rid in enumerate(order):
                self.op('free', rid)
                if k < len(order) - 1 and rng.random() < 0.3:
                    self.send(m.resps[rid].path, [1])
            for p in sorted({r.path for r in m.resps.values()}):
                self.send(p, [1, 2], epilogue=True)
                self.send(p.rsplit('/', 1)[0] + '/*', [1], epilogue=True)
            for (kind, n), d in self.disps.items():
                if d.active or d.wrapped_funcs:
                    self.violation(KEY + 'residue/dispatcher-tables-not-empty-after-free',
                                   dispatcher=[kind, n], active=len(d.active),
                                   wrapped=len(d.wrapped_funcs))
            self.acc.count('shared_epilogues')
            return True
        except Stop:
            for obj in self.objs.values():
                try:
                    obj.free()
                except Exception:
                    pass
            self.scrub()
            return False

    def scrub(self):
        """After a violation: leave nothing of this history in the default
        dispatchers (their tables may be inconsistent)."""
        from sc3.base.responders import OscFunc
        mine = {id(o) for o in self.objs.values()}
        for d in (OscFunc._default_dispatcher, OscFunc._default_matching_dispatcher):
            try:
                for proxy in [x for x in list(d.wrapped_funcs) if id(x) in mine]:
                    d.wrapped_funcs.pop(proxy, None)
                labels = set(self.by_label)
                for key in list(d.active):
                    d.active[key] = [f for f in d.active[key] if not self._ours(f)]
                    if not d.active[key]:
                        del d.active[key]
            except Exception:
                pass
        try:
            from sc3.base.systemactions import CmdPeriod
            for a in [a for a in CmdPeriod._actions
                      if id(getattr(a, '__self__', None)) in mine]:
                CmdPeriod.remove(a)
        except Exception:
            pass

    def _ours(self, f, depth=0):
        for h in self.handlers:
            if f is h.obj or getattr(f, '__self__', None) is h.obj:
                return True
        inner = getattr(f, 'func', None)
        if inner is not None and depth < 4 and not isinstance(f, functools.partial):
            return self._ours(inner, depth + 1)
        cl = getattr(f, '__closure__', None)
        if cl and depth < 4:
            for c in cl:
                try:
                    v = c.cell_contents
                except ValueError:
                    continue
                if callable(v) and self._ours(v, depth + 1):
                    return True
        return False


def run(spec, acc, rig=None):
    from .c18_rig import Rig
    from .common import iter_cases, case_rng, h64
    from .model_dispatch import selftest
    selftest(); osc.selftest()
    assert osc_match('/s/*', '/s/ab') and not osc_match('/s/a?', '/s/a')
    if rig is None:
        rig = Rig()
    rig.sink_server()
    ports = []
    for k in (0, 1):
        p = rig.open_port(rig.port + 60 + 7 * k)
        if p is not None:
            ports.append(p)
    for i in iter_cases(spec):
        rng = case_rng(spec['seed'], 'C18', 'shared', i)
        runner = SharedRunner(rig, rng, acc, i, ports)
        clean = runner.run()
        f = runner.feat
        nontrivial = f['shared_msgs'] > 0 and f['state_ops'] > 0 and f['negatives'] > 0
        acc.case(h64(repr(runner.log)), nontrivial=nontrivial)
        acc.count('shared_histories')
        acc.count('shared_histories_clean' if clean
                  else 'shared_histories_stopped_at_violation')
        if acc.want_sample() and clean and nontrivial and len(runner.log) < 25:
            acc.sample({'case': i, 'kind': 'shared', 'history': runner.log})
