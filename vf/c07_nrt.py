"""C07 non-real-time shard: generated programs of routines (SystemClock,
TempoClocks, AppClock; children played from inside routines) and sends from
outside routines; main.process(tail) -> score.list / score.raw are compared
with the program's own send log.

Expected time of a send: (0 if latency is None or < 0 else latency) + t with
t = `clock.seconds` read inside the routine right before the send, or the
latency alone (absolute from zero) outside routines - computed with the same
single float addition, compared with ==.  Expected order: stable sort by that
time of [root node, sends in execution order, tail marker].

Sends through the clumping paths (send_clumped_bundles, server.bind() blocks,
BundleNetAddr around a NetAddr; generator: vf/c07_gen.gen_clump_send) may
become several score entries: the entries holding the send's message ids are
located in score.list, must hold every message exactly once in send order,
one entry at exactly the expected time when the set fits one datagram, else
non-decreasing times within [expected, expected + (pieces + 1) ns]; they are
then inserted in the expectation at their own times and judged with the rest
(order, tail marker, content, raw).
"""

TWO32 = 2 ** 32


def _leff(L):
    return 0.0 if (L is None or L < 0) else L


def gen_program(rng, G):
    """Program as data."""
    nclk = rng.randint(1, 3)
    clocks = ['sys'] + [rng.choice(['sys', 'app', ('tempo', rng.choice(
        [0.5, 1, 2, 3, 7.5]))]) for _ in range(nclk)]
    sid = [0]
    pool = []       # bundle lists that may be sent again (same object)
    # an eighth of the programs also send through the clumping paths
    p_clump = rng.choice([0.15, 0.3, 0.5]) if rng.random() < 0.125 else 0.0
    nbig = [0]

    def send(p_none=0.25):
        if rng.random() < p_none:
            return None
        if p_clump and rng.random() < p_clump:
            s = sid[0]
            sid[0] += 1
            path, lst, info = G.gen_clump_send(
                rng, s, 'small' if nbig[0] >= 4 else None)
            if info['class'] != 'small':
                nbig[0] += 1
            return ('clump', path, lst, info)
        if pool and rng.random() < 0.025:
            return ('reuse', rng.randrange(len(pool)))
        s = sid[0]
        sid[0] += 1
        kind, lst = G.gen_send(rng, s)
        if kind == 'bundle' and rng.random() < 0.5:
            pool.append(lst)
            return ('pooled', len(pool) - 1)
        return (kind, lst)

    def routine(depth):
        steps = []
        for _ in range(rng.randint(1, 7)):
            child = None
            if depth < 2 and rng.random() < 0.15:
                child = routine(depth + 1)
            delta = rng.choice([0, 0, 0.25, 0.5, 1, 1, 2, 0.1, rng.uniform(0, 3)])
            steps.append((send(), delta, child))
        return {'clock': rng.randrange(len(clocks)), 'steps': steps}

    prog = {
        'clocks': clocks,
        'outside': [s for s in (send(0.0) for _ in range(rng.choice([0, 0, 1, 3])))],
        'routines': [routine(0) for _ in range(rng.randint(1, 4))],
        'tail': rng.choice([0, 0, 0.5, 2, 10, 0.1]),
        'finish_inside': rng.random() < 0.08,
        'finish_tail': rng.choice([0, 0.5, 3]),
        'pool': pool,
    }
    return prog


def run_nrt(spec, acc):
    from sc3.base.main import main
    from sc3.base.netaddr import NetAddr
    from sc3.base.clock import SystemClock, TempoClock, AppClock
    from sc3.base.stream import Routine
    from vf import osc, c06_model as M, c07_gen as G
    from vf.common import iter_cases, case_rng, h64, tb_sites, short_tb

    assert osc.selftest()
    addr = NetAddr('127.0.0.1', 57110)
    from sc3.base.netaddr import BundleNetAddr
    from sc3.synth.server import Server
    srv = Server('c07-nrt-bind', NetAddr('127.0.0.1', 57207))

    def exc_key(e):
        s = tb_sites(e)
        return f'{type(e).__name__}@{s[-1][1] if s else "outside-sc3"}'

    for i in iter_cases(spec):
        rng = case_rng(spec['seed'], 'C07', 'nrt', i)
        prog = gen_program(rng, G)
        main.reset()
        pool = prog['pool']
        pristine_pool = [G.clone(b) for b in pool]
        sent_before = [False] * len(pool)
        log = []          # (kind, pristine, t | None, exc, reused, mutated)
        tclocks = []
        clocks = []
        for c in prog['clocks']:
            if c == 'sys':
                clocks.append(SystemClock)
            elif c == 'app':
                clocks.append(AppClock)
            else:
                tc = TempoClock(c[1])
                tclocks.append(tc)
                clocks.append(tc)
        restamped = [False]

        class _Leave(Exception):
            pass

        def do_clump(s, t):
            _, path, lst, info = s
            pristine = G.clone(lst)
            exc = None
            try:
                if path == 'clumped':
                    addr.send_clumped_bundles(lst[0], *lst[1:])
                else:
                    if path == 'bind':
                        srv.latency = lst[0]
                        cm = srv.bind()
                    else:
                        cm = BundleNetAddr(addr)
                    with cm as b:
                        tgt = srv.addr if path == 'bind' else b
                        for e, how in zip(lst[1:], info['inner']):
                            if how == 'msg' and isinstance(e[0], str):
                                tgt.send_msg(*e)
                            elif how == 'clumped':
                                tgt.send_clumped_bundles(0.5, e)
                            else:
                                tgt.send_bundle(0.5, e)   # time is discarded
                        if info['raises']:
                            raise _Leave()
            except _Leave:
                pass
            except Exception as e:
                exc = e
            mutated = M.srepr(lst) != M.srepr(pristine)
            log.append(('clump', (path, pristine, info), t, exc, False, mutated))

        def do(s, t):
            if s[0] == 'clump':
                return do_clump(s, t)
            reused = False
            if s[0] in ('reuse', 'pooled'):
                lst = pool[s[1]]
                pristine = pristine_pool[s[1]]
                kind = 'bundle'
                reused = sent_before[s[1]]
                sent_before[s[1]] = True
            else:
                kind, lst = s
                pristine = G.clone(lst)
            exc = None
            try:
                if kind == 'msg':
                    addr.send_msg(*lst)
                else:
                    addr.send_bundle(lst[0], *lst[1:])
            except Exception as e:
                exc = e
            mutated = M.srepr(lst) != M.srepr(pristine)
            if mutated and s[0] in ('reuse', 'pooled'):
                restamped[0] = True
            log.append((kind, pristine, t, exc, reused, mutated))

        finish_info = []

        def make_body(r):
            clock = clocks[r['clock']]

            def body():
                for s, delta, child in r['steps']:
                    t = clock.seconds
                    if s is not None:
                        do(s, t)
                    if child is not None:
                        Routine(make_body(child)).play(clocks[child['clock']])
                    yield delta * (clock.tempo if isinstance(clock, TempoClock)
                                   else 1)
            return body

        def finisher():
            yield 1000.0
            t = SystemClock.seconds
            main._osc_interface._osc_score.finish(prog['finish_tail'])
            finish_info.append(t)

        err = None
        try:
            for s in prog['outside']:
                if s is not None:
                    do(s, None)
            for r in prog['routines']:
                Routine(make_body(r)).play(clocks[r['clock']])
            if prog['finish_inside']:
                Routine(finisher).play(SystemClock)
            score = main.process(prog['tail'])
            end_time = main.elapsed_time()
            lst = score.list
            raw = bytes(score.raw)
        except Exception as e:
            err = e
        finally:
            for tc in tclocks:
                try:
                    tc.stop()
                except Exception:
                    pass
        if err is not None:
            acc.violation(f'C07/nrt/process-raises/{exc_key(err)}',
                          {'case': i, 'tb': short_tb(err)})
            continue

        # ---- expectation ------------------------------------------------
        def abs_times(b, t):
            """bundle list with every element-bundle time made absolute."""
            out = [_leff(b[0]) + t if t is not None else _leff(b[0])]
            for e in b[1:]:
                out.append(e if isinstance(e[0], str) else abs_times(e, t))
            return out

        expected = [(0.0, [0.0, ['/g_new', 1, 0, 0]], None, None, 'root')]
        n_acc = 0
        has_clump = any(x[0] == 'clump' for x in log)
        clump_fail = False
        lst_full = lst
        if has_clump:
            # entries without elements: the library cuts an oversized set of
            # messages into pieces of 8 kB and emits an empty piece in front
            # of a message that is larger than that; the statement is about
            # the bundles the program sent, so such entries are tolerated
            # (and counted) exactly when a message of that size was sent
            empties = [e for e in lst if len(e) == 1]
            lst = [e for e in lst if len(e) != 1]
            if empties:
                acc.count('observed_nrt_score_entries_without_elements',
                          len(empties))
                if not any(G.msg_size(m) > 8000 for x in log
                           if x[0] == 'clump' and not x[1][2]['raises']
                           for m in x[1][1][1:] if isinstance(m[0], str)):
                    acc.violation('C07/nrt/score-entry-without-elements',
                                  {'case': i, 'times': [e[0] for e in empties]})
            entry_ids = [_ids(e) for e in lst]
            by_sid = {}
            for k, idl in enumerate(entry_ids):
                for x in idl:
                    if isinstance(x, tuple) and x[0] == '/c7':
                        pl = by_sid.setdefault(x[1], [])
                        if not pl or pl[-1] != k:
                            pl.append(k)
        for kind, pristine, t, exc, reused, mutated in log:
            if kind == 'clump':
                path, pr, info = pristine
                ctx = 'outside-routine' if t is None else 'inside-routine'
                sid = pr[1][1] if isinstance(pr[1][0], str) else pr[1][1][1]
                w = {'case': i, 'path': path, 'context': ctx,
                     'latency': pr[0], 'logical_time': t,
                     'size_class': info['class'], 'elements': len(pr) - 1,
                     'encoded_size': G.bundle_size(pr[1:])}
                pos = by_sid.get(sid, [])
                if mutated:
                    acc.violation('C07/nrt/clumped-send/caller-lists-modified/'
                                  + path, w)
                if exc is not None:
                    clump_fail = True
                    acc.violation(f'C07/nrt/clumped-send/raises/{path}/'
                                  + exc_key(exc), dict(w, tb=short_tb(exc)))
                    continue
                if info['raises']:
                    acc.count('nrt_bind_blocks_left_by_exception')
                    if pos:
                        clump_fail = True
                        acc.violation('C07/nrt/bind-block-left-by-an-exception-'
                                      'was-sent/' + path, w)
                    continue
                n_acc += 1
                acc.count(f'nrt_sends/{ctx}')
                acc.count(f'nrt_clump_sends/{path}')
                acc.count(f'nrt_clump_sends/{ctx}')
                want = []
                for e in pr[1:]:
                    want += [tuple(m[:3]) for m in
                             ([e] if isinstance(e[0], str) else e[1:])]
                got = [x for k in pos for x in entry_ids[k]]
                if got != want:
                    clump_fail = True
                    if not got:
                        d = 'none-listed'
                    elif sorted(set(got), key=str) == sorted(want, key=str):
                        d = 'duplicated' if len(got) > len(want) else 'reordered'
                    elif set(got) < set(want):
                        d = 'some-lost'
                    else:
                        d = 'mixed-with-other-sends'
                    acc.violation(
                        f'C07/nrt/clumped-send/messages-not-listed-exactly-'
                        f'once-in-order/{path}/{d}',
                        dict(w, entries=len(pos), listed=len(got),
                             sent=len(want)))
                    continue
                fits = w['encoded_size'] <= G.MAX_DGRAM
                acc.count('nrt_clump_sends_checked/'
                          + ('one-datagram' if fits else 'oversized'))
                if abs(w['encoded_size'] - G.MAX_DGRAM) <= 8:
                    acc.count('nrt_clump_sends_checked/within-8-bytes-of-limit')
                base = _leff(pr[0]) + t if t is not None else _leff(pr[0])
                times = [lst[k][0] for k in pos]
                if fits:
                    # one bundle at exactly logical time + latency
                    if len(pos) != 1 or times[0] != base:
                        clump_fail = True
                        acc.violation(
                            'C07/nrt/clumped-send/fits-one-datagram-but-'
                            f'split-or-shifted/{path}',
                            dict(w, times=times[:5], expected=base))
                        continue
                else:
                    # documented: the pieces are 'one nanosecond later each'
                    hi = base + (len(pos) + len(empties) + 1) * 1e-9 + 1e-11
                    if not all(base <= x <= hi for x in times) or \
                            any(a > b for a, b in zip(times, times[1:])):
                        clump_fail = True
                        bad = [x for x in times if not base <= x <= hi][:3]
                        acc.violation(
                            'C07/nrt/clumped-send/piece-time-differs/'
                            f'{path}/{ctx}',
                            dict(w, pieces=len(pos), expected_from=base,
                                 expected_to=hi, times=bad or times[:6]))
                        continue
                    acc.count('nrt_clump_pieces_checked', len(pos))
                els = pr[1:]
                for k in pos:
                    ne = len(lst[k]) - 1
                    x1 = abs_times([pr[0]] + els[:ne], t)
                    x1[0] = lst[k][0]
                    els = els[ne:]
                    expected.append((lst[k][0], x1, t, None, ctx))
                continue
            must = None
            try:
                (M.expect_msg if kind == 'msg' else M.expect_bundle)(
                    pristine, lambda L: None)
            except M.MustRefuse as e:
                must = e.reason
            ctx = 'outside-routine' if t is None else 'inside-routine'
            if exc is not None:
                acc.count(f'nrt_refused_as_required/{must}' if must else
                          f'nrt_refused_allowed/{exc_key(exc)}')
                continue
            if must:
                acc.violation(f'C07/nrt/accepted/{must}',
                              {'case': i, 'send': M.srepr(pristine),
                               'context': ctx})
                # it is in the score now: keep the expectation aligned
            n_acc += 1
            acc.count(f'nrt_sends/{ctx}')
            b = [0.0, pristine] if kind == 'msg' else pristine
            e = abs_times(b, t)
            expected.append((e[0], e, t, (kind, pristine), ctx))
        if prog['finish_inside'] and finish_info:
            tail_time = prog['finish_tail'] + finish_info[0]
        else:
            tail_time = prog['tail'] + end_time
        # (if the library placed the marker at the alternative accepted time,
        # see below, the expectation follows it)
        expected.append((tail_time, [tail_time, ['/c_set', 0, 0]], None, None,
                         'tail'))
        if not (prog['finish_inside'] and finish_info):
            alt_tail = prog['tail'] + max([end_time] + [e[0] for e in expected[:-1]])
            got_marks = [e[0] for e in lst if len(e) == 2 and
                         e[1] == ['/c_set', 0, 0]]
            if len(got_marks) == 1 and got_marks[0] == alt_tail != tail_time:
                expected[-1] = (alt_tail, [alt_tail, ['/c_set', 0, 0]], None,
                                None, 'tail')
        order = sorted(range(len(expected)), key=lambda k: expected[k][0])
        exp_sorted = [expected[k] for k in order]

        feats = {
            'ties': len({e[0] for e in expected}) < len(expected),
            'nested': any(G.has_nested(*e[3])[0] for e in expected if e[3]),
            'outside': any(e[4] == 'outside-routine' for e in expected),
            'reuse': any(x[4] for x in log),
        }
        acc.count('nrt_scores')
        acc.count('nrt_score_entries', len(lst))
        for f, v in feats.items():
            if v:
                acc.count(f'nrt_scores_with/{f}')
        acc.case(h64(repr([(e[0], M.srepr(e[1])) for e in expected])),
                 nontrivial=feats['ties'] and n_acc >= 2)

        def viol(key, w):
            if restamped[0] and feats['reuse']:
                # attribute everything in this program to the one mechanism
                key = 'C07/nrt/reused-bundle-list-restamped-by-earlier-send'
            acc.violation(key, dict(w, case=i))

        # ---- tail marker ---------------------------------------------------
        marks = [k for k, e in enumerate(lst)
                 if len(e) == 2 and e[1] == ['/c_set', 0, 0]]
        if len(marks) != 1:
            viol('C07/nrt/tail-marker-missing-or-repeated',
                 {'markers': len(marks)})
        else:
            acc.count('nrt_tail_markers_checked')
            mt = lst[marks[0]][0]
            # 'tail time after the last event': after the last wake-up, or
            # after the latest bundle when one lies beyond it - both readings
            # are accepted
            last_bundle = max(e[0] for e in expected[:-1])
            alt = None
            if not (prog['finish_inside'] and finish_info):
                alt = prog['tail'] + max(end_time, last_bundle)
            if mt != tail_time and mt != alt and not clump_fail:
                viol('C07/nrt/tail-marker-time-differs',
                     {'marker_time': mt, 'expected': tail_time,
                      'end_time': end_time, 'tail': prog['tail']})
            if marks[0] != len(lst) - 1:
                later = lst[marks[0] + 1:]
                why = ('bundle-time-beyond-tail-time'
                       if all(e[0] > mt for e in later) else 'misordered')
                viol(f'C07/nrt/tail-marker-not-last/{why}',
                     {'marker_time': mt, 'entries_after_marker':
                      [M.srepr(e) for e in later[:3]], 'tail': prog['tail'],
                      'end_time': end_time})

        # ---- list: time, order, content ------------------------------------
        ok_list = True
        if clump_fail:
            ok_list = False     # reported above; positions are not aligned
        elif len(lst) != len(exp_sorted):
            ok_list = False
            viol('C07/nrt/score-entry-count-differs',
                 {'entries': len(lst), 'expected': len(exp_sorted)})
        else:
            times = [e[0] for e in lst]
            if any(a > b for a, b in zip(times, times[1:])):
                ok_list = False
                viol('C07/nrt/score-not-sorted-by-time', {'times': times[:40]})
            else:
                for k, (e, x) in enumerate(zip(lst, exp_sorted)):
                    acc.count('nrt_entries_compared')
                    if _ids(e) != _ids(x[1]):
                        ok_list = False
                        same_t = e[0] == x[0]
                        viol('C07/nrt/equal-time-entries-not-in-send-order'
                             if same_t else 'C07/nrt/score-entry-at-other-time/'
                             + x[4], {'position': k, 'entry': M.srepr(e),
                                      'expected': M.srepr(x[1])})
                        break
                    if e[0] != x[0]:
                        ok_list = False
                        viol(f'C07/nrt/score-entry-time-differs/{x[4]}/top-level',
                             {'position': k, 'entry': M.srepr(e),
                              'expected_time': x[0], 'logical_time': x[2]})
                        break
                    if not _same_entry(e, x[1]):
                        ok_list = False
                        nested_time = _same_entry(_strip_times(e),
                                                  _strip_times(x[1]))
                        viol(f'C07/nrt/score-entry-time-differs/{x[4]}/nested-bundle'
                             if nested_time else
                             'C07/nrt/score-entry-content-differs',
                             {'position': k, 'entry': M.srepr(e),
                              'expected': M.srepr(x[1])})
                        break

        # ---- raw -----------------------------------------------------------
        chunks = []
        p = 0
        framing = None
        while p < len(raw):
            if p + 4 > len(raw):
                framing = 'truncated-length-prefix'
                break
            n = int.from_bytes(raw[p:p + 4], 'big')
            p += 4
            if n <= 0 or p + n > len(raw):
                framing = 'length-prefix-runs-past-end'
                break
            chunks.append(raw[p:p + n])
            p += n
        if framing:
            viol(f'C07/nrt/raw-framing/{framing}', {'raw_bytes': len(raw)})
            continue
        if i % 25 == 0:
            # the file scsynth -N reads is exactly .raw
            import os, tempfile
            fd, path = tempfile.mkstemp(suffix='.osc')
            os.close(fd)
            try:
                score.write(path)
                acc.count('nrt_written_files_compared')
                if open(path, 'rb').read() != raw:
                    viol('C07/nrt/written-file-differs-from-raw', {})
            except Exception as e:
                viol(f'C07/nrt/write-raises/{exc_key(e)}', {'tb': short_tb(e)})
            finally:
                os.unlink(path)
        if len(chunks) != len(lst_full):
            viol('C07/nrt/raw-differs-from-list/entry-count',
                 {'raw_entries': len(chunks), 'list_entries': len(lst_full)})
            continue
        if len(lst) != len(lst_full):
            ok_list = False     # (no completion bundles in such programs)
        for k, (ch, e) in enumerate(zip(chunks, lst_full)):
            acc.count('nrt_raw_entries_compared')
            try:
                d = osc.decode(ch)
            except osc.OscError as err2:
                viol(f'C07/nrt/raw-entry-nonconformant/{M._slug(str(err2))}',
                     {'position': k, 'chunk': ch[:200]})
                break
            if not isinstance(d, osc.Bundle):
                viol('C07/nrt/raw-entry-is-not-a-bundle', {'position': k})
                break
            # raw entry vs list entry: element-bundle timetags and content
            try:
                tree = M.expect_bundle(_as_lists(e), lambda L: None)
            except (M.MustRefuse, M.Undecided):
                tree = None
            bad = detail = None
            if tree is not None:
                mism = M.compare(d, tree)
                if mism:
                    bad = 'content'
                    detail = sorted(set(mism))
            if bad is None:
                bad = _cmp_tt(d, e)
            if bad:
                viol(f'C07/nrt/raw-differs-from-list/{bad}',
                     {'position': k, 'list_entry': M.srepr(e),
                      'raw_entry': repr(d)[:500], 'detail': detail})
                break
            # completion bundles inside blobs: stamped from the same instant
            if ok_list and exp_sorted[k][3] is not None:
                kind, pristine = exp_sorted[k][3]
                t = exp_sorted[k][2]
                bad = _cmp_blob_tt(osc, d, [0.0, pristine] if kind == 'msg'
                                   else pristine, t, acc)
                if bad:
                    viol('C07/nrt/completion-bundle-timetag-differs',
                         {'position': k, 'send': M.srepr(pristine),
                          'logical_time': t, 'detail': bad})
                    break
        if acc.want_sample() and feats['ties'] and feats['nested'] and \
                len(lst) < 9:
            acc.sample({'case': i, 'score_list': [M.srepr(e) for e in lst],
                        'raw_bytes': len(raw), 'tail': prog['tail'],
                        'end_time': end_time})


def _ids(entry):
    out = []

    def rec(b):
        for e in b[1:]:
            if isinstance(e[0], str):
                out.append(tuple(e[:3]) if e[0] == '/c7' else e[0])
            else:
                rec(e)
    try:
        rec(entry)
    except Exception:
        out.append('?')
    return out


def _same_entry(a, b):
    """Bundle lists: times compared numerically (2 == 2.0), everything else
    by exact type and value."""
    if not isinstance(a, list) or not isinstance(b, list) or len(a) != len(b):
        return False
    if not a:
        return True
    if isinstance(a[0], str) or isinstance(b[0], str):       # message
        return all(_same_val(x, y) for x, y in zip(a, b))
    ta, tb = a[0], b[0]
    if (ta is None) != (tb is None) or (ta is not None and ta != tb):
        return False
    return all(_same_entry(x, y) for x, y in zip(a[1:], b[1:]))


def _same_val(x, y):
    if isinstance(x, list) or isinstance(y, list):
        return _same_entry(x, y)
    return type(x) is type(y) and x == y


def _strip_times(b):
    return [0] + [e if isinstance(e[0], str) else _strip_times(e)
                    for e in b[1:]]


def _as_lists(e):
    """score entries may hold tuples / other sequences: normalise."""
    return [e[0]] + [x if isinstance(x[0], str) else _as_lists(x) for x in e[1:]]


def _cmp_tt(d, e):
    """timetags of a decoded raw entry vs the absolute times of a list entry."""
    if d.timetag != int(e[0] * TWO32):
        return 'timetag'
    if len(d.elements) != len(e) - 1:
        return 'element-count'
    for dd, x in zip(d.elements, e[1:]):
        if not isinstance(x[0], str):
            if not hasattr(dd, 'timetag'):
                return 'element-kind'
            r = _cmp_tt(dd, x)
            if r:
                return 'nested-' + r if not r.startswith('nested-') else r
    return None


def _cmp_blob_tt(osc, d, b, t, acc):
    """bundles inside blobs of messages: int((Leff [+ t]) * 2**32)."""
    def wmsg(dm, m):
        for a, da in zip(m[1:], dm.args):
            if isinstance(a, list) and a:
                sub = osc.decode(da)
                if isinstance(a[0], str):
                    r = wmsg(sub, a)
                else:
                    r = wb(sub, a, True)
                if r:
                    return r
        return None

    def wb(db, bb, inblob):
        if inblob:
            L = _leff(bb[0])
            exp = int(((L + t) if t is not None else L) * TWO32)
            acc.count('nrt_completion_bundle_timetags_compared')
            if db.timetag != exp:
                return {'latency': bb[0], 'expected': exp, 'got': db.timetag}
        for dd, e in zip(db.elements, bb[1:]):
            r = wmsg(dd, e) if isinstance(e[0], str) else wb(dd, e, inblob)
            if r:
                return r
        return None
    return wb(d, b, False)
