"""C15 - operand functions / streams WITH STATE, SIDE EFFECTS AND FAILURES.

Class of behaviour (round 7): the lifting law (f op g)(x) = f(x) op g(x) and
next(s op t) = next(s) op next(t) is an equation between *evaluations*, not
only between values: when the operands are user functions that read the next
value of a source, count, append - or that raise for some inputs / at some
point of their life - the lifted object has to evaluate every operand body
exactly as often as the direct evaluation does (once per occurrence), hand it
the arguments the direct call binds, let the operand's exception through
unchanged (whatever its type: TypeError raised inside the body included) and
go on afterwards as if nothing had happened.  The other monitors use pure
operand functions (a second evaluation is invisible) and compare exception
types of single evaluations only.

Oracle: a trace checker.  Every operand body logs each of its runs (bound
arguments, value returned or exception type raised) in a trace *before* it
returns / raises; the body is plain Python written here, nothing of the
library is between the body and its log.  After each call of the lifted
object the slice of the trace that belongs to this call is judged:

* no operand body ran more often than the operand occurs in the expression;
* nothing ran after an operand body raised, the lifted call raised that very
  exception type;
* when the lifted call returned a value: every operand body ran exactly once
  per occurrence and the value equals the numeric operator(s) applied to the
  LOGGED values (same kernel on both sides, see ASSUMPTIONS of C15.py);
* when it raised without an operand failure: a kernel whose operands were all
  evaluated raises that type on the logged values (streams: or an operand
  had ended before the pull -> StopStream);
* every body received the arguments the direct call binds (spare positional /
  keyword arguments discarded - Function's documented calling convention;
  streams: the input value of the pull and the data object).

The order in which the operands of ONE lifted call are evaluated is not
judged (NaropFunction evaluates the arguments before the receiver): stateful
operands occur once in an expression, operands that occur twice compute
their value from the call arguments only.

Operand functions: signatures (), (x), (x, y), (x, gain=2) called positionally,
with spare positionals, by keyword, with spare keywords; bodies either
scripted per run (value | exception kind, cyclic) or computed from the
arguments (None / str arguments make the arithmetic raise a real TypeError).
Exception kinds: TypeError from arithmetic, from a bad call inside the body,
raised explicitly; ValueError, ZeroDivisionError, KeyError, IndexError,
AttributeError, RuntimeError, StopIteration, OverflowError, AssertionError,
NotImplementedError, a user defined Exception subclass.
Operand streams: FunctionStream / Pfunc over scripted functions of (), (inval),
(inval, data); Pfuncn; Routine / Prout over scripted generators - all lifted
with every operator, pulled through stream(p) or embedded in Pseq, with
continued pulls after a failure (FunctionStream based operands go on, routine
based ones have ended).
"""

import inspect
import math
from collections import Counter

MISSING = ('missing',)
FAILED = ('failed',)

RAISE_KINDS = ['TypeError-arith', 'TypeError-arith', 'TypeError-call',
               'TypeError-explicit', 'ValueError', 'ZeroDivisionError',
               'KeyError', 'IndexError', 'AttributeError', 'RuntimeError',
               'StopIteration', 'OverflowError', 'AssertionError',
               'NotImplementedError', 'OperandFault']

INNER_NAMES = ('__add__', '__sub__', '__mul__', '__neg__', '__abs__', 'min',
               'max', 'absdif', '__radd__', '__rsub__', '__rmul__', 'clip',
               'neg', 'abs', 'sign', 'squared')


class OperandFault(Exception):
    """user defined exception raised by an operand body"""


def do_raise(kind):
    """Raise the way user code does (real faults where possible)."""
    if kind == 'TypeError-arith':
        return None * 2.0
    if kind == 'TypeError-call':
        return (lambda: 0)(1)
    if kind == 'TypeError-explicit':
        raise TypeError('operand cannot be computed')
    if kind == 'ZeroDivisionError':
        return 1 / 0
    if kind == 'KeyError':
        return {}[1]
    if kind == 'IndexError':
        return [][1]
    if kind == 'AttributeError':
        return None.value
    if kind == 'StopIteration':
        return next(iter(()))
    if kind == 'OverflowError':
        return math.exp(100000)
    if kind == 'AssertionError':
        assert False, 'operand'
    if kind == 'OperandFault':
        raise OperandFault('operand')
    raise {'ValueError': ValueError, 'RuntimeError': RuntimeError,
           'NotImplementedError': NotImplementedError}[kind]('operand')


def gen_script(rng, num, length=None, p_raise=0.3, kinds=None):
    n = length or rng.randint(3, 6)
    kinds = kinds or RAISE_KINDS
    sc = [('raise', rng.choice(kinds)) if rng.random() < p_raise
          else ('val', num()) for _ in range(n)]
    if not any(s[0] == 'val' for s in sc):
        sc[rng.randrange(n)] = ('val', num())
    return sc


class Leaf:
    """One operand with a logging body."""

    def __init__(self, lid, trace):
        self.lid, self.trace = lid, trace
        self.n = 0                  # body runs so far
        self.failed = False
        self.obj = None
        self.plain = None
        self.descr = None

    def run(self, bound, compute):
        """the body: log, then return / raise"""
        self.n += 1
        ev = [self.lid, bound, None, self.n]
        self.trace.append(ev)
        try:
            v = compute()
        except BaseException as ex:
            ev[2] = ('raise', type(ex).__name__)
            self.failed = True
            raise
        ev[2] = ('val', v)
        return v


# ---------------------------------------------------------------------------
# operand functions

FUNC_SIGS = ['x', 'x', '0', 'xy', 'xg']


def make_func_leaf(lid, trace, rng, num, Function, stateful=None):
    leaf = Leaf(lid, trace)
    sig = rng.choice(FUNC_SIGS)
    if stateful is None:
        stateful = sig == '0' or rng.random() < 0.6
    if sig == '0':
        stateful = True
    leaf.stateful = stateful
    if stateful:
        script = gen_script(rng, num)

        def compute(args):
            kind, v = script[(leaf.n - 1) % len(script)]
            return v if kind == 'val' else do_raise(v)
        leaf.descr = {'signature': sig, 'body': 'scripted per run (cyclic)',
                      'script': script}
    else:
        k, c = rng.choice([1, 2, -1, 3]), num()
        c2 = rng.choice([1, -1, 2])
        bad = rng.choice([None, None, ('ValueError', -2), ('OperandFault', 3),
                          ('KeyError', 0)])

        def compute(args):
            if bad is not None and args and args[0] == bad[1]:
                do_raise(bad[0])
            v = args[0] * k + c     # TypeError for None / str arguments
            if len(args) > 1:
                v = v + args[1] * c2
            return v
        leaf.descr = {'signature': sig, 'body': 'x * k + c (+ second * c2)',
                      'k': k, 'c': c, 'c2': c2, 'raises_at_x': bad}
    if sig == '0':
        def f():
            return leaf.run((), lambda: compute(()))
    elif sig == 'x':
        def f(x):
            return leaf.run((x,), lambda: compute((x,)))
    elif sig == 'xy':
        def f(x, y):
            return leaf.run((x, y), lambda: compute((x, y)))
    else:
        def f(x, gain=2):
            return leaf.run((x, gain), lambda: compute((x, gain)))
    leaf.plain = f
    leaf.sig = inspect.signature(f)
    leaf.obj = Function(f)
    return leaf


def bound_for(leaf, P, K):
    """Arguments the direct call f(*P, **K) hands to the body when spare
    parameters are discarded; None when the call does not bind."""
    params = list(leaf.sig.parameters)
    try:
        ba = leaf.sig.bind(*P[:len(params)],
                           **{k: v for k, v in K.items() if k in params})
    except TypeError:
        return None
    ba.apply_defaults()
    return tuple(ba.arguments[p] for p in params)


def call_shape(rng, leaves, num):
    """(P, K) that binds for every operand function."""
    xv = rng.choice([-2, 0, 1, 3, 0.5, 2.5, -2, 3])
    if rng.random() < 0.15:
        xv = rng.choice([None, 'a'])
    yv, gv = num(), num()
    for attempt in range(6):
        how = rng.choice(['pos', 'pos', 'pos-spare', 'kw', 'kw-spare', 'mixed'])
        if attempt == 5:
            how = 'pos'
        if how == 'pos':
            P, K = [xv, yv], {}
            if rng.random() < 0.4 and all(l.descr['signature'] in ('x', '0')
                                          for l in leaves):
                P = [xv]
            if all(l.descr['signature'] == '0' for l in leaves) \
                    and rng.random() < 0.6:
                P = []
        elif how == 'pos-spare':
            P, K = [xv, yv, 'spare', 7][:rng.randint(3, 4)], {}
        elif how == 'kw':
            P, K = [], {'x': xv, 'y': yv}
            if rng.random() < 0.5:
                K['gain'] = gv
        elif how == 'kw-spare':
            P, K = [], {'x': xv, 'y': yv, 'zz': 1, 'spare': 'spare'}
        else:
            P, K = [xv], {'y': yv, 'zz': 1}
            if rng.random() < 0.5:
                K['gain'] = gv
        bounds = {l.lid: bound_for(l, P, K) for l in leaves}
        if all(b is not None for b in bounds.values()):
            return how, P, K, bounds
    raise AssertionError('no call shape binds')


# ---------------------------------------------------------------------------
# expression trees

def build_tree(rng, entries, inner, new_leaf, num, depth, reuse, allow_number_left):
    """('op', entry, nsup, [receiver, *others], number_left)"""
    e = rng.choice(entries if depth == 0 else inner)
    hook = e['hook']
    nsup = e['nreq'] + (rng.randint(0, e['nopt']) if e['nopt'] else 0)

    def fchild():
        if depth < 1 and rng.random() < 0.3:
            return build_tree(rng, entries, inner, new_leaf, num, depth + 1,
                              reuse, False)
        if reuse and rng.random() < 0.25:
            return ('leaf', rng.choice(reuse))
        return ('leaf', new_leaf())
    number_left = (allow_number_left and e['src'] == 'builtin' and hook == 'binop'
                   and nsup >= 1 and rng.random() < 0.3)
    if number_left:
        kids = [('num', num()), fchild()] + [('num', num()) for _ in range(nsup - 1)]
    else:
        kids = [fchild()]
        for j in range(nsup):
            if hook != 'rbinop' and rng.random() < 0.5:
                kids.append(fchild())
            else:
                kids.append(('num', num()))
    return ('op', e, nsup, kids, number_left)


def leaves_of(node, out=None):
    out = [] if out is None else out
    if node[0] == 'leaf':
        out.append(node[1])
    elif node[0] == 'op':
        for k in node[3]:
            leaves_of(k, out)
    return out


def realize(node, leaf_objs, apply_entry):
    if node[0] == 'leaf':
        return leaf_objs[node[1]]
    if node[0] == 'num':
        return node[1]
    kids = [realize(k, leaf_objs, apply_entry) for k in node[3]]
    return apply_entry(node[1], kids[0], kids[1:])


def describe(node, leaves):
    if node[0] == 'leaf':
        return f'F{node[1]}'
    if node[0] == 'num':
        return repr(node[1])
    e = node[1]
    return (f"{e['src']}:{e['name']}(" +
            ', '.join(describe(k, leaves) for k in node[3]) + ')')


def eval_logged(node, queues, selector_call, is_exc, kernel_excs):
    """The numeric operators applied to the logged operand values."""
    if node[0] == 'num':
        return node[1]
    if node[0] == 'leaf':
        q = queues.get(node[1])
        if not q:
            return MISSING
        out = q.pop(0)
        return out[1] if out[0] == 'val' else FAILED
    vals = [eval_logged(k, queues, selector_call, is_exc, kernel_excs)
            for k in node[3]]
    if any(v is MISSING or v is FAILED for v in vals):
        return FAILED
    r = selector_call(node[1], node[2])(vals[0], vals[1:])
    if is_exc(r):
        kernel_excs.add(r[1])
        return FAILED
    return r


def judge(tree, events, outcome, bounds, dead_before, ck, selector_call):
    """None or (mechanism, detail) for one call / pull of the lifted object."""
    mult = Counter(leaves_of(tree))
    by = {}
    for ev in events:
        by.setdefault(ev[0], []).append(ev)
    raises = [i for i, ev in enumerate(events) if ev[2] is None
              or ev[2][0] == 'raise']
    first_t = events[raises[0]][2][1] if raises and events[raises[0]][2] else None
    for lid, evs in by.items():
        if len(evs) > mult[lid]:
            o = evs[0][2]
            return ('operand-evaluated-more-than-once',
                    f'after-{o[1]}-in-its-body' if o and o[0] == 'raise'
                    else 'without-failure', lid)
    if raises and raises[0] != len(events) - 1:
        if events[raises[0] + 1][0] == events[raises[0]][0]:
            # the operand that failed was run again (it may occur twice in the
            # expression: the direct evaluation stops at its first failure)
            return ('operand-evaluated-more-than-once',
                    f'after-{first_t}-in-its-body', events[raises[0]][0])
        # the evaluation went on after an operand failed
        return ('operand-failure-not-propagated', f'{first_t}',
                events[raises[0]][0])
    for ev in events:
        want = bounds.get(ev[0])
        if want is not None and not _same_bound(want, ev[1]):
            return ('operand-arguments-differ', 'from-direct-call', ev[0])
    queues = {lid: [ev[2] for ev in evs] for lid, evs in by.items()}
    kernel_excs = set()
    if not ck.is_exc(outcome):
        if raises:
            return ('operand-failure-not-propagated', f'{first_t}',
                    events[raises[0]][0])
        if any(len(by.get(lid, ())) < m for lid, m in mult.items()):
            return ('operand-not-evaluated', 'value-returned')
        r = eval_logged(tree, queues, selector_call, ck.is_exc, kernel_excs)
        if r is FAILED:
            return ('returns-where-operator-raises', '/'.join(sorted(kernel_excs)))
        if not ck.same(r, outcome):
            return ('value-differs', 'from-operator-on-logged-values')
        return None
    t = outcome[1]
    if raises:
        if t != first_t:
            return ('operand-failure-not-propagated', f'{first_t}',
                    events[raises[0]][0])
        return None
    if t == 'StopStream' and any(dead_before.values()):
        return None
    eval_logged(tree, queues, selector_call, ck.is_exc, kernel_excs)
    if t in kernel_excs:
        return None
    return ('raises-where-direct-evaluation-returns', t)


def site_of(tree, bad, root_hook):
    """The lifted object next to the operand the finding is about: its hook
    (unop | binop | rbinop | narop), else the outermost one."""
    if len(bad) < 3:
        return root_hook

    def find(node, top):
        if node[0] != 'op':
            return None
        hook = root_hook if top else node[1]['hook']
        for k in node[3]:
            if k == ('leaf', bad[2]):
                return hook
        for k in node[3]:
            r = find(k, False)
            if r:
                return r
        return None
    return find(tree, True) or root_hook


def _same_bound(a, b):
    if len(a) != len(b):
        return False
    for x, y in zip(a, b):
        if x is y:
            continue
        if type(x) is not type(y) or x != y:
            return False
    return True


# ---------------------------------------------------------------------------
# functions

def run_function_case(i, rng, acc, env):
    ck, entries, inner = env['ck'], env['entries'], env['inner']
    apply_entry, selector_call = env['apply_entry'], env['selector_call']
    Function = env['Function']
    ints = rng.random() < 0.5
    num = lambda: ck.num(rng, ints)
    trace = []
    leaves = {}
    pure = []

    def new_leaf():
        lid = len(leaves)
        leaves[lid] = lf = make_func_leaf(lid, trace, rng, num, Function)
        if not lf.stateful:
            pure.append(lid)
        return lid
    tree = build_tree(rng, entries, inner, new_leaf, num, 0, pure, True)
    e = tree[1]
    hook = 'rbinop' if tree[4] else e['hook']
    acc.count('fx_f_' + ('m_' if e['src'] == 'method' else 'b_') + e['name'])
    try:
        h = realize(tree, {l: leaves[l].obj for l in leaves}, apply_entry)
    except Exception:
        acc.count('fx_function_compose_raises')
        return None
    if trace:
        acc.violation(f'C15/effects/function/{hook}/operand-evaluated-at-composition',
                      {'case': i, 'expression': describe(tree, leaves)})
        return None
    if not callable(h):
        acc.count('fx_function_not_callable')
        return None
    lvs = [leaves[l] for l in sorted(leaves)]
    mult = Counter(leaves_of(tree))
    if any(m > 1 for m in mult.values()):
        acc.count('fx_expressions_with_an_operand_used_twice')
    if any(k[0] == 'op' for k in tree[3]):
        acc.count('fx_expressions_nested')
    history, failed_before, after = [], False, 0
    fails = 0
    for step in range(rng.randint(6, 12)):
        how, P, K, bounds = call_shape(rng, lvs, num)
        del trace[:]
        try:
            with env['time_limit'](10):
                try:
                    out = h(*P, **K)
                except Exception as ex:
                    out = ('exc', type(ex).__name__)
        except env['Timeout']:
            acc.count('fx_function_call_hangs')
            return None
        events = list(trace)
        acc.count('fx_function_calls_judged')
        acc.count('fx_function_call_' + how)
        acc.count('fx_operand_bodies_run', len(events))
        rs = [ev[2][1] for ev in events if ev[2] and ev[2][0] == 'raise']
        if rs:
            fails += 1
            acc.count('fx_function_calls_with_operand_failure')
            acc.count('fx_operand_failure_TypeError' if rs[0] == 'TypeError'
                      else 'fx_operand_failure_other_types')
            acc.count('fx_operand_raises_' + rs[0])
        if failed_before:
            acc.count('fx_function_calls_after_a_failure')
            if not ck.is_exc(out):
                after += 1
        bad = judge(tree, events, out, bounds, {}, ck, selector_call)
        history.append({'call': how, 'args': repr(P), 'kwargs': repr(K),
                        'operand_runs': [[f'F{ev[0]}', repr(ev[1]), repr(ev[2])]
                                         for ev in events],
                        'outcome': repr(out)[:120]})
        if bad:
            # the same slip when the operand function is called on its own?
            site = site_of(tree, bad, hook)
            if bad[0] in ('operand-evaluated-more-than-once',
                          'operand-failure-not-propagated',
                          'operand-arguments-differ'):
                ev0 = events[0] if events else None
                for ev in events:
                    if ev[2] and ev[2][0] == 'raise':
                        ev0 = ev
                        break
                if ev0 is not None and _direct_call_differs(
                        leaves[ev0[0]], ev0[3], trace, P, K):
                    site = 'operand-function-call'
            acc.violation(
                f'C15/effects/function/{site}/{bad[0]}/{bad[1]}',
                {'case': i, 'expression': describe(tree, leaves),
                 'operands': {f'F{l}': leaves[l].descr for l in sorted(leaves)},
                 'step': step, 'history': history[-4:]})
            break
        failed_before = failed_before or bool(rs)
    if fails and after:
        acc.count('fx_function_histories_value_after_failure')
    return (describe(tree, leaves), repr([l.descr for l in lvs]),
            repr([(x['call'], x['args'], x['kwargs']) for x in history])), \
        bool(fails and after)


def _direct_call_differs(leaf, run, trace, P, K):
    """Wrapped operand called on its own (at the same point of its script),
    compared with the plain function: different number of body runs?"""
    n_end = leaf.n
    n0 = leaf.n = run - 1
    del trace[:]
    try:
        leaf.obj(*P, **K)
    except Exception:
        pass
    runs_wrapped = len(trace)
    leaf.n = n0
    del trace[:]
    params = list(leaf.sig.parameters)
    try:
        leaf.plain(*P[:len(params)], **{k: v for k, v in K.items() if k in params})
    except Exception:
        pass
    runs_plain = len(trace)
    del trace[:]
    leaf.n = n_end
    return runs_wrapped != runs_plain


# ---------------------------------------------------------------------------
# streams and patterns

STREAM_LEAF_KINDS = ['fstream', 'fstream', 'pfunc', 'pfunc', 'pfuncn', 'routine',
                     'prout']
DATA = ('the', 'data')


def make_stream_leaf(lid, trace, rng, num, m):
    StopStream = m['stm'].StopStream
    leaf = Leaf(lid, trace)
    kind = rng.choice(STREAM_LEAF_KINDS)
    endless = rng.random() < 0.45
    # StopIteration inside a generator is Python's RuntimeError (PEP 479) and
    # Routine's end-of-stream signal: not an operand failure to lift
    script = gen_script(rng, num, p_raise=0.25,
                        kinds=[k for k in RAISE_KINDS if k != 'StopIteration'])
    length = None if endless else len(script)
    leaf.kind = kind
    leaf.restartable = kind in ('fstream', 'pfunc')   # goes on after a failure
    leaf.length = length
    np_ = rng.choice([0, 1, 2]) if leaf.restartable else rng.choice([0, 1])
    leaf.nparams = np_
    leaf.descr = {'kind': kind, 'parameters': ['', 'inval', 'inval, data'][np_],
                  'script': script, 'cyclic': endless}

    def compute():
        kind_, v = script[(leaf.n - 1) % len(script)]
        return v if kind_ == 'val' else do_raise(v)

    def step(bound):
        if length is not None and leaf.n >= length:
            raise StopStream        # the operand has ended: not a body run
        return leaf.run(bound, compute)

    dflt = np_ > 0 and rng.random() < 0.4     # parameters with default values
    if dflt:
        leaf.descr['parameters'] = ['', 'inval=None', 'inval=None, data=None'][np_]
    if leaf.restartable:
        if np_ == 0:
            def nf():
                return step(())
        elif np_ == 1 and dflt:
            def nf(inval=None):
                return step((inval,))
        elif np_ == 1:
            def nf(inval):
                return step((inval,))
        elif dflt:
            def nf(inval=None, data=None):
                return step((inval, data))
        else:
            def nf(inval, data):
                return step((inval, data))
        if kind == 'fstream':
            leaf.obj = m['stm'].FunctionStream(nf, None, DATA)
        else:
            leaf.obj = m['up'].Pfunc(nf, None, DATA)
    elif kind == 'pfuncn':
        if np_ == 0:
            def nf():
                return step(())
        elif dflt:
            def nf(inval=None):
                return step((inval,))
        else:
            def nf(inval):
                return step((inval,))
        leaf.obj = m['up'].Pfuncn(nf, float('inf') if length is None else length)
    else:
        if np_ == 0:
            def gf():
                while length is None or leaf.n < length:
                    yield step(())
        elif dflt:
            def gf(inval=None):
                while length is None or leaf.n < length:
                    inval = yield step((inval,))
        else:
            def gf(inval):
                while length is None or leaf.n < length:
                    inval = yield step((inval,))
        leaf.obj = m['stm'].Routine(gf) if kind == 'routine' else m['up'].Prout(gf)
    return leaf


def leaf_dead(leaf):
    if leaf.length is not None and leaf.n >= leaf.length:
        return True
    return leaf.failed and not leaf.restartable


def run_stream_case(i, rng, acc, env):
    ck, entries, inner = env['ck'], env['entries'], env['inner']
    apply_entry, selector_call = env['apply_entry'], env['selector_call']
    m = ck.mods()
    stm = m['stm']
    ints = rng.random() < 0.5
    num = lambda: ck.num(rng, ints)
    trace = []
    leaves = {}

    def new_leaf():
        lid = len(leaves)
        leaves[lid] = make_stream_leaf(lid, trace, rng, num, m)
        return lid
    tree = build_tree(rng, entries, inner, new_leaf, num, 0, None, True)
    e = tree[1]
    hook = 'rbinop' if tree[4] else e['hook']
    acc.count('fx_s_' + ('m_' if e['src'] == 'method' else 'b_') + e['name'])
    try:
        comp = realize(tree, {l: leaves[l].obj for l in leaves}, apply_entry)
    except Exception:
        acc.count('fx_stream_compose_raises')
        return None
    mode = 'stream'
    try:
        if isinstance(comp, m['ptt'].Pattern):
            if rng.random() < 0.35:
                mode = 'pseq'
                s = stm.stream(m['lp'].Pseq([comp], 1))
            else:
                s = stm.stream(comp)
        else:
            s = comp
    except Exception:
        acc.count('fx_stream_compose_raises')
        return None
    if not hasattr(s, 'next'):
        acc.count('fx_stream_not_a_stream')
        return None
    if trace:
        acc.violation(f'C15/effects/stream/{hook}/operand-evaluated-at-composition',
                      {'case': i, 'expression': describe(tree, leaves)})
        return None
    acc.count('fx_stream_evaluated_via_' + mode)
    for lf in leaves.values():
        acc.count('fx_stream_operand_' + lf.kind)
    history, failed_before, after, fails = [], False, 0, 0
    for step in range(rng.randint(5, 10)):
        inval = rng.choice([None, 3, 2.5, -2])
        dead = {l: leaf_dead(lf) for l, lf in leaves.items()}
        bounds = {l: (inval, DATA)[:lf.nparams] for l, lf in leaves.items()}
        del trace[:]
        try:
            with env['time_limit'](10):
                try:
                    out = s.next(inval)
                except stm.StopStream:
                    out = ('exc', 'StopStream')
                except Exception as ex:
                    out = ('exc', type(ex).__name__)
        except env['Timeout']:
            acc.count('fx_stream_pull_hangs')
            return None
        events = list(trace)
        acc.count('fx_stream_pulls_judged')
        acc.count('fx_operand_bodies_run', len(events))
        rs = [ev[2][1] for ev in events if ev[2] and ev[2][0] == 'raise']
        if rs:
            fails += 1
            acc.count('fx_stream_pulls_with_operand_failure')
            acc.count('fx_operand_failure_TypeError' if rs[0] == 'TypeError'
                      else 'fx_operand_failure_other_types')
        if failed_before:
            acc.count('fx_stream_pulls_after_a_failure')
            if not ck.is_exc(out):
                after += 1
        bad = judge(tree, events, out, bounds, dead, ck, selector_call)
        history.append({'inval': inval,
                        'operand_runs': [[f'F{ev[0]}', repr(ev[1]), repr(ev[2])]
                                         for ev in events],
                        'outcome': repr(out)[:120]})
        if bad:
            acc.violation(
                f'C15/effects/stream/{site_of(tree, bad, hook)}/{bad[0]}/{bad[1]}',
                {'case': i, 'expression': describe(tree, leaves),
                 'evaluated_via': mode,
                 'operands': {f'F{l}': leaves[l].descr for l in sorted(leaves)},
                 'step': step, 'history': history[-4:]})
            break
        failed_before = failed_before or bool(rs)
        if ck.is_exc(out) and (out[1] == 'StopStream' or mode == 'pseq'
                               or not isinstance(s, (stm.UnopStream, stm.BinopStream,
                                                     stm.NaropStream))):
            # ended; an embedding routine is over after any exception
            break
    if fails and after:
        acc.count('fx_stream_histories_value_after_failure')
    return (describe(tree, leaves), mode,
            repr([leaves[l].descr for l in sorted(leaves)]),
            repr([x['inval'] for x in history])), bool(fails and after)


def run(spec, acc, entries, apply_entry, selector_call, time_limit, Timeout,
        iter_cases, case_rng, h64):
    from vf import c15_kinds as ck
    from sc3.base.functions import Function
    entries = [e for e in entries]
    inner = [e for e in entries if e['name'] in INNER_NAMES]
    env = {'ck': ck, 'entries': entries, 'inner': inner, 'apply_entry': apply_entry,
           'selector_call': selector_call, 'Function': Function,
           'time_limit': time_limit, 'Timeout': Timeout}
    for i in iter_cases(spec):
        rng = case_rng(spec['seed'], 'C15', 'fx', i)
        if i % 5 < 3:
            res = run_function_case(i, rng, acc, env)
        else:
            res = run_stream_case(i, rng, acc, env)
        if res is None:
            acc.case(h64(('fx', i)), nontrivial=False)
            continue
        sig, nontrivial = res
        acc.case(h64(sig), nontrivial=nontrivial)
        if acc.want_sample() and nontrivial and rng.random() < 0.02:
            acc.sample({'case': i, 'effects_case': sig[0], 'operands': sig[-2][:400]})
