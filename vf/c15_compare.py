"""Comparison operators of C15 on int / float spellings (round 10).

Class: the six comparison operators (== != < <= > >=) applied the way Python
applies them (a op b, so that NotImplemented, the reflected method of the
right operand and the identity fall-back of == / != all take part) to
Operand / Rest / lifted objects (Function, composed Function, Pattern,
Routine, ChannelList, arrayed_param) against a plain number or an object of
the same family, on either side, with operand VALUES that are int and float
spellings of equal numbers (3 vs 3.0, 0 vs -0.0), unequal numbers of mixed
type, and ints beyond 2**53 against the neighbouring float (Python compares
int with float exactly, float(int) does not).  The random lifting cases draw
both values from short independent lists, so an Operand holding an int next
to an unwrapped float of the same value is practically never generated, and
a comparison written with the value's dunder method (int.__ne__(3.0) is
NotImplemented -> identity fall-back) or through a float() conversion
passes them.

Reference: the Python comparison of the plain numbers, element by element for
sequences (vf/c15_kinds.py ap2), nothing else.  Deterministic grid, ~7000
evaluations, < 2 s.  Not generated: mixed families (an Operand against a
Function ...: the random lifting cases own them), strings / None values,
truth value of the result object (`if a != b` on an Operand(False) - not part
of the statement).
"""

import operator

OPS = [('lt', operator.lt), ('le', operator.le), ('eq', operator.eq),
       ('ne', operator.ne), ('gt', operator.gt), ('ge', operator.ge)]


def value_pairs():
    """[(a, b, class)]"""
    out = []
    for n in (-2, 0, 1, 3, 7):
        out.append((n, float(n), 'int-vs-float-equal-value'))
        out.append((float(n), n, 'float-vs-int-equal-value'))
        out.append((n, n, 'same-type-equal-value'))
        out.append((float(n), float(n), 'same-type-equal-value'))
    out.append((0, -0.0, 'int-vs-float-equal-value'))
    out.append((-0.0, 0, 'float-vs-int-equal-value'))
    for a, b in ((3, 4.0), (4, 3.0), (3, 2.5), (-1, -1.5), (0, 0.25), (7, 7.5)):
        out.append((a, b, 'int-vs-float-unequal'))
        out.append((b, a, 'float-vs-int-unequal'))
    for a, b in ((3, 4), (2.5, 2.25), (-1, -2), (0.5, 1.5)):
        out.append((a, b, 'same-type-unequal'))
        out.append((b, a, 'same-type-unequal'))
    big = 2 ** 53
    for a, b in ((big + 1, float(big)), (big, float(big)), (-big - 1, -float(big)),
                 (10 ** 17 + 1, 1e17)):
        out.append((a, b, 'large-int-vs-float'))
        out.append((b, a, 'large-float-vs-int'))
    return out


ABSTRACT = ['operand', 'rest', 'func', 'cfunc', 'pattern', 'cpattern', 'routine',
            'chan', 'aparam']
SAME_FAMILY = [('operand', 'operand'), ('operand', 'rest'), ('rest', 'operand'),
               ('rest', 'rest'), ('func', 'func'), ('func', 'cfunc'),
               ('cfunc', 'func'), ('pattern', 'pattern'), ('pattern', 'cpattern'),
               ('routine', 'routine'), ('chan', 'chan'), ('chan', 'list'),
               ('chan', 'aparam'), ('aparam', 'chan')]


def _other_spelling(v):
    if isinstance(v, int):
        return float(v)
    if v == int(v):
        return int(v)
    return v


def build(kind, v, m):
    """(object, normal form) of an operand of the kind holding the value v
    (sequences: v and the other spelling of v)."""
    if kind == 'plain':
        return v, v
    if kind == 'operand':
        return m['opd'].Operand(v), v
    if kind == 'rest':
        return m['evt'].Rest(v), v
    if kind == 'func':
        return m['fn'].Function(lambda x, v=v: v), v
    if kind == 'cfunc':
        z = 0 if isinstance(v, int) else 0.0
        return m['fn'].Function(lambda x, v=v: v) + z, v + z
    vals = [v, _other_spelling(v)]
    if kind == 'pattern':
        return m['lp'].Pseq(list(vals), 1), ('seq', vals)
    if kind == 'cpattern':
        return m['lp'].Pseq([-x for x in vals], 1).neg(), ('seq', [-(-x) for x in vals])
    if kind == 'routine':
        def gen():
            for x in vals:
                yield x
        return m['stm'].Routine(gen), ('seq', vals)
    if kind == 'chan':
        return m['ugn'].ChannelList(list(vals)), ('chan', vals)
    if kind == 'aparam':
        return m['evt'].arrayed_param(tuple(vals)), ('chan', vals)
    if kind == 'list':
        return list(vals), ('chan', vals)
    raise ValueError(kind)


def run(acc, eq_key):
    from vf import c15_kinds as ck
    m = ck.mods()
    saved = (ck.EVAL_MODE[0], ck.INVAL[0], ck.CALL_BY_KEYWORD[0])
    ck.INVAL[0] = None
    ck.CALL_BY_KEYWORD[0] = False
    combos = [(k, 'plain', 'abstract-left') for k in ABSTRACT] + \
        [('plain', k, 'number-left') for k in ABSTRACT] + \
        [(l, r, 'both-abstract') for l, r in SAME_FAMILY]
    n = 0
    try:
        for lk, rk, pos in combos:
            fam = ck.family(lk if lk != 'plain' else rk)
            for a, b, cls in value_pairs():
                for opname, op in OPS:
                    n += 1
                    ck.EVAL_MODE[0] = ck.EVAL_MODES[n % len(ck.EVAL_MODES)]
                    oa, nfa = build(lk, a, m)
                    ob, nfb = build(rk, b, m)
                    exp = ck.collapse(ck.ap2(op, nfa, nfb))
                    try:
                        got = ck.evaluate(op(oa, ob), 1)
                    except Exception as ex:
                        got = ('exc', type(ex).__name__)
                    acc.count('compare_cases_checked')
                    acc.count('compare_op_' + opname)
                    acc.count('compare_values_' + cls)
                    acc.count(f'compare_{pos}_{fam}')
                    if got is NotImplemented or not ck.same(exp, got):
                        # one key per mechanism: the order of the two
                        # spellings and the side of the number are witness data
                        vcls = cls.replace('float-vs-int', 'int-vs-float')
                        key = eq_key if opname == 'eq' and fam == 'operand' else \
                            f'C15/compare/{fam}/{opname}/{vcls}'
                        acc.violation(key, {
                            'case': 0, 'operator': opname, 'position': pos,
                            'values': cls, 'left_kind': lk,
                            'right_kind': rk, 'left_value': repr(a),
                            'right_value': repr(b), 'left': repr(oa)[:80],
                            'right': repr(ob)[:80], 'expected': repr(exp)[:200],
                            'library': repr(got)[:200]})
    finally:
        ck.EVAL_MODE[0], ck.INVAL[0], ck.CALL_BY_KEYWORD[0] = saved
