"""icontract postconditions attached from the harness to the real TempoClock.

`attach(TempoClock, main)` wraps the public methods / property setters of the
class object (so the contracts also run for the library's own internal calls,
e.g. the scheduler converting beats to seconds) and returns a restore function.
Conditions are named functions; on failure they append a record to FAILS (so a
violation swallowed by a library `except Exception` is still seen) and
icontract raises `ContractBroken` (error= class given explicitly).

Closed-form predicates only; no model state.  Inputs outside the property's
quantifier (tempo <= 0, quant < 0, |phase| >= quant, non-numbers) are not
judged.
"""

import functools
import math
import threading

import icontract

from vf import c12_model as M

FAILS = []          # dicts: tag, detail
EVALS = {}          # tag -> number of evaluations that judged something
MAIN = [None]


class ContractBroken(Exception):
    pass


def _num(*xs):
    return all(isinstance(x, (int, float)) and not isinstance(x, bool)
               and x == x and abs(x) != float('inf') for x in xs)


def _ev(tag):
    EVALS[tag] = EVALS.get(tag, 0) + 1


def _fail(tag, **detail):
    if len(FAILS) < 50:
        FAILS.append({'tag': tag, 'detail': {k: repr(v) for k, v in
                                              detail.items()}})
    return False


def _tolb(self, *vals):
    """beats tolerance: 1e-9 rel + 1e-9 abs + rounding of the affine map
    (64 ulp of the magnitudes that enter it)."""
    mag = max([1.0] + [abs(v) for v in vals if _num(v)])
    t = abs(self._tempo)
    cond = 64 * M.EPS * (abs(self._base_beats) + mag
                         + t * (abs(self._base_seconds) + 1.0)
                         + t * abs(MAIN[0].current_tt._m_seconds))
    return 1e-9 * mag + 1e-9 + cond


def _tols(self, *vals):
    mag = max([1.0] + [abs(v) for v in vals if _num(v)])
    d = abs(self._beat_dur)
    cond = 64 * M.EPS * (abs(self._base_seconds) + mag
                         + d * (abs(self._base_beats) + 1.0))
    return 1e-9 * mag + 1e-9 + cond


def _stable_now():
    """Is "the current beat" one well defined number during a call?  Not in
    real-time mode outside routines: there every reading of the main thread's
    time advances with the physical clock (documented as imprecise)."""
    m = MAIN[0]
    return m.__name__ != 'RtMain' or m.current_tt is not m.main_tt


def _in_domain(self):
    return _num(self._tempo, self._base_beats, self._base_seconds) \
        and self._tempo > 0


# -- conversions -------------------------------------------------------------

def beats2secs_inverts(self, beats, result):
    if not (_in_domain(self) and _num(beats)):
        return True
    _ev('beats2secs')
    back = self.secs2beats(result)
    if not _num(result, back) or abs(back - beats) > _tolb(self, beats):
        return _fail('beats2secs-not-inverse', beats=beats, secs=result,
                     back=back)
    return True


def secs2beats_inverts_and_advances_at_tempo(self, seconds, result):
    if not (_in_domain(self) and _num(seconds)):
        return True
    _ev('secs2beats')
    back = self.beats2secs(result)
    if not _num(result, back) or abs(back - seconds) > _tols(self, seconds) \
            + _tolb(self, result) * abs(self._beat_dur):
        return _fail('secs2beats-not-inverse', seconds=seconds, beats=result,
                     back=back)
    dt = 1.0 if abs(seconds) < 1e6 else abs(seconds) * 1e-6
    adv = self.secs2beats(seconds + dt) - result
    want = self._tempo * dt
    if abs(adv - want) > 2 * _tolb(self, result, want) + 1e-9 * abs(want):
        return _fail('beats-do-not-advance-at-tempo', seconds=seconds, dt=dt,
                     advance=adv, tempo=self._tempo)
    return True


# -- re-basing ---------------------------------------------------------------

def snap_beats(self):
    try:
        return self.beats
    except Exception:
        return None


def snap_seconds(self):
    return MAIN[0].current_tt._m_seconds


def snap_tempo(self):
    return self._tempo


def snap_elapsed(self):
    try:
        t0 = MAIN[0].elapsed_time()
        return (t0, self.secs2beats(t0), self._tempo)
    except Exception:
        return None


def tempo_change_is_continuous(self, value, OLD):
    if not _stable_now():
        return True
    if not (_num(value) and value > 0 and _num(OLD.tempo) and OLD.tempo > 0
            and OLD.beats is not None):
        return True
    _ev('tempo-setter')
    now = self.beats
    if self._tempo != value:
        return _fail('tempo-not-set', value=value, tempo=self._tempo)
    if abs(self._beat_dur * value - 1.0) > 1e-12:
        return _fail('beat-dur-not-reciprocal', value=value,
                     beat_dur=self._beat_dur)
    if abs(now - OLD.beats) > _tolb(self, now, OLD.beats):
        return _fail('tempo-change-moves-current-beat', before=OLD.beats,
                     after=now, old_tempo=OLD.tempo, new_tempo=value)
    if MAIN[0].current_tt._m_seconds != OLD.seconds:
        return _fail('tempo-change-moves-current-second', before=OLD.seconds,
                     after=MAIN[0].current_tt._m_seconds)
    return True


def etempo_change_is_continuous(self, value, OLD):
    if not (_num(value) and value > 0 and OLD.elapsed is not None
            and _num(OLD.elapsed[2]) and OLD.elapsed[2] > 0):
        return True
    _ev('etempo')
    t0, b0, old_tempo = OLD.elapsed
    t1 = MAIN[0].elapsed_time()
    if self._tempo != value:
        return _fail('etempo-not-set', value=value, tempo=self._tempo)
    if abs(self._beat_dur * value - 1.0) > 1e-12:
        return _fail('beat-dur-not-reciprocal', value=value,
                     beat_dur=self._beat_dur)
    # the old and the new line must meet at the physical time of the change,
    # somewhere in [t0, t1] (t0 == t1 in non-real-time mode)
    f0 = self.secs2beats(t0) - b0
    f1 = self.secs2beats(t1) - (b0 + old_tempo * (t1 - t0))
    tol = _tolb(self, b0, self.secs2beats(t1))
    if min(abs(f0), abs(f1)) > tol and f0 * f1 > 0:
        return _fail('etempo-change-moves-current-beat', t0=t0, t1=t1, f0=f0,
                     f1=f1, old_tempo=old_tempo, new_tempo=value)
    return True


def beats_change_passes_through_now(self, value, OLD):
    if not _stable_now():
        return True
    if not (_num(value) and _num(OLD.tempo) and OLD.tempo > 0):
        return True
    _ev('beats-setter')
    now = self.beats
    if abs(now - value) > _tolb(self, value):
        return _fail('beats-setter-misses-value', value=value, beats=now)
    if self._tempo != OLD.tempo:
        return _fail('beats-setter-changes-tempo', before=OLD.tempo,
                     after=self._tempo)
    if MAIN[0].current_tt._m_seconds != OLD.seconds:
        return _fail('beats-setter-moves-current-second', before=OLD.seconds,
                     after=MAIN[0].current_tt._m_seconds)
    return True


# -- meter -------------------------------------------------------------------

def snap_bars_now(self):
    try:
        return self.beats2bars(self.beats)
    except Exception:
        return None


def meter_change_starts_a_bar_now(self, value, OLD):
    if not _stable_now():
        return True
    if not (_num(value) and value > 0 and _in_domain(self)
            and OLD.bars_now is not None):
        return True
    _ev('beats_per_bar-setter')
    b = self.beats
    if self.beats_per_bar != value:
        return _fail('beats-per-bar-not-set', value=value,
                     got=self.beats_per_bar)
    if abs(self.base_bar_beat - b) > _tolb(self, b):
        return _fail('base-bar-beat-not-current-beat', base=self.base_bar_beat,
                     beats=b)
    bb = self.base_bar
    x = OLD.bars_now
    tol = 1e-9 * max(1.0, abs(x))
    if bb != math.floor(bb) or not (math.floor(x - tol) <= bb
                                    <= math.ceil(x + tol)):
        return _fail('base-bar-not-adjacent-whole-bar', base_bar=bb,
                     running_bar=x)
    back = self.bars2beats(self.beats2bars(b) + 1.0)
    if abs(back - (b + value)) > _tolb(self, b, value):
        return _fail('bar-length-not-beats-per-bar', one_bar_later=back,
                     beats=b, beats_per_bar=value)
    return True


def beats2bars_inverts(self, beats, result):
    if not (_num(beats) and _num(self._beats_per_bar)
            and self._beats_per_bar > 0):
        return True
    _ev('beats2bars')
    back = self.bars2beats(result)
    if not _num(result, back) or abs(back - beats) > M.grid_tol(
            beats, self._base_bar_beat, self._beats_per_bar):
        return _fail('beats2bars-not-inverse', beats=beats, bars=result,
                     back=back)
    return True


def bars2beats_inverts(self, bars, result):
    if not (_num(bars) and _num(self._beats_per_bar)
            and self._beats_per_bar > 0):
        return True
    _ev('bars2beats')
    back = self.beats2bars(result)
    if not _num(result, back) or abs(back - bars) > M.grid_tol(
            bars, self._base_bar, result / self._beats_per_bar):
        return _fail('bars2beats-not-inverse', bars=bars, beats=result,
                     back=back)
    return True


def next_bar_is_next_bar_line(self, beat, result):
    bpb = self._beats_per_bar
    if not (_num(bpb) and bpb > 0 and (beat is None or _num(beat))):
        return True
    if beat is None and not _stable_now():
        return True
    _ev('next_bar')
    b = self.beats if beat is None else beat
    tol = M.grid_tol(b, result if _num(result) else 0, self._base_bar_beat, bpb)
    if not _num(result):
        return _fail('next-bar-not-a-number', result=result)
    if result < b - tol:
        return _fail('next-bar-before-beat', beat=b, result=result)
    if result - b >= bpb + tol:
        return _fail('next-bar-not-next', beat=b, result=result, bpb=bpb)
    x = self.beats2bars(result)
    if abs(x - round(x)) * bpb > tol:
        return _fail('next-bar-not-a-bar-line', result=result, bars=x)
    return True


def bar_contains_current_beat(self, result):
    bpb = self._beats_per_bar
    if not (_num(bpb) and bpb > 0 and _in_domain(self) and _stable_now()):
        return True
    _ev('bar')
    b = self.beats
    tol = M.grid_tol(b, self._base_bar_beat, bpb)
    if not _num(result) or result != math.floor(result):
        return _fail('bar-not-whole', result=result)
    lo = self.bars2beats(result)
    if not (lo - tol <= b < lo + bpb + tol):
        return _fail('bar-does-not-contain-beat', bar=result, start=lo, beats=b)
    return True


def beat_in_bar_in_range(self, result):
    bpb = self._beats_per_bar
    if not (_num(bpb) and bpb > 0 and _in_domain(self) and _stable_now()):
        return True
    _ev('beat_in_bar')
    tol = M.grid_tol(self.beats, self._base_bar_beat, bpb)
    if not _num(result) or not (-tol <= result < bpb + tol):
        return _fail('beat-in-bar-out-of-range', result=result, bpb=bpb)
    return True


# -- quantisation ------------------------------------------------------------

def grid_domain(quant, phase, ref):
    return _num(quant, phase) and (ref is None or _num(ref)) and quant >= 0 \
        and (abs(phase) < quant or (quant == 0 and phase == 0))


def next_time_on_grid_is_earliest_congruent(self, quant, phase, refbeat,
                                            result, OLD):
    if not (grid_domain(quant, phase, refbeat) and _in_domain(self)):
        return True
    if refbeat is None and OLD.beats is None:
        return True
    _ev('next_time_on_grid')
    # without a reference the clock's current beat is used: read somewhere
    # between the snapshot and now (the same number inside routines)
    ref = OLD.beats if refbeat is None else refbeat
    ref_hi = self.beats if refbeat is None else refbeat
    bad = M.grid_check(result, quant, phase, ref, self.base_bar_beat,
                       0.0 if refbeat is not None else _tolb(self, ref),
                       ref_hi=ref_hi, direct=refbeat is not None)
    if bad:
        return _fail('grid-' + bad[0], quant=quant, phase=phase, ref=ref,
                     base_bar_beat=self.base_bar_beat, result=result)
    return True


def time_to_next_beat_in_range(self, quant, result):
    if not (_num(quant) and quant > 0 and _in_domain(self)
            and _stable_now()):
        return True
    _ev('time_to_next_beat')
    tol = M.grid_tol(self.beats, quant) + _tolb(self, self.beats)
    if not _num(result) or not (-tol <= result < quant + tol):
        return _fail('time-to-next-beat-out-of-range', quant=quant,
                     result=result)
    return True


# ---------------------------------------------------------------------------

_BUSY = threading.local()


def _guarded(fn, neutral):
    """Conditions call the clock's (contract wrapped) methods themselves;
    icontract 2.7's own recursion guard is dropped by the first nested call,
    so nested evaluations are switched off here: while a condition / snapshot
    runs in this thread, inner ones return `neutral` at once."""
    @functools.wraps(fn)
    def guarded(*args, **kwargs):
        if getattr(_BUSY, 'on', False):
            return neutral
        _BUSY.on = True
        try:
            return fn(*args, **kwargs)
        finally:
            _BUSY.on = False
    return guarded


def _ens(cond, f, snaps=()):
    g = icontract.ensure(_guarded(cond, True), error=ContractBroken)(f)
    for cap, name in snaps:
        g = icontract.snapshot(_guarded(cap, None), name=name)(g)
    return g


def _set(cls, name, value):
    # the metaclass defines read-only properties of the same names (beats,
    # seconds...) for the class-level clocks, which intercept setattr on the
    # class object: lift them for the duration of the assignment
    lifted = []
    for meta in type(cls).__mro__:
        d = meta.__dict__.get(name)
        if d is not None and hasattr(d, '__set__'):
            lifted.append((meta, d))
            delattr(meta, name)
    try:
        setattr(cls, name, value)
    finally:
        for meta, d in lifted:
            setattr(meta, name, d)


def attach(cls, main):
    """Wrap the methods of the TempoClock class object.  Returns restore()."""
    MAIN[0] = main
    saved = {}

    def method(name, cond, snaps=()):
        saved[name] = cls.__dict__[name]
        _set(cls, name, _ens(cond, saved[name], snaps))

    def setter(name, cond, snaps=()):
        prop = cls.__dict__[name]
        saved[name] = prop
        _set(cls, name, property(prop.fget, _ens(cond, prop.fset, snaps),
                                 prop.fdel, prop.__doc__))

    method('beats2secs', beats2secs_inverts)
    method('secs2beats', secs2beats_inverts_and_advances_at_tempo)
    setter('tempo', tempo_change_is_continuous,
           [(snap_beats, 'beats'), (snap_seconds, 'seconds'),
            (snap_tempo, 'tempo')])
    method('etempo', etempo_change_is_continuous, [(snap_elapsed, 'elapsed')])
    setter('beats', beats_change_passes_through_now,
           [(snap_seconds, 'seconds'), (snap_tempo, 'tempo')])
    setter('beats_per_bar', meter_change_starts_a_bar_now,
           [(snap_bars_now, 'bars_now')])
    method('beats2bars', beats2bars_inverts)
    method('bars2beats', bars2beats_inverts)
    method('next_bar', next_bar_is_next_bar_line)
    method('bar', bar_contains_current_beat)
    method('beat_in_bar', beat_in_bar_in_range)
    method('next_time_on_grid', next_time_on_grid_is_earliest_congruent,
           [(snap_beats, 'beats')])
    method('time_to_next_beat', time_to_next_beat_in_range)

    def restore():
        for name, orig in saved.items():
            _set(cls, name, orig)
    return restore


def take_fails():
    out = list(FAILS)
    del FAILS[:]
    return out
