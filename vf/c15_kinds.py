"""Operand kinds, evaluation to a normal form and the reference application
of a numeric operator to evaluated operands (C15 lifting law).

Normal form (NF) of an evaluated object:
    number / bool / None / complex     scalar
    ('seq',  [NF, ...])                stream or pattern (first K values)
    ('chan', [NF, ...])                list / tuple / ChannelList / arrayed_param
    ('exc',  'TypeName')               evaluation raised

The reference never looks at how the library composes: it combines the NFs of
the operands, which are known by construction, with the plain numeric
operator:

* functions are evaluated at the call argument, operands unwrap to their value;
* streams and patterns combine element by element and end with the shortest,
  anything that is not a stream is a constant operand;
* lists combine element by element, the shorter one wrapping around; a
  non-list operand is combined with every element;
* when a list meets a stream the left operand decides the outer structure
  (a list of streams or a stream of lists) - that is what "applying the
  operator to the left operand" means in Python and in sclang.

sc3 is imported lazily (worker only).
"""

K = 8          # values pulled from streams


def is_seq(nf):
    return isinstance(nf, tuple) and len(nf) == 2 and nf[0] == 'seq'


def is_chan(nf):
    return isinstance(nf, tuple) and len(nf) == 2 and nf[0] == 'chan'


def is_exc(nf):
    return isinstance(nf, tuple) and len(nf) == 2 and nf[0] == 'exc'


def first_exc(nf):
    if is_exc(nf):
        return nf
    if is_seq(nf) or is_chan(nf):
        for i in nf[1]:
            e = first_exc(i)
            if e is not None:
                return e
    return None


def collapse(nf):
    """An exception anywhere aborts the whole evaluation."""
    e = first_exc(nf)
    return e if e is not None else nf


def scalar_call(sel, *args):
    try:
        return sel(*args)
    except Exception as e:        # the numeric operator's own exception
        return ('exc', type(e).__name__)


def ap1(sel, a):
    if is_exc(a):
        return a
    if is_seq(a) or is_chan(a):
        return (a[0], [ap1(sel, i) for i in a[1]])
    return scalar_call(sel, a)


def ap2(sel, a, b):
    if is_exc(a):
        return a
    if is_exc(b):
        return b
    if is_seq(a):
        if is_seq(b):
            return ('seq', [ap2(sel, x, y) for x, y in zip(a[1], b[1])])
        return ('seq', [ap2(sel, x, b) for x in a[1]])
    if is_chan(a):
        if is_chan(b):
            la, lb = len(a[1]), len(b[1])
            if la == 0 or lb == 0:
                return ('chan', [])
            n = max(la, lb)
            return ('chan', [ap2(sel, a[1][i % la], b[1][i % lb])
                             for i in range(n)])
        return ('chan', [ap2(sel, x, b) for x in a[1]])
    if is_seq(b):
        return ('seq', [ap2(sel, a, y) for y in b[1]])
    if is_chan(b):
        return ('chan', [ap2(sel, a, y) for y in b[1]])
    return scalar_call(sel, a, b)


def apn(sel, a, args, expand_lists=False):
    """n-ary: the receiver decides the structure; stream arguments advance
    together with a stream receiver, numbers are constants.  With
    expand_lists the list arguments of a list receiver expand element-wise
    with wrap-around (the property's reading for lists)."""
    if is_exc(a):
        return a
    for x in args:
        if is_exc(x):
            return x
    if is_seq(a):
        n = len(a[1])
        for x in args:
            if is_seq(x):
                n = min(n, len(x[1]))
        out = []
        for i in range(n):
            out.append(apn(sel, a[1][i],
                           [x[1][i] if is_seq(x) else x for x in args],
                           expand_lists))
        return ('seq', out)
    if is_chan(a):
        if expand_lists and any(is_chan(x) for x in args):
            n = max([len(a[1])] + [len(x[1]) for x in args if is_chan(x)])
            if len(a[1]) == 0 or any(is_chan(x) and not x[1] for x in args):
                return ('chan', [])
            return ('chan', [apn(sel, a[1][i % len(a[1])],
                                 [x[1][i % len(x[1])] if is_chan(x) else x
                                  for x in args], True) for i in range(n)])
        return ('chan', [apn(sel, x, args, expand_lists) for x in a[1]])
    return scalar_call(sel, a, *args)


def same(a, b):
    if is_exc(a) or is_exc(b):
        return is_exc(a) and is_exc(b) and a[1] == b[1]
    if (is_seq(a) or is_chan(a)) or (is_seq(b) or is_chan(b)):
        if not ((is_seq(a) and is_seq(b)) or (is_chan(a) and is_chan(b))):
            return False
        return len(a[1]) == len(b[1]) and all(
            same(x, y) for x, y in zip(a[1], b[1]))
    if isinstance(a, float) and isinstance(b, float) and a != a and b != b:
        return True
    if isinstance(a, tuple) or isinstance(b, tuple):
        return a == b
    try:
        return bool(a == b)
    except Exception:
        return a is b


# ---------------------------------------------------------------------------
# real operands

_m = {}


def mods():
    if not _m:
        from sc3.base import builtins as bi, absobject as aob, functions as fn, \
            stream as stm, operand as opd, utils as utl
        from sc3.seq import pattern as ptt, event as evt
        from sc3.seq.patterns import listpatterns as lp, filterpatterns as fp, \
            funcpatterns as up
        from sc3.synth import ugen as ugn
        from sc3.base.main import main
        _m.update(bi=bi, aob=aob, fn=fn, stm=stm, opd=opd, utl=utl, ptt=ptt,
                  evt=evt, lp=lp, fp=fp, up=up, ugn=ugn, main=main)
    return _m


INTS = [-7, -3, -2, -1, 0, 1, 2, 3, 4, 5, 9]
FLOATS = [-6.5, -2.5, -1.0, -0.5, 0.0, 0.25, 0.5, 1.0, 1.5, 2.5, 3.75, 8.0]

NUMBER_KINDS = ['int', 'float']
FUNC_KINDS = ['func', 'cfunc']
STREAM_KINDS = ['routine', 'cstream', 'pstream', 'fstream', 'istream']
PATTERN_KINDS = ['pattern', 'cpattern', 'ipattern', 'ifuncn']
CHAN_KINDS = ['chan', 'nchan', 'aparam']
PLAIN_LIST_KINDS = ['list', 'tuple', 'nested']
OPERAND_KINDS = ['operand', 'rest']
ABSTRACT_KINDS = FUNC_KINDS + STREAM_KINDS + PATTERN_KINDS + CHAN_KINDS + \
    OPERAND_KINDS
SCALAR_NF_KINDS = NUMBER_KINDS + FUNC_KINDS + OPERAND_KINDS


def family(kind):
    for name, ks in (('number', NUMBER_KINDS), ('function', FUNC_KINDS),
                     ('stream', STREAM_KINDS), ('pattern', PATTERN_KINDS),
                     ('channels', CHAN_KINDS), ('plainlist', PLAIN_LIST_KINDS),
                     ('operand', OPERAND_KINDS)):
        if kind in ks:
            return name
    raise ValueError(kind)


def num(rng, ints_only=False):
    if ints_only or rng.random() < 0.5:
        return rng.choice(INTS)
    return rng.choice(FLOATS)


def nf_of_list(v):
    if isinstance(v, (list, tuple)):
        return ('chan', [nf_of_list(i) for i in v])
    return v


def make(kind, rng, x0, ints_only=False, allow_empty=True):
    """(real object, NF) of a fresh operand of the given kind."""
    m = mods()
    n = lambda: num(rng, ints_only)
    if kind == 'int':
        v = rng.choice(INTS)
        return v, v
    if kind == 'float':
        v = rng.choice(INTS) if ints_only else rng.choice(FLOATS)
        return v, v
    if kind in ('func', 'cfunc'):
        k, c = rng.choice([1, 2, -1, 3]), n()
        f = m['fn'].Function(lambda x, k=k, c=c: x * k + c)
        val = x0 * k + c
        if kind == 'func':
            return f, val
        which = rng.randrange(4)
        c2 = n()
        if which == 0:
            return -f, -val
        if which == 1:
            return f + c2, val + c2
        if which == 2:
            return c2 - f, c2 - val
        g = m['fn'].Function(lambda x, c2=c2: x + c2)   # same parameter name
        return f * g, val * (x0 + c2)
    if kind in ('routine', 'cstream'):
        vals = [n() for _ in range(rng.randint(1, 4))]

        def gen():            # no parameters: Routine would pass inval
            for v in vals:
                yield v
        r = m['stm'].Routine(gen)
        if kind == 'routine':
            return r, ('seq', list(vals))
        if rng.random() < 0.5:
            return -r, ('seq', [-v for v in vals])
        c = n()
        return r + c, ('seq', [v + c for v in vals])
    if kind in ('istream', 'ipattern'):
        # values computed from the input value of each pull
        vals = [n() for _ in range(rng.randint(2, 4))]
        k = rng.choice([1, 2, -1, 3])

        def body(inval):
            for v in vals:
                inval = yield iv(inval) * k + v
        nf = ('seq', [iv(INVAL[0]) * k + v for v in vals])
        if kind == 'istream':
            return m['stm'].Routine(body), nf
        return m['up'].Prout(body), nf
    if kind == 'ifuncn':
        k, c, cnt = rng.choice([1, 2, -1]), n(), rng.randint(2, 4)
        return (m['up'].Pfuncn(lambda inval: iv(inval) * k + c, cnt),
                ('seq', [iv(INVAL[0]) * k + c] * cnt))
    if kind == 'pstream':        # stream object made from a pattern
        vals = [n() for _ in range(rng.randint(2, 4))]
        return m['stm'].stream(m['lp'].Pseq(list(vals), 1)), ('seq', list(vals))
    if kind == 'fstream':        # FunctionStream over varying values
        vals = [n() for _ in range(rng.randint(2, 4))]
        it = iter(vals)

        def next_func():
            try:
                return next(it)
            except StopIteration:
                raise m['stm'].StopStream from None
        return m['stm'].FunctionStream(next_func), ('seq', list(vals))
    if kind in ('pattern', 'cpattern'):
        vals = [n() for _ in range(rng.randint(1, 4))]
        p = m['lp'].Pseq(list(vals), 1)
        if kind == 'pattern':
            return p, ('seq', list(vals))
        if rng.random() < 0.5:
            return p.neg(), ('seq', [-v for v in vals])
        c = n()
        return c + p, ('seq', [c + v for v in vals])
    if kind == 'chan':
        vals = [n() for _ in range(rng.randint(1, 4) if rng.random() > 0.04
                                  or not allow_empty else 0)]
        return m['ugn'].ChannelList(list(vals)), ('chan', list(vals))
    if kind == 'nchan':
        vals = [n(), [n(), n()], (n(),) if rng.random() < 0.5 else n()]
        rng.shuffle(vals)
        return m['ugn'].ChannelList(list(vals)), nf_of_list(vals)
    if kind == 'aparam':
        vals = tuple(n() for _ in range(rng.randint(1, 3)))
        return m['evt'].arrayed_param(vals), ('chan', list(vals))
    if kind == 'list':
        vals = [n() for _ in range(rng.randint(1, 5))]
        return list(vals), ('chan', list(vals))
    if kind == 'tuple':
        vals = [n() for _ in range(rng.randint(1, 5))]
        return tuple(vals), ('chan', list(vals))
    if kind == 'nested':
        vals = [n(), [n(), (n(), n())], [n()]]
        rng.shuffle(vals)
        return list(vals), nf_of_list(vals)
    if kind == 'operand':
        v = n()
        return m['opd'].Operand(v), v
    if kind == 'rest':
        v = n()
        return m['evt'].Rest(v), v
    raise ValueError(kind)


# the input value handed to every next() / send() of an evaluation; operands
# of the kinds istream / ipattern / ifuncn compute their values from it, so
# next(op s, inval) == op(next(s, inval)) is only satisfied when the lifted
# object passes inval on to its operands on every pull.
INVAL = [None]


def iv(inval):
    return 0 if inval is None else inval


CALL_BY_KEYWORD = [False]   # functions take their argument as f(x=x0)
# how a composed *pattern* is turned into values: 'stream' (stream(p), the
# __stream__ path) or embedded in another pattern / through the embedding
# protocol (the __embed__ path): 'pseq' Pseq([p], 1), 'pn' Pn(p, 1), 'embed'
# the generator of stream.embed(p).  All must give the same sequence
# (sub-patterns are embedded in place).
EVAL_MODE = ['stream']
EVAL_MODES = ['stream', 'pseq', 'pn', 'embed']


class _EmbedStream:
    """next() over the embedding generator of a pattern."""

    def __init__(self, gen, StopStream):
        self.gen, self.StopStream = gen, StopStream
        self.started = False

    def next(self, inval=None):
        try:
            if not self.started:
                self.started = True
                return next(self.gen)
            return self.gen.send(inval)
        except StopIteration:
            raise self.StopStream from None


def evaluate(obj, x0, depth=0):
    """Normal form of a real (possibly composed) object."""
    m = mods()
    if depth > 12:
        return ('exc', 'TooDeep')
    try:
        if obj is None or isinstance(obj, (bool, int, float, complex, str)):
            return obj
        if isinstance(obj, m['opd'].Operand):
            return evaluate(obj.value, x0, depth + 1)
        if isinstance(obj, m['fn'].AbstractFunction):
            if CALL_BY_KEYWORD[0]:
                return evaluate(obj(x=x0), x0, depth + 1)
            return evaluate(obj(x0), x0, depth + 1)
        if isinstance(obj, m['ptt'].Pattern):
            mode = EVAL_MODE[0]
            if mode == 'pseq':
                obj = m['stm'].stream(m['lp'].Pseq([obj], 1))
            elif mode == 'pn':
                obj = m['stm'].stream(m['fp'].Pn(obj, 1))
            elif mode == 'embed':
                obj = _EmbedStream(m['stm'].embed(obj, INVAL[0]), m['stm'].StopStream)
            else:
                obj = m['stm'].stream(obj)
        if isinstance(obj, (m['stm'].Stream, _EmbedStream)):
            out = []
            for _ in range(K):
                try:
                    v = obj.next(INVAL[0])
                except m['stm'].StopStream:
                    break
                out.append(evaluate(v, x0, depth + 1))
            return collapse(('seq', out))
        if isinstance(obj, (list, tuple)):
            return collapse(('chan', [evaluate(i, x0, depth + 1) for i in obj]))
        return ('obj', type(obj).__name__)
    except Exception as e:
        return ('exc', type(e).__name__)
