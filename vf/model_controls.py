"""Reference model of SynthDef control layout (C04).  Does NOT import sc3.

Written from the SynthDef documentation (rates / prepend / variants /
metadata parameters), the server's definition-file format and the property
statement:

* every parameter of a graph function that is not filled by `prepend`
  becomes a named control;
* its value(s): a number default -> one slot; a tuple default -> one slot per
  element; no default / None -> the default of metadata['specs'][name] if
  present, else 0.0;
* a slot is an IEEE float32: it holds the float32 nearest to the declared
  number (int, bool or float; +-inf stay +-inf, -0.0 keeps its sign, numbers
  below the smallest denormal become a zero of their sign); numbers beyond
  the float32 range have no nearest float32 and are outside the domain.  The
  documentation says "numbers, int or float" are the valid values and is
  silent about NaN, so a NaN default has three acceptable fates: the slot
  holds NaN (a float like any other), it is replaced like the other invalid
  defaults (scalar: spec default / 0.0; tuple item: 0.0), or the build
  refuses the signature.  Every other float - the infinities included - must
  arrive in its slot;
* a parameter's NAME is only a name: it never influences rate, lag, slot,
  order or value (this port defines rates by annotations and the rates
  argument only; sclang's a_ i_ t_ argument prefixes mean nothing here);
* its rate: a rate name in `rates` ('ar','kr','ir','tr') wins over the
  annotation, the annotation wins over the default 'kr'; a number (or, for
  array parameters, a list of numbers, cyclically extended) in `rates` is the
  lag of a control-rate parameter and is ignored for the other rates; `rates`
  entries are aligned with the parameters that become controls (after the
  prepended ones); missing entries and None mean "no lag";
* slots: functions in the order in which they are built (the definition's
  function first, each SynthDef.wrap when it is called); inside one function
  the groups ir, tr, ar, kr in this order and declaration order in a group;
* units: ir -> Control (scalar rate), tr -> TrigControl (control rate),
  ar -> AudioControl (audio rate), kr -> Control (control rate) or, when
  lagged, LagControl (control rate) whose k-th input is the lag of its k-th
  output; a unit's special index is the slot of its first output;
* variants: one block per variant, named '<def>.<variant>', holding the
  default array overridden at the named controls' slots.

A program is plain data:
  {'name': str, 'funcs': {fname: func}, 'top': fname, 'specs': {pname: num},
   'variants': {vname: {pname: num | [num, ...]}}}
  func = {'name', 'params': [param], 'prepend': k, 'rates': None | [entry],
          'wraps': [fname, ...]}
  param = {'name', 'annot': None|'ir'|'tr'|'ar'|'kr',
           'default': ('missing',) | ('none',) | ('num', v) | ('tuple', [v..])
                      | ('bool', b) | ('invalid', python source)}
  A func with 'fails': True has a parameter carrying an invalid annotation
  ('annot_src'); SynthDef.wrap rejects it as a whole (ValueError, caught by
  the calling graph function), so it contributes NOTHING to the layout; its
  optional 'fallback' func is wrapped instead and is an ordinary function.
  A func with 'alias_of': other is the SAME python function as `other`
  wrapped once more (own rates / prepend values, same parameter list).
  A func with 'body_fails': {'route': j, 'wraps': m, 'catch_up': u, ...} has a
  VALID signature: SynthDef.wrap turns its parameters into controls, calls
  the body, and the body raises after it used j of its parameters and
  completed m of its own wraps.  The exception passes through u enclosing
  wrapped functions (which are abandoned at that point: their remaining
  wraps never happen) and is handled by the next one, which optionally wraps
  the failing function's 'fallback' and carries on.  The statement leaves two
  consistent outcomes for the controls created inside the handled call:
  failed='kept' (they are controls of the definition like any other: slots,
  units, name entries - the definition is built from what the calls did) or
  failed='dropped' (everything the abandoned call created is taken back:
  no slots, no units, no names).  Anything in between is a broken layout.
"""

import struct

RATE_NAMES = ('ar', 'kr', 'ir', 'tr')
GROUP_ORDER = ('ir', 'tr', 'ar', 'kr')
UNIT_OF = {'ir': ('Control', 0), 'tr': ('TrigControl', 1),
           'ar': ('AudioControl', 2), 'kr': ('Control', 1)}
LAG_UNIT = ('LagControl', 1)


def f32(x):
    return struct.unpack('>f', struct.pack('>f', float(x)))[0]


def same_f32(a, b):
    """the same float32 bit for bit (sign of zero included); any NaN = NaN"""
    if a != a or b != b:
        return a != a and b != b
    return struct.pack('>f', a) == struct.pack('>f', b)


def slot_holds(got, declared, nan_fallback=0.0):
    """does a decoded float32 slot hold the declared number?"""
    exp = f32(declared)
    if exp != exp:
        return got != got or same_f32(got, f32(nan_fallback))
    return same_f32(got, exp)


class Slot:
    __slots__ = ('name', 'func', 'index', 'size', 'rate', 'defaults', 'lags',
                 'is_array', 'decl', 'nan_fallback')

    def describe(self):
        return {k: getattr(self, k) for k in self.__slots__}


def invocation_order(prog, failed='kept'):
    """function entries in the order in which their controls are created.
    failed: what happens to the entries created inside a wrap call whose
    exception was handled by a graph function ('kept' | 'dropped')."""
    out = []
    funcs = prog['funcs']

    def visit(fname):
        """-> None, or (levels still to pass, fallback) of an exception
        leaving this function"""
        out.append(fname)
        f = funcs[fname]
        bf = f.get('body_fails')
        pending = list(f['wraps'])
        done = 0
        while True:
            if bf and done == min(bf['wraps'], len(f['wraps'])):
                return (bf['catch_up'], f.get('fallback'))
            if not pending:
                return None
            w = pending.pop(0)
            done += 1
            c = funcs[w]
            if c.get('fails'):
                # a helper that SynthDef.wrap rejects (invalid annotation)
                # declares nothing; the caller may then wrap a fallback
                if c.get('fallback'):
                    pending.insert(0, c['fallback'])
                    done -= 1
                continue
            mark = len(out)
            r = visit(w)
            if r is None:
                continue
            if r[0] > 0:
                return (r[0] - 1, r[1])     # passes through this function
            # handled here
            if failed == 'dropped':
                del out[mark:]
            if r[1]:
                pending.insert(0, r[1])
                done -= 1
    r = visit(prog['top'])
    if r is not None:
        raise ValueError('exception of a failing body leaves the top function')
    return out


def failed_subtree(prog):
    """names of all function entries below a wrap call whose exception is
    handled (created, abandoned or never reached)"""
    funcs = prog['funcs']
    parent = {w: f['name'] for f in funcs.values() for w in f['wraps']}
    roots = []
    for f in funcs.values():
        bf = f.get('body_fails')
        if bf:
            n = f['name']
            for _ in range(bf['catch_up']):
                n = parent[n]
            roots.append(n)
    out = set()

    def add(n):
        if n in out:
            return
        out.add(n)
        for w in funcs[n]['wraps']:
            add(w)
            fb = funcs[w].get('fallback')
            if fb:
                add(fb)
    for n in roots:
        add(n)
    return out


def param_values(param, specs):
    d = param['default']
    if d[0] == 'num':
        return [d[1]], False
    if d[0] == 'bool':
        return [1.0 if d[1] else 0.0], False
    # ('invalid', src): a default that is neither number, None nor tuple is
    # replaced by None with a logged warning (synthdef.py
    # _get_valid_arg_values), i.e. treated like a missing default
    if d[0] == 'tuple':
        return list(d[1]), True
    if param['name'] in specs:
        return [specs[param['name']]], False
    return [0.0], False


def param_rate_and_lags(param, entry, size):
    annot = param['annot']
    if isinstance(entry, str) and entry in RATE_NAMES:
        rate, lag = entry, None
    elif annot in ('ir', 'tr', 'ar'):
        rate, lag = annot, None
    else:
        rate, lag = 'kr', entry
    lags = [0.0] * size
    if rate == 'kr' and lag is not None:
        if isinstance(lag, (list, tuple)):
            lags = [float(lag[k % len(lag)]) for k in range(size)]
        else:
            lags = [float(lag)] * size
    return rate, lags


def layout(prog, failed='kept'):
    """Slots are keyed by (function entry, parameter name): the same control
    name may be declared more than once in one definition (a helper wrapped
    twice, a helper reusing a name of the enclosing function); every declared
    parameter occurrence is a control of its own with its own slots and its
    own name-table entry.  by_name holds the names declared exactly once.
    -> dict(P=total slots, slots={key: Slot}, order=[keys in declaration
    order], defaults=[P floats], groups=[(func, rate, start, size, lagged)])"""
    specs = prog.get('specs') or {}
    cursor = 0
    slots, order, groups = {}, [], []
    defaults = []
    for fname in invocation_order(prog, failed):
        f = prog['funcs'][fname]
        ctl = f['params'][f['prepend']:]
        rates = list(f['rates'] or [])
        mine = []
        for k, p in enumerate(ctl):
            vals, is_array = param_values(p, specs)
            entry = rates[k] if k < len(rates) else None
            rate, lags = param_rate_and_lags(p, entry, len(vals))
            s = Slot()
            s.name, s.func, s.size, s.rate = p['name'], fname, len(vals), rate
            s.defaults, s.lags, s.is_array, s.decl = vals, lags, is_array, k
            # what a NaN default becomes if it is treated as invalid
            s.nan_fallback = 0.0 if is_array else specs.get(p['name'], 0.0)
            s.index = None
            mine.append(s)
            key = (fname, p['name'])
            order.append(key)
            if key in slots:
                raise ValueError('function entry built twice: ' + fname)
            slots[key] = s
        for g in GROUP_ORDER:
            members = [s for s in mine if s.rate == g]
            if not members:
                continue
            start = cursor
            for s in members:
                s.index = cursor
                cursor += s.size
                defaults.extend(s.defaults)
            lagged = g == 'kr' and any(l != 0 for s in members for l in s.lags)
            groups.append((fname, g, start, cursor - start, lagged))
    count = {}
    for s in slots.values():
        if s.size:      # a control without slots cannot have a name entry
            count[s.name] = count.get(s.name, 0) + 1
    by_name = {s.name: s for s in slots.values() if count.get(s.name) == 1}
    return {'P': cursor, 'slots': slots, 'order': order, 'by_name': by_name,
            'name_count': count, 'defaults': defaults, 'groups': groups}


def variants(prog, lay):
    out = {}
    for vname, pairs in (prog.get('variants') or {}).items():
        vals = list(lay['defaults'])
        for pname, v in pairs.items():
            s = lay['by_name'][pname]    # variants only name unique controls
            vs = list(v) if isinstance(v, (list, tuple)) else [v]
            if len(vs) > s.size:
                raise ValueError('variant value longer than the control')
            for k, x in enumerate(vs):
                vals[s.index + k] = x
        out[prog['name'] + '.' + vname] = vals
    return out


def call_mapping(prog, positional, keywords):
    """expected (name, value) pairs of  synthdef(*positional, **keywords)."""
    top = prog['funcs'][prog['top']]
    names = [p['name'] for p in top['params'][top['prepend']:]]
    if len(positional) > len(names):
        raise ValueError('more positional arguments than controls')
    return list(zip(names, positional)) + list(keywords.items())
