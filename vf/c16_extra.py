"""C16 helper (round 7b): the entry points of sc3/synth/_engine.py that the
histories of vf/props/C16.py never entered.  sc3 is imported inside the run
functions only; every expectation comes from vf/model_alloc.py.

reserve   ContiguousBlockAllocator.reserve(address, size, warn) mixed into
          alloc / free / double free histories (same configurations as the
          `direct` workload: partition sizes 1-256, reserved offsets, client
          address offsets).  Domain: ranges inside the client's partition
          [offset + reserved, offset + size) with size >= 1 (the documented
          use: "mark a specific range of addresses as used so that alloc will
          not return any address within that range").  A range without a live
          address must become live (exactly that range); a range with a live
          address - the same range again, the start of a live range with
          another length, its interior, a range running into it from a free
          address on its left, a range starting in it and ending in free
          space - must be refused with the live set unchanged (an exception
          with an unchanged live set is a refusal too).  Reserved ranges are
          live for the bitmap model: later alloc() answers are judged against
          them, free(start) releases them, coalescing with free neighbours is
          needed for the "no space" verdicts that follow.

perm      NodeIDAllocator.alloc_perm() / free_perm(id) interleaved with
          alloc(): permanent ids are pairwise distinct while live, lie in the
          client's permanent zone [user*2**26 + 2, user*2**26 + first
          temporary id) - so never collide with a temporary id, also after the
          temporary ids wrapped - freed ones may come back; free_perm of a
          temporary id must not make alloc_perm hand it out.  Only live
          permanent ids, already freed ones (double free) and temporary ids
          are freed (the free of a permanent id that was never handed out is
          misuse the sclang original does not guard against).  When the zone
          is exhausted no correct answer exists: only the zone is judged.

numalloc  PowerOfTwoAllocator(size, pos), LRUNumberAllocator(lo, hi),
          StackNumberAllocator(lo, hi), RingNumberAllocator(lo, hi) under
          alloc / free histories, judged as far as their discipline allows
          (see vf/model_alloc.py).  Double frees are applied to the power of
          two allocator only (it documents them as ignored); the number pools
          are plain stacks / queues that hand a number out once per free, so
          only live numbers are freed there.
"""

from vf.common import iter_cases, case_rng, h64, short_tb, tb_sites


def _site_key(e):
    sites = tb_sites(e)
    fn = sites[-1][1] if sites else 'outside-sc3'
    return f'{type(e).__name__}@{fn}'


def _offset_class(offset):
    return 'offset-zero' if offset == 0 else 'offset-nonzero'


# ---------------------------------------------------------------------------
# reserve

RESERVE_PROFILES = [
    # alloc, free, double free, reserve
    dict(alloc=5, free=3, dfree=0.4, reserve=3),
    dict(alloc=3, free=4, dfree=0.5, reserve=4),
    dict(alloc=2, free=4, dfree=0.5, reserve=5),
    dict(alloc=1, free=3, dfree=0.3, reserve=6),      # mostly reserve
]

OCCUPIED_VARIANTS = ('same-range', 'same-start-shorter', 'same-start-longer',
                     'interior', 'runs-into-from-left', 'starts-inside-ends-after',
                     'covers')


def pick_reserve(rng, model):
    """Returns (class, variant, addr, n) for a range inside the partition, or
    None when the partition has no address."""
    lo, hi = model.lo, model.hi
    if hi <= lo:
        return None
    r = rng.random()
    runs = model.free_runs()
    if r < 0.45 and runs:
        s, ln = rng.choice(runs)
        how = rng.choice(['whole', 'head', 'tail', 'middle', 'one'])
        if how == 'whole' or ln == 1:
            a, n = s, ln
        elif how == 'head':
            a, n = s, rng.randint(1, ln)
        elif how == 'tail':
            n = rng.randint(1, ln)
            a = s + ln - n
        elif how == 'one':
            a, n = rng.randrange(s, s + ln), 1
        else:
            a = rng.randrange(s, s + ln)
            n = rng.randint(1, s + ln - a)
        return 'free', 'free-' + ('run-start' if a == s else 'run-interior'), a, n
    if r < 0.9 and model.live:
        s = rng.choice(sorted(model.live))
        n0 = model.live[s]
        v = rng.choice(OCCUPIED_VARIANTS)
        if v == 'same-range':
            a, n = s, n0
        elif v == 'same-start-shorter':
            a, n = s, rng.randint(1, n0)
        elif v == 'same-start-longer':
            a, n = s, n0 + rng.randint(1, 4)
        elif v == 'interior':
            a = s + rng.randrange(n0)
            n = rng.randint(1, s + n0 - a)
        elif v == 'runs-into-from-left':
            a = s - rng.randint(1, 4)
            n = s - a + rng.randint(1, n0)
        elif v == 'starts-inside-ends-after':
            a = s + rng.randrange(n0)
            n = s + n0 - a + rng.randint(1, 4)
        else:
            a = s - rng.randint(0, 3)
            n = s + n0 - a + rng.randint(0, 3)
        a = max(a, lo)
        n = max(1, min(n, hi - a))
        st = model.range_state(a, n)
        return st, (v if st == 'occupied' else 'free-next-to-live'), a, n
    a = rng.randrange(lo, hi)
    n = rng.randint(1, min(hi - a, rng.choice([1, 2, 4, hi - a])))
    st = model.range_state(a, n)
    return st, 'uniform-' + st, a, n


def run_reserve(spec, acc):
    import logging
    from sc3.synth import _engine as eng
    from sc3.base.main import main
    from vf.model_alloc import BitmapModel
    from vf.props.C16 import gen_config, gen_requests, history_length, Stats
    logging.getLogger('sc3.synth._engine').setLevel(logging.ERROR)
    for i in iter_cases(spec):
        rng = case_rng(spec['seed'], 'C16', 'reserve', i)
        size, reserved, cid, offset = gen_config(rng)
        main._m_rgen.seed(rng.getrandbits(48))
        prof = rng.choice(RESERVE_PROFILES)
        names, weights = zip(*prof.items())
        req = gen_requests(rng, size)
        length = history_length(rng)
        try:
            real = eng.ContiguousBlockAllocator(size, reserved, offset)
        except Exception as e:
            acc.violation(f'C16/alloc/constructor-raises/{_site_key(e)}',
                          {'case': i, 'config': [size, reserved, offset],
                           'tb': short_tb(e)})
            acc.case(h64((size, reserved, offset)), nontrivial=False)
            continue
        model = BitmapModel(size, reserved, offset)
        st = Stats()
        ops, freed, bad = [], [], None
        reserved_starts = set()
        n_res = n_res_free = n_res_occ = n_res_exc = 0
        n_interior = n_alloc_after = n_free_reserved = n_none_after = 0
        variants = {}
        for k in range(length):
            name = rng.choices(names, weights)[0]
            if name in ('free', 'dfree') and not (model.live if name == 'free'
                                                  else freed):
                name = 'reserve' if rng.random() < 0.5 else 'alloc'
            try:
                if name == 'alloc':
                    n = req()
                    ops.append(('alloc', n))
                    ans = real.alloc(n)
                    ops[-1] = ('alloc', n, ans)
                    v = model.judge_alloc(n, ans)
                    st.allocs += 1
                    if reserved_starts:
                        n_alloc_after += 1
                        if ans is None:
                            n_none_after += 1
                    if ans is None:
                        st.nones += 1
                    elif v:
                        st.note_alloc_ok()
                    if not v:
                        bad = (k, f'alloc/{v.mech}', v.detail,
                               'after-reserve' if n_res else None)
                        break
                elif name == 'reserve':
                    pick = pick_reserve(rng, model)
                    if pick is None:
                        continue
                    cls, variant, a, n = pick
                    warn = rng.random() < 0.5
                    ops.append(('reserve', a, n, variant))
                    raised, ans = None, None
                    try:
                        ans = real.reserve(a, n, warn)
                    except Exception as e:       # noqa: judged below
                        raised = e
                    n_res += 1
                    variants[variant] = variants.get(variant, 0) + 1
                    got = [(b.start, b.size) for b in real.blocks()]
                    v = model.judge_reserve(a, n, ans, raised is not None, got)
                    st.blocks += 1
                    if cls == 'free':
                        n_res_free += 1
                        if variant == 'free-run-interior':
                            n_interior += 1
                    else:
                        n_res_occ += 1
                        if raised is not None:
                            n_res_exc += 1
                    if not v:
                        mech = v.mech
                        detail = v.detail
                        if raised is not None:
                            if mech == 'free-range/raises':
                                mech = f'raises/{_site_key(raised)}/free-range'
                            detail += ' | ' + short_tb(raised)
                        bad = (k, f'reserve/{mech}', detail, variant)
                        break
                    if cls == 'free':
                        reserved_starts.add(a)
                        st.note_alloc_ok()
                    continue
                else:
                    if name == 'free':
                        addr = rng.choice(sorted(model.live))
                        if reserved_starts and rng.random() < 0.5:
                            cands = sorted(reserved_starts & set(model.live))
                            if cands:
                                addr = rng.choice(cands)
                        st.note_free(model, addr)
                        st.frees += 1
                        freed.append(addr)
                        if addr in reserved_starts:
                            n_free_reserved += 1
                            reserved_starts.discard(addr)
                    else:
                        addr = rng.choice(freed)
                        if addr in model.live:
                            st.note_free(model, addr)
                            st.frees += 1
                            reserved_starts.discard(addr)
                        else:
                            st.dfrees += 1
                    ops.append(('free', addr))
                    real.free(addr)
                    model.free(addr)
                v = model.judge_blocks((b.start, b.size) for b in real.blocks())
                st.blocks += 1
                if not v:
                    bad = (k, f'{ops[-1][0]}/{v.mech}', v.detail,
                           'after-reserve' if n_res else None)
                    break
            except Exception as e:
                bad = (k, f'{ops[-1][0]}/raises/{_site_key(e)}', short_tb(e),
                       'after-reserve' if n_res else None)
                break
        nontriv = (n_res_free > 0 and n_alloc_after > 0 and st.coalescing > 0)
        acc.case(h64((size, reserved, offset, ops)), nontrivial=nontriv)
        acc.count('reserve_histories')
        acc.count('reserve_calls_judged', n_res)
        acc.count('reserve_free_ranges_judged', n_res_free)
        acc.count('reserve_free_ranges_inside_a_free_block', n_interior)
        acc.count('reserve_occupied_ranges_judged', n_res_occ)
        acc.count('reserve_occupied_ranges_refused_by_exception', n_res_exc)
        acc.count('reserve_allocs_judged_with_reserved_ranges_live', n_alloc_after)
        acc.count('reserve_none_answers_with_reserved_ranges_live', n_none_after)
        acc.count('reserve_frees_of_reserved_ranges', n_free_reserved)
        acc.count('reserve_history_allocs_judged', st.allocs)
        acc.count('reserve_history_frees_judged', st.frees)
        acc.count('reserve_history_coalescing_frees', st.coalescing)
        acc.count('reserve_history_blocks_compared', st.blocks)
        acc.count('reserve_histories_' + _offset_class(offset).replace('-', '_'))
        for vname, c in variants.items():
            acc.count('reserve_variant_' + vname.replace('-', '_'), c)
        if acc.want_sample() and 5 <= len(ops) <= 12 and nontriv:
            acc.sample({'case': i, 'surface': 'reserve', 'size': size,
                        'reserved': reserved, 'client': cid, 'offset': offset,
                        'ops': ops})
        if bad:
            k, mech, detail, extra = bad
            # reserve: the mechanism (raising site / what happened to the
            # live set) is the key, the kind of range and the offset class
            # are in the witness; alloc / free after a reserve call: marked
            # so, before any reserve call: the key of the `direct` workload
            if mech.startswith('reserve/'):
                key = f'C16/{mech}'
            elif extra:
                key = f'C16/{mech}/{extra}'
            else:
                key = f'C16/{mech}/{_offset_class(offset)}'
            acc.violation(key,
                          {'case': i, 'surface': 'ContiguousBlockAllocator.reserve',
                           'size': size, 'reserved': reserved, 'client': cid,
                           'offset': offset, 'op_index': k,
                           'range': extra if mech.startswith('reserve/') else None,
                           'why': detail, 'ops': ops[-40:]})


# ---------------------------------------------------------------------------
# permanent node ids

def run_perm(spec, acc):
    from sc3.synth import _engine as eng
    from vf.model_alloc import NodeIdModel, PermIdModel, ID_SPAN
    for i in iter_cases(spec):
        rng = case_rng(spec['seed'], 'C16', 'perm', i)
        user = rng.choice([0, 1, 2, rng.randint(0, 31), 31])
        style = rng.choice(['small', 'small', 'default', 'near'])
        if style == 'small':
            first = rng.choice([3, 4, rng.randint(3, 12), rng.randint(8, 64)])
        elif style == 'default':
            first = rng.choice([1000, rng.randint(100, 5000)])
        else:
            window = rng.choice([2, 3, rng.randint(2, 40), rng.randint(20, 300)])
            first = ID_SPAN - window
        length = rng.choice([rng.randint(4, 30), rng.randint(20, 200),
                             rng.randint(100, 600)])
        w = rng.choice([dict(temp=3, perm=4, free=2, dfree=0.3, tfree=0.3),
                        dict(temp=1, perm=4, free=4, dfree=0.5, tfree=0.5),
                        dict(temp=5, perm=2, free=1, dfree=0.2, tfree=0.5),
                        dict(temp=1, perm=6, free=1, dfree=0.1, tfree=0.1)])
        names, weights = zip(*w.items())
        tmodel = NodeIdModel(user, first)
        pmodel = PermIdModel(user, first)
        ops, bad = [], None
        temps, freed = [], []
        n_free = n_dfree = n_tfree = n_after_wrap = n_exh = 0
        try:
            real = eng.NodeIDAllocator(user, first)
        except Exception as e:
            acc.violation(f'C16/nodeid/constructor-raises/{_site_key(e)}',
                          {'case': i, 'user': user, 'first_id': first,
                           'tb': short_tb(e)})
            acc.case(h64((user, first)), nontrivial=False)
            continue
        for k in range(length):
            name = rng.choices(names, weights)[0]
            if (name == 'free' and not pmodel.live) or \
                    (name == 'dfree' and not freed) or \
                    (name == 'tfree' and not temps):
                name = 'perm'
            try:
                if name == 'temp':
                    nid = real.alloc()
                    ops.append(('alloc', nid))
                    v = tmodel.judge(nid)
                    if v and nid in pmodel.live:
                        v = type(v)(False, 'temporary-id-equals-live-permanent-id',
                                    str(nid))
                    if not v:
                        bad = (k, v.mech, v.detail)
                        break
                    if len(temps) < 50:
                        temps.append(nid)
                elif name == 'perm':
                    full = pmodel.exhausted()
                    ops.append(('alloc_perm',))
                    try:
                        nid = real.alloc_perm()
                    except Exception:
                        if not full:
                            raise
                        nid = None           # refused loudly when exhausted
                    ops[-1] = ('alloc_perm', nid)
                    if full:
                        n_exh += 1
                    v = pmodel.judge(nid)
                    if not v:
                        bad = (k, v.mech + ('/zone-exhausted' if full else ''),
                               v.detail)
                        break
                    if tmodel.wraps:
                        n_after_wrap += 1
                elif name == 'free':
                    nid = rng.choice(sorted(pmodel.live))
                    ops.append(('free_perm', nid))
                    real.free_perm(nid)
                    pmodel.free(nid)
                    freed.append(nid)
                    n_free += 1
                elif name == 'dfree':
                    nid = rng.choice(freed)
                    ops.append(('free_perm', nid))
                    real.free_perm(nid)
                    if pmodel.free(nid):
                        n_free += 1          # has a new owner meanwhile
                    else:
                        n_dfree += 1
                else:
                    nid = rng.choice(temps)
                    ops.append(('free_perm-of-temporary-id', nid))
                    real.free_perm(nid)
                    n_tfree += 1
            except Exception as e:
                bad = (k, f'{ops[-1][0] if ops else name}/raises/{_site_key(e)}',
                       short_tb(e))
                break
        acc.case(h64((user, first, ops)),
                 nontrivial=pmodel.reused > 0 or (tmodel.wraps > 0 and pmodel.count > 0))
        acc.count('perm_histories')
        acc.count('perm_ids_judged', pmodel.count)
        acc.count('perm_ids_reused_after_free', pmodel.reused)
        acc.count('perm_ids_judged_after_temporary_wrap', n_after_wrap)
        acc.count('perm_frees', n_free)
        acc.count('perm_double_frees', n_dfree)
        acc.count('perm_frees_of_temporary_ids', n_tfree)
        acc.count('perm_requests_with_zone_exhausted', n_exh)
        acc.count('perm_zone_exhausted_answers_repeating_a_live_id',
                  pmodel.exhausted_repeats)
        acc.count('perm_history_temporary_ids_judged', tmodel.count)
        acc.count('perm_history_temporary_wraps', tmodel.wraps)
        if user:
            acc.count('perm_histories_user_nonzero')
        if acc.want_sample() and 5 <= len(ops) <= 14 and pmodel.reused:
            acc.sample({'case': i, 'surface': 'alloc_perm', 'user': user,
                        'first': first, 'ops': ops})
        if bad:
            k, mech, detail = bad
            acc.violation(f'C16/nodeid/{mech}',
                          {'case': i, 'user': user, 'first_id': first,
                           'via': 'NodeIDAllocator.alloc_perm/free_perm',
                           'op_index': k, 'why': detail, 'ops': ops[-30:]})


# ---------------------------------------------------------------------------
# the alternative number allocators

def _run_pow2(rng, eng, acc, i):
    from vf.model_alloc import PowerOfTwoModel
    size = rng.choice([rng.randint(1, 8), rng.randint(4, 32),
                       rng.randint(16, 96), rng.randint(64, 256)])
    pos = rng.choice([0, 0, 0, rng.randint(0, min(size - 1, 8))])
    style = rng.choice(['ones', 'small', 'mixed'])
    length = rng.choice([rng.randint(1, 12), rng.randint(8, 60),
                         rng.randint(40, 200)])
    w = rng.choice([dict(alloc=6, free=3, dfree=0.4, ufree=0.3),
                    dict(alloc=4, free=4, dfree=0.5, ufree=0.5),
                    dict(alloc=3, free=5, dfree=1.0, ufree=1.0)])
    names, weights = zip(*w.items())
    real = eng.PowerOfTwoAllocator(size, pos)
    model = PowerOfTwoModel(size, pos)
    ops, freed, bad = [], [], None
    c = dict(allocs=0, nones=0, frees=0, dfrees=0, ufrees=0, reissued=0,
             refree=0, blocks=0)
    reissued = set()
    for k in range(length):
        name = rng.choices(names, weights)[0]
        if (name == 'free' and not model.live) or (name == 'dfree' and not freed):
            name = 'alloc'
        try:
            if name == 'alloc':
                if style == 'ones':
                    n = 1 if rng.random() < 0.8 else rng.randint(1, max(1, size // 4))
                elif style == 'small':
                    n = rng.randint(1, max(1, min(5, size)))
                else:
                    n = rng.choice([rng.randint(1, max(1, size // 6)),
                                    rng.randint(1, max(1, size // 2)),
                                    rng.randint(1, size + 2)])
                ops.append(('alloc', n))
                was_freed = set(model.freed)
                ans = real.alloc(n)
                ops[-1] = ('alloc', n, ans)
                v = model.judge_alloc(n, ans)
                c['allocs'] += 1
                if ans is None:
                    c['nones'] += 1
                elif v and ans in was_freed:
                    c['reissued'] += 1
                    reissued.add(ans)
                if not v:
                    bad = (k, f'alloc/{v.mech}', v.detail)
                    break
            else:
                if name == 'free':
                    addr = rng.choice(sorted(model.live))
                    if reissued and rng.random() < 0.5:
                        cands = sorted(reissued & set(model.live))
                        if cands:
                            addr = rng.choice(cands)
                    c['frees'] += 1
                    if addr in reissued:
                        c['refree'] += 1
                        reissued.discard(addr)
                    freed.append(addr)
                elif name == 'dfree':
                    addr = rng.choice(freed)
                    c['frees' if addr in model.live else 'dfrees'] += 1
                    reissued.discard(addr)
                else:
                    addr = rng.randrange(0, size)
                    if addr in model.live:
                        c['frees'] += 1
                        freed.append(addr)
                        reissued.discard(addr)
                    else:
                        c['ufrees'] += 1
                ops.append(('free', addr))
                real.free(addr)
                model.free(addr)
            v = model.judge_blocks(b.addr for b in real.blocks())
            c['blocks'] += 1
            if not v:
                bad = (k, f'{ops[-1][0]}/{v.mech}', v.detail)
                break
        except Exception as e:
            bad = (k, f'{ops[-1][0]}/raises/{_site_key(e)}', short_tb(e))
            break
    acc.case(h64(('p2', size, pos, ops)),
             nontrivial=c['reissued'] > 0 and c['nones'] + c['refree'] > 0)
    for name, n in c.items():
        acc.count('pow2_' + {'allocs': 'allocs_judged', 'nones': 'none_answers_judged',
                             'frees': 'frees', 'dfrees': 'double_frees',
                             'ufrees': 'unknown_frees',
                             'reissued': 'freed_blocks_handed_out_again',
                             'refree': 'frees_of_blocks_handed_out_again',
                             'blocks': 'blocks_compared'}[name], n)
    return bad, {'size': size, 'pos': pos, 'ops': ops[-40:]}, ops


def _run_pool(rng, eng, acc, i, which):
    from vf.model_alloc import NumberPoolModel
    lo = rng.choice([0, 0, 1, rng.randint(0, 100), rng.randint(0, 5000)])
    span = rng.choice([0, 1, 2, rng.randint(1, 8), rng.randint(4, 40),
                       rng.randint(16, 127)])
    hi = lo + span
    if which == 'lru':
        real = eng.LRUNumberAllocator(lo, hi)
        model = NumberPoolModel(lo, hi, hi - lo)      # hi itself is never in the queue
    else:
        real = eng.StackNumberAllocator(lo, hi)
        model = NumberPoolModel(lo, hi, hi - lo + 1)
    length = rng.choice([rng.randint(1, 12), rng.randint(8, 60),
                         rng.randint(40, 300)])
    p_alloc = rng.choice([0.7, 0.55, 0.45])
    ops, bad = [], None
    c = dict(allocs=0, nones=0, frees=0, reissued=0)
    freed_once = set()
    for k in range(length):
        try:
            if rng.random() < p_alloc or not model.live:
                ops.append(('alloc',))
                ans = real.alloc()
                ops[-1] = ('alloc', ans)
                v = model.judge_alloc(ans)
                c['allocs'] += 1
                if ans is None:
                    c['nones'] += 1
                elif v and ans in freed_once:
                    c['reissued'] += 1
                if not v:
                    bad = (k, f'alloc/{v.mech}', v.detail)
                    break
            else:
                x = rng.choice(sorted(model.live))
                ops.append(('free', x))
                real.free(x)
                model.free(x)
                freed_once.add(x)
                c['frees'] += 1
        except Exception as e:
            bad = (k, f'{ops[-1][0]}/raises/{_site_key(e)}', short_tb(e))
            break
    acc.case(h64((which, lo, hi, ops)), nontrivial=c['reissued'] > 0)
    acc.count(f'{which}_allocs_judged', c['allocs'])
    acc.count(f'{which}_none_answers_judged', c['nones'])
    acc.count(f'{which}_frees', c['frees'])
    acc.count(f'{which}_freed_numbers_handed_out_again', c['reissued'])
    return bad, {'lo': lo, 'hi': hi, 'ops': ops[-40:]}, ops


def _run_ring(rng, eng, acc, i):
    from vf.model_alloc import RingModel
    lo = rng.choice([0, 1, rng.randint(0, 100), rng.randint(0, 5000)])
    hi = lo + rng.choice([0, 1, 2, rng.randint(1, 8), rng.randint(4, 60)])
    real = eng.RingNumberAllocator(lo, hi)
    model = RingModel(lo, hi)
    count = rng.randint(1, 3 * (hi - lo + 1) + 5)
    bad, first = None, []
    for k in range(count):
        try:
            x = real.alloc()
        except Exception as e:
            bad = (k, f'alloc/raises/{_site_key(e)}', short_tb(e))
            break
        if len(first) < 8:
            first.append(x)
        v = model.judge(x)
        if not v:
            bad = (k, f'alloc/{v.mech}', v.detail)
            break
    acc.case(h64(('ring', lo, hi, count)), nontrivial=model.wraps > 0)
    acc.count('ring_numbers_judged', model.count)
    acc.count('ring_wraps', model.wraps)
    return bad, {'lo': lo, 'hi': hi, 'count': count, 'first_answers': first}, first


def run_numalloc(spec, acc):
    from sc3.synth import _engine as eng
    names = {'pow2': 'PowerOfTwoAllocator', 'lru': 'LRUNumberAllocator',
             'stack': 'StackNumberAllocator', 'ring': 'RingNumberAllocator'}
    for i in iter_cases(spec):
        rng = case_rng(spec['seed'], 'C16', 'numalloc', i)
        which = rng.choice(['pow2', 'pow2', 'pow2', 'lru', 'stack', 'ring'])
        try:
            if which == 'pow2':
                bad, wit, ops = _run_pow2(rng, eng, acc, i)
            elif which == 'ring':
                bad, wit, ops = _run_ring(rng, eng, acc, i)
            else:
                bad, wit, ops = _run_pool(rng, eng, acc, i, which)
        except Exception as e:
            acc.case(h64((which, i)), nontrivial=False)
            acc.count(f'observed_unused_allocator/{which}/constructor-raises/{_site_key(e)}')
            continue
        acc.count(f'{which}_histories')
        if acc.want_sample() and 4 <= len(ops) <= 10 and which != 'ring':
            acc.sample(dict(wit, case=i, surface=names[which]))
        if bad:
            # Observation, not a verdict: these allocator classes are defined in the
            # anchored file but nothing in the library allocates bus, buffer or node
            # numbers with them (their uses in server.py are commented out), so the
            # statement - "bus and buffer index allocation", "node ids handed out" -
            # does not speak about them.  Disagreements with the models of their
            # discipline are counted and shown as samples.
            k, mech, detail = bad
            acc.count(f'observed_unused_allocator/{which}/{mech}')
            if acc.counters.get(f'observed_unused_allocator/{which}/{mech}', 0) <= 2:
                acc.sample(dict(wit, case=i, allocator=names[which], op_index=k,
                                why=detail, observed=f'{which}/{mech}'))
